"""C11 - exactly the non-hidden, non-excluded files of supported languages are analysed.

Tie: (1) translator/excludes.py regenerates Gen/Excludes.lean from Scanner.DEFAULT_EXCLUDES
(pinned by C11.default_excludes_pinned); (2) real directory trees (hidden, built-in-excluded,
ordinary names, depth <= 4; supported / unsupported / no extension; Latin-1, malformed and empty
files) x exclusion patterns of the six unambiguous gitignore classes (bare name, dir/, *.ext, a/b, a/*, /a) x source of the patterns
(option, .codelimit.yml, root .gitignore, mixed) x form of the root argument (absolute, relative,
`.`, with `..`): the REAL `scan_path` (with `_analyze_file` wrapped) is compared with the model
`CL.Sel.scanPath` run on a snapshot of the same directory, the oracles answered by the real
pathspec / Pygments per path; (3) direct oracle: the selected set recomputed from the property
text; (4) a twin tree holding only the qualifying files must give the same entries; (5) state
probe: a share of the trees is mutated after the first scan (files copied / renamed to another
extension, new empty files, contents swapped, deletions) and scanned twice more in the same process,
with the first report handed back as cached_report and from scratch; (6) symbolic links to files
(inside the tree, into hidden / excluded folders, outside the root) are files of their own;
(7) exclusion lists WITH negation lines, judged by "the last matching line decides" where the real
`git check-ignore` agrees (gitignore_stream.correspond_negation)."""
import json
import os
import sys

sys.path.insert(0, os.path.dirname(os.path.dirname(os.path.abspath(__file__))))
sys.path.insert(0, os.path.join(os.path.dirname(os.path.dirname(os.path.dirname(os.path.abspath(__file__)))), "translator"))
import common
import excludes
import select_real as sr

ID = "C11"
TRUSTED = [
    "translator/excludes.py (ast -> Lean list literal for DEFAULT_EXCLUDES and the order of sources in generate_exclude_spec)",
    "correspondence harness harness/props/C11.py + harness/select_real.py (temp trees, os.scandir snapshot, wrapping of Scanner._analyze_file)",
    "oracle parameters of the model answered by the real libraries per path: pathspec (gitignore patterns), Pygments get_lexer_for_filename, hashlib.md5",
]
ASSUMPTIONS = [
    "the tree is a snapshot of a real directory: names non-empty, without '/', unique per directory; no symbolic links to directories; the tree does not change during the scan",
    "Pygments chooses the lexer from the base name only (no `code` argument is passed)",
    "built-in exclusions are the 26 patterns of the pinned commit (Appendix A); exclusion lists are drawn from the six unambiguous gitignore classes (bare name, dir/, *.ext, a/b, a/*, /a)",
    "an exception raised by the analysis of a qualifying file aborts the scan (C03 is about when that can happen)",
]
FORMS = ["abs", "rel", "dot", "dotdot", "dotdot_abs", "sub_dotdot", "link_root", "link_dotdot", "link_sub_dotdot", "link_dotdot_abs"]


def regen(ctx):
    try:
        text = excludes.translate(common.REPO)
    except excludes.Refuse as e:
        return [str(e)]
    common.write_if_changed(os.path.join(common.LEAN, "CodeLimit", "Gen", "Excludes.lean"), text)
    return []


# ------------------------------------------------------------------ cases

def gen_case(rnd, rescan_share=1.0, env_share=0.0, exclusion_change_share=0.0):
    tree = sr.gen_tree(rnd, max_depth=rnd.choice([2, 3, 4, 4]))
    patterns = sr.gen_patterns(rnd, tree)
    muts = sr.gen_mutations(rnd, tree) if not sr.all_links(tree) else []      # mutations move / rewrite plain files only
    case = {"tree": sr.tree_to_json(tree), "patterns": patterns, "sources": sr.split_sources(rnd, patterns),
            "form": rnd.choice(FORMS), "mutations": muts if rnd.random() < rescan_share else []}
    if exclusion_change_share and rnd.random() < exclusion_change_share:
        # history: scan -> the exclusion list changes (lines added / removed, any source) -> scan again (cached / fresh)
        if rnd.random() < 0.6:
            case["mutations"] = []          # ... with every file byte-identical
        t2 = sr.tree_from_files(sr.mutate_files(sr.files_dict(tree), case["mutations"])) if case["mutations"] else tree
        case["exclusions2"] = sr.gen_exclusion_change(rnd, t2, patterns, case["sources"])
    if env_share and rnd.random() < env_share:
        # the surroundings of the root (directories above it: hidden / built-in-excluded / plain names, a git checkout's
        # `.git` and `.gitignore` in one of them) are part of the case; only what lies under the root counts
        case["env"] = sr.gen_env(rnd, tree)
    return case


def root_argument(T, form, tree):
    """(directory to chdir into, path argument) for one way of writing the root"""
    if form == "abs":
        return T.tmp, T.root
    if form == "rel":
        return T.parent, "root"
    if form == "dot":
        return T.root, "."
    if form == "dotdot":
        return T.parent, os.path.join("root", "..", "root")
    if form == "dotdot_abs":
        return T.tmp, os.path.join(T.root, "..", "root")
    if form.startswith("link_"):
        return link_root_argument(T, form)
    subs = [c[1] for c in tree[2] if c[0] == "D"]
    if subs:
        return T.parent, os.path.join("root", subs[0], "..")
    return T.parent, os.path.join("..", os.path.basename(T.parent), "root")


def link_root_argument(T, form):
    """roots spelled through a symbolic link to a directory, with `..` AFTER the link: the root is the directory the
    operating system reaches (os.path.realpath of the argument), which is not the one a textual removal of `x/..` gives.
        <tmp>/w/root            the code base            <tmp>/w/pivot/sub       real directories
        <tmp>/z/lnk -> ../w/pivot                        <tmp>/z/rootlink -> ../w/root
        <tmp>/z/root/{main.py,decoy.py}                  what `z/lnk/../root` names when read textually (NOT the root)"""
    z = os.path.join(T.tmp, "z")
    os.makedirs(os.path.join(T.parent, "pivot", "sub"), exist_ok=True)
    os.makedirs(os.path.join(z, "root", "src"), exist_ok=True)
    for rel in ("main.py", "decoy.py", os.path.join("src", "util.js")):
        with open(os.path.join(z, "root", rel), "w") as f:
            f.write("def decoy(a):\n    return a\n" if rel.endswith(".py") else "function decoy(a) {\n  return a;\n}\n")
    for name, target in (("lnk", os.path.relpath(os.path.join(T.parent, "pivot"), z)), ("rootlink", os.path.relpath(T.root, z))):
        if not os.path.islink(os.path.join(z, name)):
            os.symlink(target, os.path.join(z, name))
    if form == "link_root":
        cwd, arg = T.tmp, os.path.join("z", "rootlink")
    elif form == "link_dotdot":
        cwd, arg = z, os.path.join("lnk", "..", "root")
    elif form == "link_sub_dotdot":
        cwd, arg = T.tmp, os.path.join("z", "lnk", "sub", "..", "..", "root")
    else:
        cwd, arg = T.parent, z + "/lnk/..//root"
    assert os.path.realpath(os.path.join(cwd, arg)) == os.path.realpath(T.root), (cwd, arg)
    return cwd, arg


def observe(case):
    """run the real scan on the case -> observation (JSON-able) + the model request line"""
    tree = sr.tree_from_json(case["tree"])
    with sr.TempTree(tree, case.get("env")) as T:
        cwd, arg = root_argument(T, case["form"], tree)
        T.chdir(cwd)
        sr.install_exclusions(T.root, case["sources"], arg)
        cb1 = None
        try:
            entries, analysed, cb1 = sr.run_scan_cb(arg)
            err = None
        except Exception as e:  # the scan must not crash on these trees
            entries, analysed, err = [], [], "%s: %s" % (type(e).__name__, e)
        snap = sr.snapshot(T.root, skip=sr.HARNESS_FILES)
        paths = [p for p, _ in sr.all_files(snap)]
        excl = sr.real_excluded_paths(arg, paths)
        ids = sr.Ids()
        line = "select %s %s %s" % (sr.enc_tree(snap, ids), sr.enc_paths(excl), sr.enc_langs(snap))
        li = sr.lang_ids()
        real = {
            "error": err,
            "entries": [[k, li.get(lang, -1), cs] for (k, lang, cs, _ms, _p, _loc) in entries],
            "analysed": analysed,
            "full": {k: [lang, cs, [list(m) for m in ms], p, loc] for (k, lang, cs, ms, p, loc) in entries},
        }
        # state probe: the codebase changes (case["mutations"]) and is scanned AGAIN in this process - once with the
        # first scan's report handed back as `cached_report` (what `codelimit scan` does), once from scratch
        if (case.get("mutations") or case.get("exclusions2")) and cb1 is not None:
            try:
                cached = sr.as_cached_report(cb1)
                sr.apply_mutations_fs(T.root, case.get("mutations") or [])
                if case.get("exclusions2"):
                    sr.reinstall_exclusions(T.root, case["exclusions2"]["sources"], arg)
                e_c, _a, _cb = sr.run_scan_cb(arg, cached)
                e_f, _a, _cb = sr.run_scan_cb(arg)
                real["rescan"] = {"cached": {k: [lang, cs, [list(m) for m in ms], p, loc] for (k, lang, cs, ms, p, loc) in e_c},
                                  "fresh": {k: [lang, cs, [list(m) for m in ms], p, loc] for (k, lang, cs, ms, p, loc) in e_f}}
            except Exception as e:  # noqa: BLE001
                real["rescan"] = {"error": "%s: %s" % (type(e).__name__, e)}
        # the twin: only the qualifying files (as the property text selects them), same exclusions
        expected = sr.spec_selected(tree, case["patterns"])
        twin = sr.prune(tree, set(expected))
    with sr.TempTree(twin) as T2:
        T2.chdir(T2.tmp)
        sr.install_exclusions(T2.root, case["sources"], T2.root)
        try:
            e2, _ = sr.run_scan(T2.root)
            real["twin"] = {k: [lang, cs, [list(m) for m in ms], p, loc] for (k, lang, cs, ms, p, loc) in e2}
        except Exception as e:
            real["twin"] = {"error": "%s: %s" % (type(e).__name__, e)}
    return real, line, ids


def parse_model(reply, ids):
    ws = reply.split()
    if not ws or ws[0] not in ("ok", "err"):
        return {"error": reply}
    out = {"error": None, "entries": [], "analysed": []}
    i = 1
    if ws[0] == "err":
        out["error"] = "err " + ws[1]
        i = 2
    else:
        n = int(ws[1]); i = 2
        for _ in range(n):
            k, i = sr.read_str(ws, i)
            lang = int(ws[i]); cid = int(ws[i + 1]); i += 2
            out["entries"].append([k, lang, ids.md5(cid)])
    a = int(ws[i]); i += 1
    for _ in range(a):
        k, i = sr.read_str(ws, i)
        out["analysed"].append(k)
    return out


def oracle(case, real):
    """the property text applied to the real scan's output -> list of violated clauses"""
    tree = sr.tree_from_json(case["tree"])
    expected = sr.spec_selected(tree, case["patterns"])
    bad = []
    if real["error"]:
        return ["scan raised " + real["error"]]
    keys = [e[0] for e in real["entries"]]
    li = sr.lang_ids()
    if set(keys) != set(expected):
        extra = sorted(set(keys) - set(expected)); missing = sorted(set(expected) - set(keys))
        bad.append("key set: extra %s missing %s" % (extra[:4], missing[:4]))
    if len(keys) != len(set(keys)):
        bad.append("a key appears twice")
    for k, lang, cs in real["entries"]:
        if k in expected:
            if li.get(expected[k][0]) != lang:
                bad.append("language of %s" % k)
            if expected[k][1] != cs:
                bad.append("checksum of %s" % k)
    for k, v in real["full"].items():
        if v[3] != k:
            bad.append("entry path %r filed under key %r" % (v[3], k))
        if v[4] != sum(m[5] for m in v[2]):
            bad.append("loc of %s" % k)
    if sorted(real["analysed"]) != sorted(set(real["analysed"])):
        bad.append("a file was analysed twice")
    not_qual = [k for k in real["analysed"] if k not in expected]
    if not_qual:
        bad.append("analysed although not qualifying: %s" % not_qual[:4])
    if real["analysed"] != keys:
        bad.append("analysed paths differ from the keys")
    rs = real.get("rescan")
    if rs is not None:
        if "error" in rs:
            bad.append("second scan (after the mutations) raised %s" % rs["error"])
        else:
            muts = case.get("mutations") or []
            pats2 = (case.get("exclusions2") or {}).get("patterns", case["patterns"])
            exp2 = sr.spec_selected(sr.tree_from_files(sr.mutate_files(sr.files_dict(tree), muts)) if muts else tree, pats2)
            for which in ("cached", "fresh"):
                got = rs[which]
                tag = "second scan after %s%s (%s)" % ([op[:1] + ["/".join(x) for x in op[1:] if isinstance(x, list)] for op in muts], (" and the exclusion list changed from %s to %s" % (case["patterns"], pats2)) if case.get("exclusions2") else "", "first report handed back as cached_report" if which == "cached" else "from scratch")
                if set(got) != set(exp2):
                    bad.append("%s: key set: extra %s missing %s" % (tag, sorted(set(got) - set(exp2))[:4], sorted(set(exp2) - set(got))[:4]))
                for k, v in got.items():
                    if k in exp2 and (v[0] != exp2[k][0] or v[1] != exp2[k][1]):
                        bad.append("%s: %s reported as (%s, %s), required (%s, %s)" % (tag, k, v[0], v[1][:8], exp2[k][0], exp2[k][1][:8]))
            if rs["cached"] != rs["fresh"]:
                diff = sorted(set(rs["cached"]) ^ set(rs["fresh"])) or [k for k in rs["cached"] if rs["cached"][k] != rs["fresh"].get(k)]
                bad.append("second scan with the first report handed back differs from a scan from scratch at %s" % diff[:4])
    if real.get("twin") != real["full"]:
        t = real.get("twin") or {}
        diff = sorted(set(t) ^ set(real["full"])) or [k for k in t if t[k] != real["full"].get(k)]
        bad.append("files that do not qualify changed the result (twin tree differs at %s)" % diff[:4])
    return bad


def classify(case, real):
    tree = sr.tree_from_json(case["tree"])
    files = sr.all_files(tree)
    expected = sr.spec_selected(tree, case["patterns"])
    reasons = set()
    for comps, _ in files:
        if "/".join(comps) in expected:
            continue
        if sr.spec_hidden(comps):
            reasons.add("hidden")
        elif sr.spec_excluded(comps, []):
            reasons.add("builtin")
        elif sr.spec_excluded(comps, case["patterns"]):
            reasons.add("pattern")
        else:
            reasons.add("language")
    return len(files), len(expected), reasons


def run_cases(cases):
    obs = [observe(c) for c in cases]
    replies = common.run_driver([line for (_r, line, _i) in obs])
    dis, fails = [], []
    for c, (real, _line, ids), reply in zip(cases, obs, replies):
        model = parse_model(reply, ids)
        r = {"error": real["error"], "entries": real["entries"], "analysed": real["analysed"]}
        m = {"error": model.get("error"), "entries": model.get("entries"), "analysed": model.get("analysed")}
        if r != m:
            dis.append({"stream": "scan_path", "input": c, "model": m, "impl": r})
        bad = oracle(c, real)
        if bad:
            fails.append({"input": c, "observed": {"keys": [e[0] for e in real["entries"]], "analysed": real["analysed"],
                                                    "error": real["error"]}, "required": bad})
    return obs, dis, fails


FIXED = [
    # every reason for skipping at once, every source of patterns
    {"tree": ["D", "root", [
        ["F", "main.py", "def f(a):\n    return a\n"], ["F", ".hidden.py", "def f(a):\n    return a\n"],
        ["F", "README.md", "x"], ["F", "Makefile", "all:\n"], ["F", "latin.py", sr.LATIN1.decode("latin-1")],
        ["F", "broken.js", sr.MALFORMED.decode("latin-1")],
        ["D", ".git", [["F", "hook.py", "def f(a):\n    return a\n"]]],
        ["D", "tests", [["F", "t.py", "def f(a):\n    return a\n"]]],
        ["D", "src", [["F", "a.c", "int f(int a) {\n  return a;\n}\n"], ["F", "gen.ts", "function f(a) {\n  return a;\n}\n"],
                      ["D", "lib", [["F", "x.java", "class K {\n  int f(int a) {\n    return a;\n  }\n}\n"]]],
                      ["D", "node_modules", [["F", "m.js", "function f(a) {\n  return a;\n}\n"]]],
                      ["D", ".cache", [["F", "c.py", "def f(a):\n    return a\n"]]]]],
        ["D", "pkg", [["F", "p.cs", "class K {\n  int f(int a) {\n    return a;\n  }\n}\n"], ["F", "q.h", "int f(int a) {\n  return a;\n}\n"]]],
     ]], "patterns": ["*.ts", "src/lib", "pkg/"], "sources": {"option": ["*.ts"], "config": ["src/lib"], "gitignore": ["pkg/"]},
     "form": "dotdot"},
    {"tree": ["D", "root", [["D", "a", [["F", "x.py", "def f(a):\n    return a\n"], ["D", "b", [["F", "y.py", "def f(a):\n    return a\n"]]]]],
                            ["D", "lib", [["D", "a", [["F", "z.py", "def f(a):\n    return a\n"]]]]]]],
     "patterns": ["a/*"], "sources": {"option": [], "config": [], "gitignore": ["a/*"]}, "form": "dot"},
    {"tree": ["D", "root", []], "patterns": [], "sources": {"option": [], "config": [], "gitignore": []}, "form": "abs"},
    # anchored patterns and same-named directories deeper in the tree (seeded changes C11-4, C12-1: pruning directories by
    # their bare name): `/out` and `src/gen` exclude only the entries directly at that path
    {"tree": ["D", "root", [["D", "out", [["F", "a.py", "def f(a):\n    return a\n"]]], ["F", "c.py", "def f(a):\n    return a\n"],
                            ["D", "src", [["D", "out", [["F", "b.py", "def f(a):\n    return a\n"], ["D", "deep", [["F", "b2.js", "function f(a) {\n  return a;\n}\n"]]]]],
                                          ["D", "gen", [["F", "g.py", "def f(a):\n    return a\n"]]],
                                          ["D", "pkg", [["D", "gen", [["F", "h.py", "def f(a):\n    return a\n"]]],
                                                        ["D", "src", [["D", "gen", [["F", "i.py", "def f(a):\n    return a\n"]]]]]]]]]]],
     "patterns": ["/out", "src/gen"], "sources": {"option": ["/out"], "config": [], "gitignore": ["src/gen"]}, "form": "rel"},
]


def _correspond_selection(ctx):
    rnd = ctx.rng("trees")
    n = ctx.pick(500, 6000)
    cases = [dict(c) for c in FIXED]
    for f in FORMS:
        cases.append(dict(FIXED[0], form=f))
    cases += [gen_case(rnd, ctx.pick(0.34, 0.5), 0.0, 0.25) for _ in range(n)]
    for k, base in enumerate(FIXED):         # the fixed trees: one more exclusion line between the scans, each source in turn
        if sr.spec_selected(sr.tree_from_json(base["tree"]), base["patterns"]):
            cases.append(dict(base, mutations=[], exclusions2=sr.gen_exclusion_change(rnd, sr.tree_from_json(base["tree"]), base["patterns"], base["sources"])))
    # the environment of the root: small fixed trees x generated surroundings x root forms, and a share of random trees
    re_ = ctx.rng("environment")
    for k in range(ctx.pick(12, 60)):
        base = FIXED[1] if k % 2 else FIXED[3]
        src = {"option": list(base["patterns"]), "config": [], "gitignore": []} if k % 4 < 2 else base["sources"]     # half of them: a root WITHOUT a .gitignore of its own
        cases.append(dict(base, sources=src, form=FORMS[k % len(FORMS)], env=sr.gen_env(re_, sr.tree_from_json(base["tree"]))))
    cases += [gen_case(re_, 0.2, 1.0) for _ in range(ctx.pick(60, 1500))]
    obs, dis, fails = run_cases(cases)
    dist = {"forms": {}, "sources": {}, "skip_reasons": {}, "files": 0, "selected": 0,
            "rescans_after_mutation": sum(1 for c in cases if c.get("mutations")),
            "rescans_after_exclusion_change": sum(1 for c in cases if c.get("exclusions2")),
            "rescans_after_exclusion_change_files_untouched": sum(1 for c in cases if c.get("exclusions2") and not c.get("mutations")),
            "rescans_where_a_contributing_file_became_excluded": sum(1 for c in cases if c.get("exclusions2") and _newly_excluded(c)),
            "rescans_where_an_excluded_file_came_back": sum(1 for c in cases if c.get("exclusions2") and _newly_excluded(c, True)),
            "with_environment": sum(1 for c in cases if c.get("env")),
            "environment_hidden_ancestor": sum(1 for c in cases if any(a.startswith(".") for a in (c.get("env") or {}).get("above", []))),
            "environment_git_checkout_above": sum(1 for c in cases if any(f.split("/")[-1] == ".git" or "/.git/" in "/" + f for f in (c.get("env") or {}).get("files", {}))),
            "environment_gitignore_above_and_none_at_root": sum(1 for c in cases if any(f.endswith(".gitignore") for f in (c.get("env") or {}).get("files", {})) and not c["sources"]["gitignore"]),
            "rescan_mutations": {k: sum(1 for c in cases for op in (c.get("mutations") or []) if op[0] == k) for k in ("copy", "move", "write", "delete")}}
    nontrivial = set()
    for c, (real, _l, _i) in zip(cases, obs):
        nf, ns, reasons = classify(c, real)
        dist["forms"][c["form"]] = dist["forms"].get(c["form"], 0) + 1
        src = "+".join(k for k in ("option", "config", "gitignore") if c["sources"][k]) or "none"
        dist["sources"][src] = dist["sources"].get(src, 0) + 1
        for r in reasons:
            dist["skip_reasons"][r] = dist["skip_reasons"].get(r, 0) + 1
        dist["files"] += nf; dist["selected"] += ns
        fl = sr.all_files(sr.tree_from_json(c["tree"]))
        dist["nested_gitignore_files"] = dist.get("nested_gitignore_files", 0) + sum(1 for f, _ in fl if f[-1] == ".gitignore")
        dist["names_by_pygments_pool"] = dist.get("names_by_pygments_pool", 0) + sum(
            1 for f, _ in fl if sr.expected_language(f[-1]) and os.path.splitext(f[-1])[1] not in sr.SUPPORTED_EXT)
        dist["non_ascii_paths"] = dist.get("non_ascii_paths", 0) + sum(1 for f, _ in fl if any(ord(ch) > 127 for ch in "/".join(f)))
        import unicodedata
        seen_nfc = {}
        for f, _ in fl:
            seen_nfc.setdefault(unicodedata.normalize("NFC", "/".join(f)), set()).add("/".join(f))
        dist["nfc_nfd_twin_paths"] = dist.get("nfc_nfd_twin_paths", 0) + sum(1 for v in seen_nfc.values() if len(v) > 1)
        dist["rewrites_with_old_mtime"] = dist.get("rewrites_with_old_mtime", 0) + sum(1 for op in c.get("mutations", []) if op[0] == "write" and len(op) > 3)
        nl = len(sr.all_links(sr.tree_from_json(c["tree"])))
        dist["trees_with_symlinks"] = dist.get("trees_with_symlinks", 0) + (1 if nl else 0)
        dist["symlinks"] = dist.get("symlinks", 0) + nl
        if ns > 0 and reasons:
            nontrivial.add(json.dumps([c["tree"], c["patterns"]], sort_keys=True))
    # the Lean model of the six pattern classes (Spec/Gitignore.lean; Props/C11pat.lean instantiate the C11 / C12
    # theorems with it) against pathspec as Code Limit builds it, and end to end against scan_path
    import gitignore_stream
    gi = gitignore_stream.correspond(ctx.rng("gitignore"), ctx.pick(150, 2000))
    gs = gitignore_stream.correspond_scan(ctx.rng("gitignore-scan"), ctx.pick(40, 400))
    for d in gi["disagreements"][:10]:
        dis.append({"stream": "gitignore", "input": {"patterns": d["patterns"], "path": d["path"], "sources": d.get("sources")},
                    "model": "excluded=%s" % d["model"], "impl": "excluded=%s" % d["real"]})
    for d in (gi["parse_mismatch"] + gi["regex_mismatch"] + gi["model_errors"])[:10]:
        dis.append({"stream": "gitignore-parse/regex", "input": d, "model": str(d)[:200], "impl": ""})
    for d in gs["disagreements"][:10]:
        fails.append({"input": {"stream": "gitignore-scan", "patterns": d.get("patterns"), "sources": d.get("sources")},
                      "observed": {"extra_in_scan": d.get("extra_in_scan"), "missing_in_scan": d.get("missing_in_scan"), "error": d.get("error")},
                      "required": "scan_path selects exactly the files that are not hidden, of a supported language and not excluded by the pattern model"})
    gn = gitignore_stream.correspond_negation(ctx.rng("gitignore-negation"), ctx.pick(60, 800))
    fails = gn["failures"][:5] + fails
    dist["gitignore_negation"] = gn["counts"]
    dist["gitignore"] = {k: v for k, v in gi["counts"].items() if not isinstance(v, dict)}
    dist["gitignore_scan"] = gs["counts"]
    return {
        "evaluations": len(cases) + gi["counts"]["cases"] + gs["counts"].get("cases", 0) + gn["counts"]["cases"], "distinct_nontrivial": len(nontrivial) + gi["counts"]["patterns_biting"],
        "rule": "%d random trees (name pool: hidden .git/.venv/.cache/.hidden.py, built-in excluded tests/test/build/dist/node_modules/venv/_build/buck-out, ordinary src/pkg/a/lib; depth <= 4; supported, unsupported and no extension; Latin-1, malformed, empty contents; a third of the trees with 1-3 symbolic links to files inside the tree - also in hidden / excluded folders - or outside the root) x 0-3 patterns of the 5 gitignore classes x pattern source (option/.codelimit.yml/.gitignore/mixed) x root form (%s) + %d fixed cases; state probe: after the first scan a share of the trees is mutated (a file copied / renamed to another extension in the same or another directory, new possibly empty files, contents swapped or emptied, files deleted) and scanned twice more in the same process - with the first scan's report (written and read back) handed in as cached_report, and from scratch: both must give the entries the property text requires for the mutated tree and agree with each other; non-trivial = distinct (tree, patterns) with at least one selected and one skipped file; round 5: the root is also spelled through a symbolic link to a directory (link_root) and with `..` AFTER such a link (`lnk/../root`, `z/lnk/sub/../../root`, absolute with `//`: the root is what the OS reaches, a decoy tree sits where textual `..` removal would land); a share of the file names comes from the Pygments-derived pool (every extension / whole name of a supported language: x.h, x.hh, x.mjs, x.pyi, BUILD.bazel, SConscript, ...; same-suffix non-sources AUTHORS / NOTICE / defs.bazel next to them), NFC / NFD spellings of one name (often both in one directory, also as directory names) and shell/JSON/pattern-awkward names; sub-directories carry nested .gitignore files whose lines name files beneath them (only the root one counts); rewritten files partly keep or get an OLD modification time before the rescan; round 7: in %d rescans the EXCLUSION LIST changes between the first scan and the two later ones (lines added - aimed at files that contributed - and / or removed; option / .codelimit.yml / root .gitignore; %d with every file byte-identical; a contributing file becomes excluded in %d, an excluded one comes back in %d): cached and fresh rescan must both give what the NEW list selects; round 6: %d cases carry an ENVIRONMENT (harness/select_real.gen_env): 1-3 directories above the root named from the hidden / built-in-excluded / plain pools (%d with a hidden ancestor), one of them the top of a git checkout / worktree (`.git` directory or file; %d) with a .gitignore whose lines are drawn from the names in the tree (%d over a root that has no .gitignore of its own) - only what lies under the root may count; the twin tree has no environment; files that are ONE function of n lines for n on the thresholds' neighbours and source-integer rungs, with / without final newline, CR LF; PLUS pattern lists of the six classes x exhaustive / random path universes: the Lean pattern model vs Scanner.generate_exclude_spec + is_excluded (decisions, parse classes, generated regular expressions), and scan_path on real trees vs the model's selection (non-trivial there = patterns that exclude at least one path); PLUS %d pattern lists WITH negation lines (`!` + one of the six classes, aimed at a path an earlier line excludes; one source per list) x real trees + path universes: scan_path and generate_exclude_spec/is_excluded judged by the rule that the LAST matching line decides, where %s agrees (%d decisions judged, %d re-included by a `!` line, %d not judged because git decides per directory entry)" % (n, "/".join(FORMS), len(FIXED) + len(FORMS), dist["rescans_after_exclusion_change"], dist["rescans_after_exclusion_change_files_untouched"], dist["rescans_where_a_contributing_file_became_excluded"], dist["rescans_where_an_excluded_file_came_back"], dist["with_environment"], dist["environment_hidden_ancestor"], dist["environment_git_checkout_above"], dist["environment_gitignore_above_and_none_at_root"], gn["counts"]["cases"], "the real `git check-ignore`" if gn["counts"]["git"] else "(git not installed: the reading alone)", gn["counts"].get("judged", 0), gn["counts"].get("reincluded", 0), gn["counts"].get("git_differs_not_judged", 0)),
        "samples": [{"form": c["form"], "patterns": c["patterns"], "sources": c["sources"],
                     "keys": [e[0] for e in o[0]["entries"]][:6]} for c, o in list(zip(cases, obs))[:4]],
        "exhaustive": False, "distribution": dist,
        "disagreements": dis[:50], "oracle_failures": sorted(fails, key=lambda f: len(json.dumps(f["input"], default=str)))[:50],
        "generated_hashes": {"Gen/Excludes.lean": _sha(os.path.join(common.LEAN, "CodeLimit", "Gen", "Excludes.lean"))},
    }


def _newly_excluded(c, back=False):
    tree = sr.tree_from_json(c["tree"])
    a, b = set(sr.spec_selected(tree, c["patterns"])), set(sr.spec_selected(tree, c["exclusions2"]["patterns"]))
    return bool(b - a) if back else bool(a - b)


def _sha(path):
    import hashlib
    try:
        return hashlib.sha256(open(path, "rb").read()).hexdigest()[:16]
    except OSError:
        return None


def search(ctx, hints):
    rnd = ctx.rng("search")
    cases = [h for h in hints if isinstance(h, dict) and "tree" in h]
    cases += [gen_case(rnd) for _ in range(ctx.pick(200, 1500))]
    fails = []
    for c in cases:
        real, _line, _ids = observe(c)
        bad = oracle(c, real)
        if bad:
            fails.append({"input": c, "observed": {"keys": [e[0] for e in real["entries"]], "analysed": real["analysed"],
                                                    "error": real["error"]}, "required": bad})
    fails.sort(key=lambda f: len(json.dumps(f["input"])))
    return fails[:20]


def replay(payload):
    c = payload["input"]
    if c.get("stream") == "gitignore-negation":
        import gitignore_stream
        c = dict(c, universe=c.get("universe") or [])
        f, counts = gitignore_stream.judge_negation_case(c)
        print("exclusion lines %s via %s" % (c["patterns"], [k for k, v in c["sources"].items() if v]))
        print("violated: %s" % (f["required"] if f else "nothing"))
        if f:
            print("observed: %s" % (f["observed"],))
        return f is None
    if "form" not in c:
        print("stream %s: re-run the check" % c.get("stream")); return False
    real, _line, _ids = observe(c)
    bad = oracle(c, real)
    print("root form %s, patterns %s via %s%s" % (c["form"], c["patterns"], c["sources"], "; environment: root = <tmp>/w/%s/root, files above the root: %s" % ("/".join(c["env"]["above"]), c["env"]["files"]) if c.get("env") else ""))
    print("scanned keys: %s" % [e[0] for e in real["entries"]])
    print("analysed:     %s" % real["analysed"])
    print("violated:     %s" % (bad or "nothing"))
    return not bad


def correspond(ctx):
    """the selection streams above PLUS histories of CLI entry calls (`codelimit.__main__.scan/check/report/findings` called as
    functions in one fresh interpreter per history; harness/entry_stream.py): the exclusion lines handed to PathSpec.from_lines, the files
    analysed, exit codes, what report/findings display and the process-level Configuration after every call vs Model/Entry.lean
    (Props/Entry.lean: which lines are in force for scan and for check, accumulation across calls, display iff the cached report
    carries the tool's version)"""
    import entry_stream
    res = _correspond_selection(ctx)
    er = entry_stream.correspond(ctx.rng("entry"), ctx.pick(100, 2000), common.DRIVER, repo=common.REPO)
    for d in er["disagreements"][:10]:
        res["disagreements"].append({"stream": "entry", "input": d.get("input", d.get("history", {k: v for k, v in d.items() if k not in ("model", "real", "impl")})),
                                     "model": str(d.get("model"))[:300], "impl": str(d.get("real", d.get("impl")))[:300]})
    c = er["counts"]
    if c.get("worker_errors") or c.get("model_errors"):
        res["disagreements"].append({"stream": "entry/errors", "input": {"worker_errors": c.get("worker_errors"), "model_errors": c.get("model_errors")},
                                     "model": "", "impl": ""})
    res["evaluations"] += c.get("histories", 0)
    res["distribution"] = dict(res.get("distribution", {}), entry={k: v for k, v in c.items() if not isinstance(v, dict)})
    res["rule"] += " PLUS histories of 1-3 entry calls (scan / check / report / findings with --exclude, .codelimit.yml, .gitignore, cwd = root / below / elsewhere) in fresh interpreters vs the entry model"
    return res
