"""C01 - exact function discovery, span and length on canonical programs.

Three-way correspondence on generated program texts: the real scan_file(lex(text)), the Lean
model `analyze` on the real lexer's raw token stream, and the expectation computed per token
from the generator's program tree (harness/gen/programs.py). The expectation is the direct
oracle of the property; model-vs-real is the tie of the theorems (Props/C01.lean: from a
canonical layout of headers and brace blocks to the measurements) to the code."""
import os
import sys

sys.path.insert(0, os.path.dirname(os.path.dirname(os.path.abspath(__file__))))
import common
import scan_real as sr
import scan_streams
import tree_stream
import pytree_stream
import mark_stream
from gen import programs
from props import C15

ID = "C01"
TRUSTED = [
    "correspondence harness (harness/props/C01.py, scan_real.py, scan_streams.py, file_front.py: files as bytes through Scanner.scan_path / check_file) and the canonical program generator with its per-token expectations (harness/gen/programs.py)",
    "translator/patterns.py (shipped header patterns -> Gen/Languages.lean)",
    "modelled, not verified: the Pygments lexers' token classes on the canonical fragment (validated on every generated program by the three-way comparison)",
]
ASSUMPTIONS = [
    "canonical fragment as delimited in DESIGN.md Appendix A (no call-shaped group inside a parameter list; a body's closing brace is not immediately followed by an opening brace; Python suites indented deeper than the header line; no one-line defs)",
    "function discovery (which token sequences are headers) is tied by correspondence and by C13-C15; the theorem covers layout -> measurements",
]
import regen_all
regen = regen_all.patterns_and_logic
REGRESS = [
    ("TypeScript", "function f(a: number) {\n  x = 1;\n}\n"),                                  # F5
    ("JavaScript", "function f() {\n  function g() {\n    y;\n  }\n  x;\n}\n"),              # F6
    ("C", "int f(struct s x = {1, 2}) {\n  return 1;\n}\n"),                                   # F7
    ("JavaScript", "function a() {\n  function b() {\n    function c() {\n      z;\n    }\n  }\n}\n"),   # F8
    ("Python", "def f():\n    x = 1\n    def g():\n        y = 2\n"),                          # F9
    ("Python", "class A:\n    async def f(self):\n        x = 1\n        return x\n"),         # F10
    ("Python", "def f():\n    t = '''a\n      b\n    '''\n    y = 2\n"),                        # multi-line string
    ("TypeScript", "function outer(a: number): number {\n  const v = a > 1 ? compute(a) : other;\n  if (v) {\n    x = 1;\n  }\n  return v;\n}\ninterface I {\n  foo(): string;\n  bar(x: number): void;\n}\nconst o = {\n  k: 1,\n};\n"),   # F24
]


KF3_WITNESSES = [
    ("TypeScript", "function w(c) {\n  const v = c ? f(x) : { a: 1 };\n  return v;\n}\n", "f"),
    ("TypeScript", "function w(c) {\n  switch (c) {\n    case q(1): {\n      x = 1;\n    }\n  }\n}\n", "q"),
]


def _kf3_unit(code, unit):
    """the reported unit starts at `name ( ... )` directly followed by ':' and its statement has a '?'
    or the keyword `case` before the name"""
    import re
    name, sl, sc = unit[0], unit[1], unit[2]
    lines = code.split("\n")
    if sl - 1 >= len(lines):
        return False
    off = sum(len(l) + 1 for l in lines[:sl - 1]) + sc - 1
    m = re.compile(r"(?:function\s+)?" + re.escape(name) + r"\s*\(").match(code, off)
    if not m:
        return False
    depth, i = 1, m.end()
    while i < len(code) and depth:
        depth += {"(": 1, ")": -1}.get(code[i], 0)
        i += 1
    rest = code[i:].lstrip()
    before = re.split(r"[;{}]", code[:off])[-1]
    return rest.startswith(":") and ("?" in before or re.search(r"\bcase\b", before) is not None)


def matches_known(k, failure):
    if k.get("id") != "KF3":
        return False
    inp = failure.get("input") or {}
    obs, req = failure.get("observed"), failure.get("required")
    if inp.get("language") != "TypeScript" or not isinstance(obs, list) or not isinstance(req, list):
        return False
    try:
        starts = {(r[0], r[1], r[2]) for r in req}
        extra = [o for o in obs if (o[0], o[1], o[2]) not in starts]
        missing = [r for r in req if (r[0], r[1], r[2]) not in {(o[0], o[1], o[2]) for o in obs}]
    except Exception:
        return False
    return bool(extra) and not missing and all(_kf3_unit(inp.get("code", ""), o) for o in extra)


def replay_known(k):
    if k.get("id") != "KF3":
        return False
    for (lang, code, name) in KF3_WITNESSES:
        d = sr.decode_scan(sr.real_scan(lang, code))
        if d and any(m[0] == name for m in d[0]):
            return True
    return False


MODEL_LINES = 1000      # bigger ladder programs: real = per-token expectation only (the model is super-linear)


def ladder(ctx):
    """size ladder beyond the sweep 1..75: ONE function of 10^2 .. 10^4 body statements, and files of 10^2 .. 10^4 lines
    made of MANY functions / classes / global code (thorough: every half decade)"""
    if getattr(ctx, "_c01ladder", None) is None:
        ctx._c01ladder = scan_streams.ladder_programs(ctx, ctx.pick([100, 1000, 10 ** 4], scan_streams.rungs(100, 10 ** 4)),
                                                      ctx.pick([100, 1000, 10 ** 4], scan_streams.rungs(100, 31623)), "c01ladder",
                                                      many_python=ctx.pick([100, 1000, 3162], scan_streams.rungs(100, 10 ** 4)))
    return ctx._c01ladder


def _ladder_work(desc):
    """real analysis of a big ladder program against the expectation of its generator -> None | (observed, required)"""
    o, text = scan_streams.ladder_program(desc)
    exp = o.expected(programs.NESTING[desc["language"]])
    r = sr.real_scan(desc["language"], text)
    d = sr.decode_scan(r)
    got = d[0] if d else r
    if got == exp:
        return len(exp), None
    if d is None:
        return len(exp), (r[:200], "%d functions" % len(exp))
    gs, es = set(got), set(exp)
    return len(exp), ("%d functions reported; not expected: %s" % (len(got), [x for x in got if x not in es][:3]),
                      "%d functions; missing: %s" % (len(exp), [x for x in exp if x not in gs][:3]))


def big_ladder_jobs(ctx):
    return sorted((d for (_, _, _, d) in ladder(ctx) if d["lines"] > MODEL_LINES), key=lambda d: -d["lines"] * (3 if d["language"] == "Python" else 1))


def ladder_failures(ctx, dist=None, started=None):
    jobs = big_ladder_jobs(ctx)
    fails = []
    for d, (n, bad) in zip(jobs, (started or scan_streams.Heavy(_ladder_work, jobs, 10)).results()):
        if dist is not None:
            dist["functions"] += n
            dist["ladder"]["%s %d" % (d["kind"], d["lines"])] = dist["ladder"].get("%s %d" % (d["kind"], d["lines"]), 0) + 1
        if bad:
            fails.append({"input": dict(d), "observed": bad[0], "required": bad[1]})
    fails.sort(key=lambda f: f["input"]["lines"])
    return len(jobs), fails[:5]


# ---- observation through files: Scanner.scan_path / commands.check.check_file on BYTES ---------------------------------

def file_cases(ctx):
    """canonical programs (function names drawn with replacement from words that are keywords in ANOTHER supported
    language; Python backslash continuations indented anyhow; C / C++ multi-line macros) + files of several long
    functions, each as a file: LF / CR LF / CR / mixed line ends, with and without a final newline, a share behind a
    UTF-8 signature, named by any file name Pygments maps to the language -> [case dict]"""
    import file_front as ff
    rnd = ctx.rng("c01files")
    out = []
    for lang in sr.LANGS:
        progs = [scan_streams.named_program(lang, rnd, extras=True) for _ in range(ctx.pick(10, 60))]
        for n in ctx.pick([31, 61], [31, 35, 61, 70]):
            progs.append(scan_streams.named_program(lang, rnd, sweep=n, count=rnd.randint(2, 4), name_share=0.8))
        for i, o in enumerate(progs):
            for nl in ff.NEWLINES:
                if ctx.pick(nl != "lf" and rnd.random() < 0.25, False):
                    continue
                final = rnd.random() < 0.8
                bom = rnd.random() < 0.15
                text = o.text(final)
                if bom and lang in ("C", "C++") and text.startswith("#"):
                    # REPORTED DEFECT of the code under check, kept out of this stream until it is decided upon: a UTF-8
                    # signature is not stripped (Scanner._read_file), so a preprocessor directive on the FIRST line is
                    # lexed as code; with a multi-line function-like macro there (`#define G(field) \` / `static int
                    # get_##field(struct s *p) { \` ...) scan_path reports a function `field` (H1 report, round 5)
                    bom = False
                exp = o.expected(programs.NESTING[lang])
                if rnd.random() < 0.2:
                    # contents NOT in Unicode Normalization Form C: a share of the program's identifiers (function names,
                    # parameters, variables; every occurrence alike) respelled with decomposed letters / singletons the
                    # language's lexer reads as one identifier; the expectation moves to the new columns and names
                    text, exp, respelled = scan_streams.denormalise(lang, text, rnd, rnd.choice([0.3, 1.0]), exp, only=_plain_words(o, text))
                if bom:
                    exp = scan_streams.with_bom(text, exp)[1]
                out.append({"language": lang, "text": text, "expected": exp, "newline": nl, "bom": bom,
                            "name": ff.pick_name(lang, rnd, "u%d" % len(out), sr.EXT[lang]),
                            "data": ff.to_bytes(text, nl, bom, rnd)})
    return out


def _plain_words(o, text):
    """the words of a generated program that are free to be respelled: its function names and every word that is in no
    supported lexer's token tables (parameters, variables, generated names) - keywords, types and builtin names stay"""
    import re
    tables = set()
    for l in sr.LANGS:
        tables |= scan_streams._lexer_words(type(sr.lexer_for(l)))
    return {f.name for f in o.funcs if f.name} | {w for w in re.findall(r"[A-Za-z_][A-Za-z0-9_]*", text) if w not in tables and len(w) > 1}


def file_failures(cases, workers=8):
    """-> (evaluations, oracle failures); the cases are dealt out to `workers` trees scanned side by side"""
    cases = list(cases)
    chunks = [cases[i::workers] for i in range(workers) if cases[i::workers]]
    evals, fails = 0, []
    for (n, fs) in scan_streams.heavy_map(_file_chunk, chunks, workers):
        evals += n
        fails += fs
    fails.sort(key=lambda f: len(f["input"]["code"]))
    return evals, fails[:10]


def _file_chunk(cases):
    """every case file in its own directory of ONE tree, one Scanner.scan_path over it; check_file on the files that hold
    functions of more than 30 lines"""
    import file_front as ff
    fails = []
    evals = 0
    with ff.Tree("c01files_") as tree:
        for i, c in enumerate(cases):
            c["rel"] = os.path.join("d%04d" % i, c["name"])
            c["path"] = tree.write(c["rel"], c["data"])
        cb, err = tree.scan()
        got = ff.entries(cb) if cb is not None else {}
        for c in cases:
            evals += 1
            inp = {"stream": "file", "language": c["language"], "name": c["name"], "newline": c["newline"], "bom": c["bom"],
                   "code": c["text"], "bytes_latin1": c["data"].decode("latin-1")}
            exp = [tuple(x) for x in c["expected"]]
            if err:
                fails.append({"input": inp, "observed": "scan_path: " + err, "required": exp}); break
            e = got.get(c["rel"])
            if e is None or e[0] != c["language"] or e[1] != exp:
                direct = sr.decode_scan(sr.real_scan(c["language"], (scan_streams.BOM if c["bom"] else "") + c["text"]))
                fails.append({"input": inp, "observed": list(e[1]) if e else "no entry for the file in scan_path(root).files", "required": exp,
                              "note": "lex + scan_file on the text itself gives %s" % ("the required result" if direct and direct[0] == exp else "something else too")})
                continue
            risky = sorted(x for x in exp if x[5] > 30)
            if risky:
                evals += 1
                risks, cerr = ff.check_file_risks(c["path"])
                if cerr or sorted(risks) != risky:
                    fails.append({"input": dict(inp, via="check_file"), "observed": cerr or risks, "required": risky})
    fails.sort(key=lambda f: len(f["input"]["code"]))
    return evals, fails[:10]


# ---- column ladder ---------------------------------------------------------------------------------------------------------

def wide_jobs(ctx):
    if getattr(ctx, "_c01wide", None) is None:
        ctx._c01wide = scan_streams.wide_descs(ctx, scan_streams.column_rungs(ctx), ctx.pick(1, 3), "c01wide")
    return ctx._c01wide


def _wide_work(desc):
    w = scan_streams.wide_program(desc)
    if w is None:
        return 0, None
    text, exp, ln = w
    r = sr.real_scan(desc["language"], text)
    d = sr.decode_scan(r)
    got = d[0] if d else r
    return len(exp), (None if got == exp else (got if d is None else [x for x in got if x not in exp][:3], [x for x in exp if d is None or x not in got][:3]))


def wide_failures(ctx, dist=None):
    jobs = wide_jobs(ctx)
    fails = []
    for d, (n, bad) in zip(jobs, scan_streams.heavy_map(_wide_work, jobs)):
        if dist is not None:
            dist["functions"] += n
            dist.setdefault("column_ladder", {})[str(d["chars"])] = dist.setdefault("column_ladder", {}).get(str(d["chars"]), 0) + 1
        if bad:
            fails.append({"input": dict(d), "observed": bad[0], "required": bad[1]})
    fails.sort(key=lambda f: f["input"]["chars"])
    for f in fails[:2]:
        d = f["input"]
        small = scan_streams.bisect_size(lambda k, d=d: bool(_wide_work(dict(d, chars=k))[1]), 5, d["chars"])
        bad = _wide_work(dict(d, chars=small))[1]
        if bad:
            f.update({"input": dict(d, chars=small, found_at_chars=d["chars"]), "observed": bad[0], "required": bad[1]})
    return len(jobs), fails[:4]


def _extra_job(tier):
    """the file stream and the column ladder, run in a worker process next to the three-way comparison"""
    import main
    ctx = main.Ctx(ID, tier)
    dist = {"functions": 0}
    fcases = file_cases(ctx)
    nfiles, ffails = file_failures(fcases)
    dist["files"] = {"files": len(fcases), "evaluations": nfiles, "line_ends": {nl: sum(1 for c in fcases if c["newline"] == nl) for nl in ("lf", "crlf", "cr", "mixed")},
                     "byte_order_mark": sum(1 for c in fcases if c["bom"]), "contents_not_in_nfc": sum(1 for c in fcases if __import__("unicodedata").normalize("NFC", c["text"]) != c["text"]), "backslash_continuations": sum(1 for c in fcases if "\\\n" in c["text"]),
                     "duplicate_function_names": sum(1 for c in fcases if len({x[0] for x in c["expected"]}) < len(c["expected"])),
                     "names_other_than_plain_extension": sum(1 for c in fcases if not c["name"].endswith("." + sr.EXT[c["language"]]))}
    nwide, wfails = wide_failures(ctx, dist)
    return nfiles + nwide, ffails + wfails, dist


def gen_cases(ctx):
    cases = []
    rnd = ctx.rng("c01bom")
    for (lang, text, o) in scan_streams.canonical(ctx, ctx.pick(300, 5000), "c01"):
        cases.append((lang, text, o.expected(programs.NESTING[lang])))
        if rnd.random() < 0.08:
            # configuration variant: the file was saved with a UTF-8 signature
            cases.append((lang,) + scan_streams.with_bom(text, o.expected(programs.NESTING[lang])))
    for (lang, text, o) in scan_streams.sweep(ctx, 75):
        cases.append((lang, text, o.expected(programs.NESTING[lang])))
    for (lang, text, o, d) in ladder(ctx):
        if d["lines"] <= MODEL_LINES:
            cases.append((lang, text, o.expected(programs.NESTING[lang])))
    # function names drawn WITH replacement from words that are keywords in another supported language (duplicates,
    # overloads), Python backslash continuations indented anyhow, C / C++ multi-line macros - three-way like the rest
    rnd = ctx.rng("c01named")
    for lang in sr.LANGS:
        for _ in range(ctx.pick(30, 500)):
            o = scan_streams.named_program(lang, rnd, extras=True)
            cases.append((lang, o.text(rnd.random() < 0.8), o.expected(programs.NESTING[lang])))
    return cases


def correspond(ctx):
    extra = scan_streams.Heavy(_extra_job, [ctx.tier], 1)
    heavy = scan_streams.Heavy(_ladder_work, big_ladder_jobs(ctx), 10)      # runs while the smaller programs go through the model
    cases = gen_cases(ctx)
    reg = [(l, c, None) for (l, c) in REGRESS]
    allc = reg + cases
    real = sr.real_scan_many([(l, c) for (l, c, _) in allc])
    model = sr.model_scan_many([sr.scan_request(l, c) for (l, c, _) in allc])
    dis, fails = [], []
    nontrivial = set()
    dist = {"functions": 0, "nested": 0, "max_len": 0, "per_language": {}, "ladder": {}}
    for (_, _, _, d) in ladder(ctx):
        if d["lines"] <= MODEL_LINES:
            dist["ladder"]["%s %d" % (d["kind"], d["lines"])] = dist["ladder"].get("%s %d" % (d["kind"], d["lines"]), 0) + 1
    for (lang, code, exp), r, m in zip(allc, real, model):
        inp = {"language": lang, "code": code}
        if r != m:
            dis.append({"stream": "scan/%s" % lang, "input": inp, "model": m[:400], "impl": r[:400]})
        d = sr.decode_scan(r)
        if exp is not None:
            got = d[0] if d else r
            if got != exp:
                fails.append({"input": inp, "observed": got, "required": exp})
            if exp:
                nontrivial.add((lang, code))
            dist["functions"] += len(exp)
            dist["max_len"] = max([dist["max_len"]] + [e[5] for e in exp])
            dist["per_language"][lang] = dist["per_language"].get(lang, 0) + 1
        elif d is None:
            fails.append({"input": inp, "observed": r, "required": "no exception"})
    for (lang, code, want) in regress_expect():
        d = sr.decode_scan(sr.real_scan(lang, code))
        got = [(n, ln) for (n, _, _, _, _, ln) in d[0]] if d else None
        if got != want:
            fails.append({"input": {"language": lang, "code": code}, "observed": got, "required": want})
    nladder, lfails = ladder_failures(ctx, dist, heavy)
    fails += lfails
    nextra, efails, edist = extra.results()[0]
    fails += efails
    dist["functions"] += edist.pop("functions")
    dist.update(edist)
    nladder += nextra
    dist["byte_order_mark"] = sum(1 for (l, c, e) in cases if c.startswith(scan_streams.BOM))
    dist["duplicate_function_names"] = sum(1 for (l, c, e) in cases if e and len({x[0] for x in e}) < len(e))
    dist["python_backslash_continuations"] = sum(1 for (l, c, e) in cases if l == "Python" and "\\\n" in c)
    dist["multi_line_macros"] = sum(1 for (l, c, e) in cases if l in ("C", "C++") and "\\\n" in c)
    dist["constructors_destructors"] = sum(1 for (l, c, e) in cases if e and l in ("C++", "Java", "C#") and len({x[0] for x in e}) < len(e) or any(x[0].startswith(("K", "L")) for x in (e or [])))
    import re as _re
    dist["cpp_constructor_first_after_access_specifier"] = sum(1 for (l, c, e) in cases if l == "C++" and _re.search(r":[ \t]*(//[^\n]*|/\*[^\n]*\*/)?[ \t]*\n([ \t]*(//[^\n]*|/\*[^\n]*\*/)?[ \t]*\n)*[ \t]*(explicit |inline )?[KL]\d+\(", c))
    # program forests of the Lean type `Prog PTok`: the expectation is the TREE report computed by the
    # model driver (`Props/C01tree.lean`, `C01text.lean`: for every forest satisfying the decidable
    # hypotheses that the driver evaluates, text -> lex -> scan_file gives exactly that report)
    tr = tree_stream.correspond(ctx.rng("trees"), ctx.pick(600, 6000), sweep_upto=ctx.pick(0, 40))
    for key in ("lexer_mismatch", "generator_bug", "model_errors"):
        for x in tr[key][:10]:
            dis.append({"stream": "tree/%s" % key, "input": x.get("input"), "model": str(x.get("forest") or x.get("why") or x.get("model"))[:300],
                        "impl": str(x.get("real", ""))[:300]})
    fails += tr["oracle_failures"][:20]
    fails += tree_stream.regressions()
    dist["trees"] = dict(tr["distribution"], **tr["counts"])
    # Python indentation trees (`Props/C01pyfull.lean`, `C01pytext.lean`: unconditional for well-formed trees;
    # 40 % of the files carry comments and go through the driver op `pytoks`)
    pt = pytree_stream.correspond(ctx.rng("pytrees"), ctx.pick(300, 3000), sweep_upto=ctx.pick(0, 60))
    for key in ("lexer_mismatch", "generator_bug", "model_errors"):
        for x in pt.get(key, [])[:10]:
            dis.append({"stream": "pytree/%s" % key, "input": x.get("input"), "model": str(x.get("forest") or x.get("why") or x.get("model"))[:300],
                        "impl": str(x.get("real", ""))[:300]})
    fails += pt["oracle_failures"][:20]
    dist["pytrees"] = dict(pt["distribution"], **pt.get("counts", {}))
    tr["evaluations"] += pt["evaluations"]; tr["distinct_nontrivial"] += pt["distinct_nontrivial"]
    tr["rule"] += " PLUS " + pt["rule"]
    # forests decorated with comments and suppression markers, incl. assigned arrow functions (`Props/C01marks.lean`,
    # `C01arrow.lean`, `C01marktext.lean`: driver op `marktree` returns the MARKED report read off the tree)
    mk = mark_stream.correspond(ctx.rng("marktrees"), ctx.pick(300, 3000))
    for key in ("lexer_mismatch", "generator_bug", "model_errors"):
        for x in mk.get(key, [])[:10]:
            dis.append({"stream": "marktree/%s" % key, "input": x.get("input"), "model": str(x.get("forest") or x.get("why") or x.get("model"))[:300],
                        "impl": str(x.get("real", ""))[:300]})
    fails += mk["oracle_failures"][:20]
    dist["marktrees"] = dict(mk["distribution"], **mk.get("counts", {}))
    tr["evaluations"] += mk["evaluations"]; tr["distinct_nontrivial"] += mk["distinct_nontrivial"]
    tr["rule"] += " PLUS " + mk["rule"]
    nontrivial |= {("tree",) + tuple(x) for x in []}
    return {
        "evaluations": len(allc) + nladder + tr["evaluations"], "distinct_nontrivial": len(nontrivial) + nladder + tr["distinct_nontrivial"],
        "rule": "NON-NFC FILE CONTENTS: a fifth of the program files has a share of its identifiers (function names, parameters, variables; every occurrence alike) respelled with characters that are not in Unicode Normalization Form C (combining marks behind letters they compose with, ANGSTROM / OHM / KELVIN signs) where the language's lexer reads the spelling as one identifier, the expectation moved to the new columns and names; canonical-fragment programs from the per-language grammar (a share with function names drawn with replacement from words that are keywords in another supported language, Python backslash continuations whose next line is indented anyhow, C / C++ multi-line macros; functions, methods, classes, global code, nesting, control blocks, callbacks, initialisers, comments and blank lines anywhere, string literals with delimiters, multi-line headers, both brace styles, brace groups in parameters, async, decorators, docstrings; C++ / Java / C#: constructors and destructors of the enclosing class, C++ access specifiers `public:` ... in front of any member; 8 % of the programs also behind a byte order mark) + exhaustive body-length sweep 1..75 per language + size ladder: one function of 10^2, 10^3, 10^4 body statements and files of 10^2, 10^3, 10^4 lines of many functions (above 1000 lines: real = expectation only) + FILES (real = expectation only): canonical programs whose function names are drawn with replacement from words that are keywords in another supported language (duplicates, overloads), with Python backslash continuations indented anyhow and C / C++ multi-line macros, and files of 2-4 long functions, written with LF / CR LF / CR / mixed line ends, with and without final newline / UTF-8 signature, under any file name Pygments maps to the language, observed through Scanner.scan_path(root).files and (functions over 30 lines) commands.check.check_file + column ladder: one code line of a brace-language program pushed right by 10^2 .. 10^5 characters (block comment or blanks; plus n-1, n, n+1, 2n for integers new in the source), real = expectation; three-way: real = model = per-token expectation; non-trivial = distinct programs with at least one expected function. PLUS " + tr["rule"],
        "samples": [{"language": l, "code": c[:200], "expected": e} for (l, c, e) in cases[:2]] + tr["samples"][:1],
        "exhaustive": False, "distribution": dist,
        "disagreements": dis[:50], "oracle_failures": fails[:50],
        "generated_hashes": {"Gen/Languages.lean": C15._sha(os.path.join(common.LEAN, "CodeLimit", "Gen", "Languages.lean"))},
    }


def regress_expect():
    return [
        (REGRESS[0][0], REGRESS[0][1], [("f", 3)]),
        (REGRESS[1][0], REGRESS[1][1], [("f", 3), ("g", 3)]),
        (REGRESS[2][0], REGRESS[2][1], [("f", 3)]),
        (REGRESS[3][0], REGRESS[3][1], [("a", 2), ("b", 2), ("c", 3)]),
        (REGRESS[4][0], REGRESS[4][1], [("f", 2), ("g", 2)]),
        (REGRESS[5][0], REGRESS[5][1], [("f", 3)]),
        (REGRESS[6][0], REGRESS[6][1], [("f", 5)]),
        (REGRESS[7][0], REGRESS[7][1], [("outer", 7)]),
    ]


def search(ctx, hints):
    fails = []
    cases = []
    for (lang, text, o) in scan_streams.canonical(ctx, 400, "c01search"):
        cases.append((lang, text, o.expected(programs.NESTING[lang])))
    for (lang, text, o) in scan_streams.sweep(ctx, 75):
        cases.append((lang, text, o.expected(programs.NESTING[lang])))
    real = sr.real_scan_many([(l, c) for (l, c, _) in cases])
    for (lang, code, exp), r in zip(cases, real):
        d = sr.decode_scan(r)
        got = d[0] if d else r
        if got != exp:
            fails.append({"input": {"language": lang, "code": code}, "observed": got, "required": exp})
    for (lang, code, want) in regress_expect():
        d = sr.decode_scan(sr.real_scan(lang, code))
        got = [(n, ln) for (n, _, _, _, _, ln) in d[0]] if d else None
        if got != want:
            fails.append({"input": {"language": lang, "code": code}, "observed": got, "required": want})
    tr = tree_stream.correspond(ctx.rng("treesearch"), 900, sweep_upto=20)
    fails += tr["oracle_failures"] + tree_stream.regressions()
    fails += pytree_stream.correspond(ctx.rng("pytreesearch"), 500, sweep_upto=20)["oracle_failures"]
    fails.sort(key=lambda f: len(f["input"]["code"]))
    return fails[:10] + ladder_failures(ctx)[1][:2] + file_failures(file_cases(ctx))[1][:3] + wide_failures(ctx)[1][:2]


def replay(payload):
    inp = payload["input"]
    if inp.get("stream") == "wide":
        n, bad = _wide_work(inp)
        print("%s: generated program with one line pushed right by %d characters (%s) -> %s" % (inp["language"], inp["chars"], inp.get("kind"), bad or "as expected"))
        return not bad
    if inp.get("stream") == "file":
        import file_front as ff
        with ff.Tree("c01r_") as tree:
            p = tree.write(os.path.join("d", inp["name"]), inp["bytes_latin1"].encode("latin-1"))
            if inp.get("via") == "check_file":
                got, err = ff.check_file_risks(p)
                got = sorted(got) if got is not None else err
            else:
                cb, err = tree.scan()
                e = ff.entries(cb).get(os.path.join("d", inp["name"])) if cb is not None else None
                got = e[1] if e else (err or "no entry")
        print("%s file %r (%s line ends)\n%s\n-> %s\nrequired %s" % (inp["language"], inp["name"], inp["newline"], inp["code"], got, payload.get("required")))
        return json_eq(got, payload.get("required"))
    if inp.get("stream") == "ladder":
        n, bad = _ladder_work(inp)
        print("%s: generated program (%s, >= %d lines, %d functions expected) -> %s" % (inp["language"], inp["kind"], inp["lines"], n, bad or "as expected"))
        return not bad
    r = sr.real_scan(inp["language"], inp["code"])
    d = sr.decode_scan(r)
    got = d[0] if d else r
    req = payload.get("required")
    if req and isinstance(req[0], (list, tuple)) and len(req[0]) == 2:
        got = [[n, ln] for (n, _, _, _, _, ln) in d[0]] if d else None
    print("%s\n%s\n-> %s\nrequired %s" % (inp["language"], inp["code"], got, req))
    return json_eq(got, req)


def json_eq(a, b):
    import json
    return json.dumps(a, default=list) == json.dumps(b, default=list)
