"""Shared helper for C11 / C12: real directory trees under a temp dir, the real `scan_path` /
`check_command` on them, the oracle bits for the model (`Model/Select.lean`), and a direct
transcription of the property text (which files qualify).

Everything that imports `codelimit` does so lazily, after `import common` (VERIF_REPO)."""
import contextlib
import hashlib
import io
import os
import re
import shutil
import tempfile
import time

import common  # noqa: F401  (sets sys.path for codelimit)

# ------------------------------------------------------------------ name pools

HIDDEN_DIRS = [".git", ".venv", ".cache"]
HIDDEN_FILES = [".hidden.py", ".env.js"]
BUILTIN_DIRS = ["tests", "test", "build", "dist", "node_modules", "venv", "_build", "buck-out"]
PLAIN_DIRS = ["src", "pkg", "a", "lib", "[id]"]        # `[id]`: Next.js-style route folder; rich markup would swallow it (seeded change C12-4)
SUPPORTED_EXT = [".py", ".js", ".ts", ".c", ".cpp", ".h", ".java", ".cs"]
UNSUPPORTED_EXT = [".txt", ".md", ".rs"]
STEMS = ["main", "util", "x", "mod", "test", "build", "b", "[slug]"]
NOEXT = ["Makefile", "README", "LICENSE", "BUILD", "WORKSPACE", "SConstruct", "Dockerfile", "Rakefile"]
# extension-less names Pygments maps to a supported language by their full name (seeded change C11-3:
# a per-extension lexer cache makes the first extension-less name decide for all others)
NOEXT_LANG = {"BUILD": "Python", "WORKSPACE": "Python", "SConstruct": "Python"}

# Appendix A: the 26 built-in patterns of the pinned commit (the Lean pinning theorem
# C11.default_excludes_pinned states the same list about the regenerated constant)
PINNED_BUILTIN = [
    ".bzr", ".direnv", ".eggs", ".git", ".git-rewrite", ".hg", ".ipynb_checkpoints", ".mypy_cache", ".nox",
    ".pants.d", ".pytest_cache", ".pytype", ".ruff_cache", ".svn", ".tox", ".venv", ".vscode", "__pypackages__",
    "_build", "buck-out", "build", "dist", "node_modules", "venv", "test", "tests",
]

# the property's "its name maps to a supported language", read off the pinned tree
EXT_LANG = {".py": "Python", ".js": "JavaScript", ".ts": "TypeScript", ".c": "C", ".cpp": "C++", ".h": "C",
            ".java": "Java", ".cs": "C#"}


# the languages Code Limit supports at the pinned commit (the property's "supported language")
PINNED_LANGS = ["C", "C#", "C++", "Java", "JavaScript", "Python", "TypeScript"]
_PYG = {}


def expected_language(name):
    """the property's "its name maps to a supported language": the pinned table for the classic pool; for every other
    name the lexer Pygments (third party, not under check) picks for the bare file name, if it is one of PINNED_LANGS"""
    if name in NOEXT_LANG:
        return NOEXT_LANG[name]
    if re.fullmatch(r"[A-Za-z0-9_\[\]]+\.[a-z]+", name):
        for ext, lang in EXT_LANG.items():
            if name.endswith(ext) and len(name) > len(ext):
                return lang
    if name not in _PYG:
        from pygments.lexers import get_lexer_for_filename
        from pygments.util import ClassNotFound
        try:
            n = get_lexer_for_filename(name).name
        except ClassNotFound:
            n = None
        _PYG[name] = n if n in PINNED_LANGS else None
    return _PYG[name]


# ------------------------------------------------------------------ name pools derived from Pygments / Unicode (harness/gen/names.py)

_POOLS = {}


def name_pools():
    """{"lang": [(file name, language)] every name / extension Pygments maps to a supported language (`x.h`, `x.hh`,
    `x.mjs`, `x.pyi`, `BUILD.bazel`, `SConscript`, ...), "siblings": {name: names with the same suffix that are NOT a
    supported language}, "twins": [(NFC name, NFD name)], "awkward": [...], "twin_dirs": [(NFC, NFD)]}"""
    if not _POOLS:
        import unicodedata
        from gen import names as gn
        lang = []
        for fn, lname, _others in gn.language_file_names("unit"):
            if expected_language(fn) == lname:
                lang.append((fn, lname))
        _POOLS["lang"] = lang
        _POOLS["siblings"] = {fn: gn.sibling_names(fn) for fn, _ in lang}
        tw = []
        for ext in (".py", ".js", ".c", ".h", ".cpp", ".java", ".ts"):
            tw += gn.unicode_twins(ext)
        _POOLS["twins"] = tw
        aw = []
        for ext in (".py", ".js", ".c"):
            aw += [n for n in gn.awkward_names(ext) if "/" not in n and "\x00" not in n]
        _POOLS["awkward"] = aw
        _POOLS["twin_dirs"] = [(unicodedata.normalize("NFC", d), unicodedata.normalize("NFD", d)) for d in ("caf\u00e9", "m\u00fcll", "\uac00\uac01")]
    return _POOLS


def pool_stem(rnd, fn):
    """`unit.hh` -> `<stem of the classic pool>.hh`; whole-name patterns (BUILD, SConscript) stay as they are"""
    return rnd.choice(STEMS[:6]) + fn[4:] if fn.startswith("unit.") else fn


# ------------------------------------------------------------------ file contents

def py_function(name, n, marked=False):
    return "def %s(a):%s\n%s" % (name, "  # nocl" if marked else "", "".join("    a = a + %d\n" % i for i in range(n - 1)))


def brace_function(head, n, marked=False):
    return "%s {%s\n%s}\n" % (head, " // nocl" if marked else "", "".join("  a = a + %d;\n" % i for i in range(n - 2)))


def source_for(ext, lengths, rnd=None):
    """a small source file with one function per requested length (exact line counts); `ext` is an extension of the
    classic pool or a whole file name (the language is then the one the name maps to)"""
    lang = EXT_LANG.get(ext) or expected_language(ext if not ext.startswith(".") else "x" + ext)
    parts = []
    for i, n in enumerate(lengths):
        n = max(n, 3)
        mk = (i + n) % 4 == 1      # some functions carry the suppression marker: scan omits them, so must check
        if lang == "Python":
            parts.append(py_function("f%d" % i, n, mk))
        elif lang in ("JavaScript", "TypeScript"):
            parts.append(brace_function("function f%d(a)" % i, n, mk))
        elif lang in ("C", "C++"):
            parts.append(brace_function("int f%d(int a)" % i, n, mk))
        elif lang in ("Java", "C#"):
            parts.append("class K%d {\n%s}\n" % (i, brace_function("  int f%d(int a)" % i, n, mk)))
        else:
            parts.append("text %d\n" % i)
    return "\n".join(parts).encode("utf-8")


LATIN1 = b"# caf\xe9 na\xefve\ndef g(a):\n    return a\n"                 # not valid UTF-8
MALFORMED = b"def (:\n  }}} {{ ((\nclass\n\tfunction ( {\n'''unterminated\n"


LINE_BOUNDARIES = [15, 16, 29, 30, 31, 32, 59, 60, 61, 62]
_LINE_RUNGS = None


def line_rungs():
    """line counts for files that consist of ONE function: the thresholds' neighbours plus n-1, n, n+1, 2n for every
    integer literal of the current source tree (new ones always, pinned ones up to 200)"""
    global _LINE_RUNGS
    if _LINE_RUNGS is None:
        try:
            from gen import srcdict
            _LINE_RUNGS = sorted(set(LINE_BOUNDARIES) | set(srcdict.rungs(3, 200)) | set(srcdict.novel_rungs(3, 5000)))
        except Exception:  # noqa: BLE001
            _LINE_RUNGS = list(LINE_BOUNDARIES)
    return _LINE_RUNGS


def whole_file_function(ext, n, ending):
    """a file that is one function of exactly n physical lines, code on every line, nothing before or after it;
    `ending`: what follows the last line ("" = no final newline, "\n", "\n\n", CR LF line ends throughout)"""
    lang = EXT_LANG.get(ext) or expected_language(ext if not ext.startswith(".") else "x" + ext)
    if lang == "Python":
        text = py_function("whole", n)
    elif lang in ("JavaScript", "TypeScript"):
        text = brace_function("function whole(a)", n)
    elif lang in ("C", "C++"):
        text = brace_function("int whole(int a)", n)
    else:
        return source_for(ext, [n])
    text = text[:-1]
    if ending == "crlf":
        return text.replace("\n", "\r\n").encode()
    return (text + ending).encode()


def gen_content(rnd, name):
    ext = os.path.splitext(name)[1]
    r = rnd.random()
    if r >= 0.88:
        # line-count boundaries x final-newline variants
        n = rnd.choice(LINE_BOUNDARIES) if rnd.random() < 0.6 else rnd.choice(line_rungs())
        return whole_file_function(ext if ext in EXT_LANG else name, n, rnd.choice(["", "", "\n", "\n\n", "crlf"]))
    if r < 0.06:
        return LATIN1
    if r < 0.12:
        return MALFORMED
    if r < 0.17:
        return b""
    k = rnd.choice([0, 1, 1, 2, 3])
    lengths = [rnd.choice([3, 5, 12, 29, 30, 31, 32, 45, 60, 61, 62, 75]) for _ in range(k)]
    return source_for(ext if ext in EXT_LANG else name, lengths)


# ------------------------------------------------------------------ trees  ("D", name, [children]) | ("F", name, bytes)

def gen_file_name(rnd):
    r = rnd.random()
    if r < 0.50:
        return rnd.choice(STEMS) + rnd.choice(SUPPORTED_EXT)
    if r < 0.62:
        # every extension / whole file name Pygments maps to a supported language (`*.h` next to `*.hh`, `*.mjs`,
        # `*.pyi`, `BUILD.bazel`, `SConscript`, ...): file-name-based language choice
        return pool_stem(rnd, rnd.choice(name_pools()["lang"])[0])
    if r < 0.67:
        return rnd.choice(rnd.choice(name_pools()["twins"]))          # one spelling (NFC or NFD) of a decomposable name
    if r < 0.70:
        return rnd.choice(name_pools()["awkward"])
    if r < 0.80:
        return rnd.choice(STEMS) + rnd.choice(UNSUPPORTED_EXT)
    if r < 0.93:
        return rnd.choice(NOEXT + ["AUTHORS", "NOTICE", "CHANGES", "BUCK", "SConscript", "BUILD.bazel", "defs.bazel"])
    return rnd.choice(HIDDEN_FILES)


def gen_dir_name(rnd):
    r = rnd.random()
    if r < 0.44:
        return rnd.choice(PLAIN_DIRS)
    if r < 0.5:
        return rnd.choice(rnd.choice(name_pools()["twin_dirs"]))
    if r < 0.8:
        return rnd.choice(BUILTIN_DIRS)
    return rnd.choice(HIDDEN_DIRS)


def gen_nested_gitignore(rnd, children):
    """the text of a `.gitignore` placed in a SUB-directory: 1-3 lines drawn from the names below that directory
    (bare file name, `*.ext`, `*suffix`, `sub/`, `/name`, rarely a negation), so that they would bite if they were
    honoured. C11 / C12 name the ROOT .gitignore only; whatever scan does with a nested one, check must do too."""
    files = [c for c, _ in all_files(("D", "", children)) if not spec_hidden(c)]
    if not files:
        return None
    lines = []
    for _ in range(rnd.choice([1, 1, 2, 3])):
        comps = rnd.choice(files)
        r = rnd.random()
        if r < 0.35:
            ext = os.path.splitext(comps[-1])[1]
            lines.append("*" + ext if ext else comps[-1])
        elif r < 0.6:
            lines.append(comps[-1])
        elif r < 0.75 and len(comps) > 1:
            lines.append(comps[0] + "/")
        elif r < 0.9:
            lines.append("/" + comps[0])
        else:
            lines.append("!" + comps[-1])
    lines = [l for l in lines if not any(ch in l[1:] for ch in "[]*?!#\\\t\"") or l.startswith("*.")]
    lines = [l for l in lines if l.strip() == l and l]
    return ("\n".join(lines) + "\n").encode("utf-8") if lines else None


# interpretation decision (DESIGN.md Appendix A): streams that compare PRINTED paths (check's listing goes through rich, which
# expands TAB for the terminal) do not use names with control characters (< U+0020); exact comparisons (scan keys) keep them
DROPPED = {"names_with_control_characters": 0}
LINE_BREAKERS = "\x0b\x0c\x1c\x1d\x1e\x85\u2028\u2029\r"      # where str.splitlines() splits besides LF


def gen_children(rnd, depth, max_depth, printed_paths=False):
    names = set()
    out = []
    nf = rnd.choice([0, 1, 2, 2, 3, 4])
    for _ in range(nf):
        n = gen_file_name(rnd)
        if printed_paths and any(ord(ch) < 0x20 for ch in n):
            DROPPED["names_with_control_characters"] += 1
            continue
        if n in names:
            continue
        names.add(n)
        out.append(("F", n, gen_content(rnd, n)))
        r = rnd.random()
        if r < 0.5:
            # companions that share the decision a per-suffix / per-spelling shortcut would take: a name with the same
            # suffix that is NOT a supported language (AUTHORS next to BUILD), the other spelling of a twin
            comp = None
            for a, b in name_pools()["twins"]:
                if n in (a, b):
                    comp = b if n == a else a
            if comp is None and expected_language(n) is not None and not os.path.splitext(n)[1]:
                sib = [x for x in name_pools()["siblings"].get(n, [])]
                comp = rnd.choice(sib) if sib else None
            if comp is not None and comp not in names:
                names.add(comp)
                out.append(("F", comp, gen_content(rnd, comp)))
        elif r < 0.62 and expected_language(n) is not None:
            # the SAME bytes under a name of ANOTHER language (a C source also compiled as C++, a vendored copy with a new
            # extension): whatever is remembered per content instead of per (name, content) shows
            other = rnd.choice(STEMS) + rnd.choice([e for e in SUPPORTED_EXT if EXT_LANG[e] != expected_language(n)])
            if other not in names:
                names.add(other)
                out.append(("F", other, out[-1][2]))
    if depth < max_depth:
        nd = rnd.choice([0, 1, 1, 2, 3]) if depth < 2 else rnd.choice([0, 0, 1, 2])
        for _ in range(nd):
            n = gen_dir_name(rnd)
            if n in names:
                continue
            names.add(n)
            out.append(("D", n, gen_children(rnd, depth + 1, max_depth, printed_paths)))
    if depth >= 2 and rnd.random() < 0.3:
        gi = gen_nested_gitignore(rnd, out)
        if gi is not None:
            out.append(("F", ".gitignore", gi))
    rnd.shuffle(out)
    return out


def gen_tree(rnd, max_depth=4, links=0.35, printed_paths=False):
    """printed_paths: the tree is for a stream that compares paths as PRINTED by check (no names with control characters)"""
    tree = ("D", "root", gen_children(rnd, 1, max_depth, printed_paths))
    if rnd.random() < links:
        add_links(rnd, tree)
    return tree


def add_links(rnd, tree):
    """1-3 symbolic links to FILES: ("L", name, target, bytes) with `target` = components relative to the root
    (a file anywhere in the tree - also in hidden or excluded folders - or `../outside/<name>` outside the
    root) and `bytes` = the target's content. For scan and check a link is a file of its own: keyed / named by
    ITS path, language by ITS name, content through the link. Links to directories are not generated
    (os.walk does not follow them; the tree model has no notion of them)."""
    files = all_files(tree)
    dirs = all_dirs(tree)
    outside = {}
    for _ in range(rnd.choice([1, 1, 2, 3])):
        if files and rnd.random() < 0.8:
            tcomps, data = rnd.choice(files)
            target = list(tcomps)
        else:
            name = rnd.choice(STEMS) + rnd.choice(SUPPORTED_EXT)
            data = outside.setdefault(name, gen_content(rnd, name))       # two links to one outside file share its content
            target = ["..", "outside", name]
        ext = os.path.splitext(target[-1])[1]
        lname = rnd.choice(STEMS) + (ext if ext in SUPPORTED_EXT + UNSUPPORTED_EXT and rnd.random() < 0.8 else rnd.choice(SUPPORTED_EXT))
        node = tree
        for c in rnd.choice(dirs):
            node = [ch for ch in node[2] if ch[0] == "D" and ch[1] == c][0]
        if lname in [ch[1] for ch in node[2]]:
            continue
        node[2].append(("L", lname, target, data))


def all_links(node, pre=()):
    """{link path components: target components (relative to the root, may start with '..')}"""
    out = {}
    for ch in node[2]:
        if ch[0] == "L":
            out[pre + (ch[1],)] = tuple(ch[2])
        elif ch[0] == "D":
            out.update(all_links(ch, pre + (ch[1],)))
    return out


def all_files(node, pre=()):
    """[(components, bytes)] of every file below a directory node"""
    out = []
    for ch in node[2]:
        if ch[0] == "F":
            out.append((pre + (ch[1],), ch[2]))
        elif ch[0] == "L":
            out.append((pre + (ch[1],), ch[3]))
        else:
            out.extend(all_files(ch, pre + (ch[1],)))
    return out


def all_dirs(node, pre=()):
    out = [pre]
    for ch in node[2]:
        if ch[0] == "D":
            out.extend(all_dirs(ch, pre + (ch[1],)))
    return out


def materialize(node, path, root=None):
    root = root or path
    os.makedirs(path, exist_ok=True)
    later = []
    for ch in node[2]:
        p = os.path.join(path, ch[1])
        if ch[0] == "F":
            with open(p, "wb") as f:
                f.write(ch[2])
        elif ch[0] == "L":
            later.append((p, ch))
        else:
            materialize(ch, p, root)
    for p, ch in later:
        target = os.path.normpath(os.path.join(root, *ch[2]))
        if ch[2][0] == "..":                       # a target outside the root: it exists only because of this link
            os.makedirs(os.path.dirname(target), exist_ok=True)
            with open(target, "wb") as f:
                f.write(ch[3])
        os.symlink(os.path.relpath(target, path), p)


def snapshot(path, name="root", skip=()):
    """the tree as the OS lists it now (`os.scandir` order = the order `os.walk` will see);
    `skip` = names at the top level that belong to the harness (config files)"""
    ch = []
    with os.scandir(path) as it:
        entries = list(it)
    for e in entries:
        if e.name in skip:
            continue
        if e.is_dir(follow_symlinks=False):
            ch.append(snapshot(e.path, e.name))
        else:
            with open(e.path, "rb") as f:
                ch.append(("F", e.name, f.read()))
    return ("D", name, ch)


def tree_to_json(node):
    if node[0] == "F":
        return ["F", node[1], node[2].decode("latin-1")]
    if node[0] == "L":
        return ["L", node[1], list(node[2]), node[3].decode("latin-1")]
    return ["D", node[1], [tree_to_json(c) for c in node[2]]]


def tree_from_json(j):
    if j[0] == "F":
        return ("F", j[1], j[2].encode("latin-1"))
    if j[0] == "L":
        return ("L", j[1], list(j[2]), j[3].encode("latin-1"))
    return ("D", j[1], [tree_from_json(c) for c in j[2]])


def prune(node, keep, pre=()):
    """the tree restricted to the files whose path is in `keep` (empty directories dropped)"""
    ch = []
    for c in node[2]:
        if c[0] == "F":
            if "/".join(pre + (c[1],)) in keep:
                ch.append(c)
        elif c[0] == "L":
            if "/".join(pre + (c[1],)) in keep:
                ch.append(("F", c[1], c[3]))           # in the twin a kept link is a plain file with the same bytes
        else:
            sub = prune(c, keep, pre + (c[1],))
            if sub[2]:
                ch.append(sub)
    return ("D", node[1], ch)


# ------------------------------------------------------------------ mutations between two scans (state probe)

def files_dict(tree):
    return {tuple(c): d for c, d in all_files(tree)}


def tree_from_files(d, dirs=()):
    """("D", "root", ...) holding the given files (and the given, possibly empty, directories)"""
    root = ("D", "root", [])

    def descend(node, name):
        for ch in node[2]:
            if ch[0] == "D" and ch[1] == name:
                return ch
        ch = ("D", name, [])
        node[2].append(ch)
        return ch
    for comps in dirs:
        n = root
        for c in comps:
            n = descend(n, c)
    for comps, data in d.items():
        n = root
        for c in comps[:-1]:
            n = descend(n, c)
        n[2].append(("F", comps[-1], data))
    return root


def gen_mutations(rnd, tree):
    """what happens to a codebase between two scans: a file is copied or renamed to ANOTHER extension (often
    another language) in the same or another directory, a new (possibly empty) file appears, a file gets the
    content of another file or is emptied, a file disappears"""
    d = files_dict(tree)
    dirs = all_dirs(tree)
    taken = set(d) | {tuple(x) for x in dirs}
    ops = []
    for _ in range(rnd.choice([1, 2, 2, 3])):
        r = rnd.random()
        names = sorted(d)
        if names and r < 0.45:
            src = rnd.choice(names)
            # names stay inside the generator's pool: <stem of the pool><supported extension> (Pygments maps
            # `Makefile.js` to the Makefile lexer, `Dockerfile.py` to Docker: names outside the property's pool)
            stem = os.path.splitext(src[-1])[0] if os.path.splitext(src[-1])[0] in STEMS else rnd.choice(STEMS)
            dst = tuple(rnd.choice(dirs) if rnd.random() < 0.4 else src[:-1]) + (stem + rnd.choice(SUPPORTED_EXT),)
            if dst in taken:
                continue
            op = rnd.choice(["copy", "copy", "move"])
            ops.append([op, list(src), list(dst)])
            d[dst] = d[src]; taken.add(dst)
            if op == "move":
                del d[src]
        elif r < 0.7:
            dst = tuple(rnd.choice(dirs)) + (rnd.choice(STEMS) + rnd.choice(SUPPORTED_EXT),)
            if dst in taken:
                continue
            data = b"" if rnd.random() < 0.5 else gen_content(rnd, dst[-1])
            ops.append(["write", list(dst), data.decode("latin-1")])
            d[dst] = data; taken.add(dst)
        elif names and r < 0.9:
            dst = rnd.choice(names)
            data = b"" if rnd.random() < 0.3 else d[rnd.choice(names)] if rnd.random() < 0.5 else gen_content(rnd, dst[-1])
            # the new content arrives with an OLD modification time (restored from a backup / another checkout, `cp -p`,
            # `rsync -t`, an archive): "keep" = the time the file had, a number = that many seconds before now
            when = rnd.choice([None, None, "keep", 7200, 86400 * 400])
            ops.append(["write", list(dst), data.decode("latin-1")] + ([when] if when is not None else []))
            d[dst] = data
        elif names:
            src = rnd.choice(names)
            ops.append(["delete", list(src)])
            del d[src]
    return ops


def mutate_files(d, ops):
    d = dict(d)
    for op in ops:
        if op[0] in ("copy", "move"):
            d[tuple(op[2])] = d[tuple(op[1])]
            if op[0] == "move":
                del d[tuple(op[1])]
        elif op[0] == "write":
            d[tuple(op[1])] = op[2].encode("latin-1")
        elif op[0] == "delete":
            del d[tuple(op[1])]
    return d


def apply_mutations_fs(root, ops):
    for op in ops:
        if op[0] in ("copy", "move"):
            src, dst = os.path.join(root, *op[1]), os.path.join(root, *op[2])
            if op[0] == "copy":
                shutil.copyfile(src, dst)
            else:
                os.rename(src, dst)
        elif op[0] == "write":
            p = os.path.join(root, *op[1])
            old = os.stat(p).st_mtime if os.path.exists(p) else None
            with open(p, "wb") as f:
                f.write(op[2].encode("latin-1"))
            when = op[3] if len(op) > 3 else None
            if when == "keep" and old is not None:
                os.utime(p, (old, old))
            elif isinstance(when, (int, float)):
                os.utime(p, (time.time() - when, time.time() - when))
        elif op[0] == "delete":
            os.unlink(os.path.join(root, *op[1]))


def as_cached_report(codebase):
    """the first scan's result the way the next `codelimit scan` gets it back: aggregated, written by
    ReportWriter, read by ReportReader"""
    from codelimit.common.report.Report import Report
    try:
        from codelimit.common.report.ReportWriter import ReportWriter
        from codelimit.common.report.ReportReader import ReportReader
        codebase.aggregate()
        r = ReportReader.from_json(ReportWriter(Report(codebase)).to_json())
        if r is not None:
            return r
    except Exception:  # noqa: BLE001  (changed code: fall back to the object itself)
        pass
    return Report(codebase)


# ------------------------------------------------------------------ exclusion patterns (6 unambiguous classes)

def gen_patterns(rnd, tree=None):
    """0-3 patterns of the six classes; two thirds of them built from names that occur in the
    tree (so that they bite), the rest from the pools (mostly no match)"""
    k = rnd.choice([0, 1, 1, 2, 2, 3])
    files = all_files(tree) if tree else []
    vis = [c for c, _ in files if not spec_hidden(c)]
    out = []
    for _ in range(k):
        c = rnd.randrange(6)
        comps = rnd.choice(vis) if vis and rnd.random() < 0.67 else None
        if c == 0:
            out.append(rnd.choice(comps) if comps else rnd.choice(PLAIN_DIRS + ["main.py", "util.js", "README", "x.c"]))
        elif c == 1:
            out.append((rnd.choice(comps[:-1]) if comps and len(comps) > 1 else rnd.choice(PLAIN_DIRS)) + "/")
        elif c == 2:
            ext = os.path.splitext(comps[-1])[1] if comps else ""
            out.append("*" + (ext or rnd.choice(SUPPORTED_EXT + UNSUPPORTED_EXT)))
        elif c == 3:
            if comps and len(comps) > 1:
                out.append("/".join(comps[:rnd.randint(2, len(comps))]))
            else:
                out.append(rnd.choice(PLAIN_DIRS) + "/" + rnd.choice(PLAIN_DIRS + ["main.py", "x.ts", "mod.java"]))
        elif c == 4:
            out.append((comps[0] if comps and len(comps) > 1 else rnd.choice(PLAIN_DIRS)) + "/*")
        else:
            # "/name": only the top-level entry of that name (seeded change C11-4: pruning directories by
            # their bare name also drops a same-named directory deeper in the tree); names are taken from
            # ANY level of a path so that the non-matching deeper occurrence exists
            deeper = sorted({c for f in vis for c in f[1:-1] if c not in PINNED_BUILTIN})     # directory names below the top level
            if deeper and rnd.random() < 0.6:
                out.append("/" + rnd.choice(deeper))
            elif comps and rnd.random() < 0.5 and len(comps) > 2:
                out.append("/" + "/".join(comps[:2]))
            else:
                out.append("/" + (rnd.choice(comps) if comps else rnd.choice(PLAIN_DIRS)))
    # names with brackets (and the other characters gitignore gives a meaning to) are file/folder names only: in a
    # pattern `[..]` would be a character class
    def plain(p):
        core = p[2:] if p.startswith("*.") else p[:-2] if p.endswith("/*") else p
        if any(ch in p for ch in LINE_BREAKERS):
            # REPORTED (round 6, H5), not yet a registered finding: Scanner._read_gitignore splits the root .gitignore with
            # str.splitlines(), i.e. also at U+2028 / U+2029 / U+0085 / VT / FF / FS / GS / RS, where git splits at LF only:
            # the line `/<U+2028>ls.js` becomes the two patterns `/` and `ls.js` and the file <U+2028>ls.js is scanned
            # although git ignores it. Until that is decided, pattern lines with such characters are not generated.
            DROPPED["patterns_with_line_boundary_characters"] = DROPPED.get("patterns_with_line_boundary_characters", 0) + 1
            return False
        return not any(ch in core for ch in "[]*?!#\\") and p.strip() == p
    return [p for p in out if plain(p)]


def pattern_matches(pat, comps):
    """direct reading of the six gitignore classes on a root-relative path (of a file)"""
    if pat.startswith("/"):                     # /a[/b]: the entry of that path directly under the root
        ps = tuple(pat[1:].split("/"))
        return tuple(comps[:len(ps)]) == ps
    if pat.endswith("/*"):                      # a/*  : anything below the top-level directory a
        return len(comps) >= 2 and comps[0] == pat[:-2]
    if pat.endswith("/"):                       # dir/ : a directory of that name anywhere on the way
        return pat[:-1] in comps[:-1]
    if pat.startswith("*."):                    # *.ext: a component ending in .ext
        return any(c.endswith(pat[1:]) for c in comps)
    if "/" in pat:                              # a/b  : anchored at the root
        ps = tuple(pat.split("/"))
        return tuple(comps[:len(ps)]) == ps
    return pat in comps                         # bare name: any component


def spec_excluded(comps, patterns):
    return any(c in PINNED_BUILTIN for c in comps) or any(pattern_matches(p, comps) for p in patterns)


def spec_hidden(comps):
    return any(c.startswith(".") for c in comps)


def spec_selected(tree, patterns):
    """the property text: {path: (language, md5)} of the files that contribute to a scan"""
    out = {}
    for comps, data in all_files(tree):
        lang = expected_language(comps[-1])
        if spec_hidden(comps) or spec_excluded(comps, patterns) or lang is None:
            continue
        out["/".join(comps)] = (lang, hashlib.md5(data).hexdigest())
    return out


# ------------------------------------------------------------------ installing exclusions

def split_sources(rnd, patterns):
    """distribute the patterns over the three sources: option (Configuration.exclude), config
    file (.codelimit.yml via Configuration.load), root .gitignore"""
    src = {"option": [], "config": [], "gitignore": []}
    mode = rnd.choice(["option", "config", "gitignore", "mixed"])
    for p in patterns:
        src[rnd.choice(["option", "config", "gitignore"]) if mode == "mixed" else mode].append(p)
    return src


def install_exclusions(root, sources, load_from):
    """reset the process-global configuration, write the files, load them as the CLI does"""
    import yaml
    from pathlib import Path
    from codelimit.common.Configuration import Configuration
    Configuration.exclude = []
    Configuration.verbose = False
    Configuration.exclude.extend(sources["option"])                     # `--exclude`
    if sources["config"]:
        with open(os.path.join(root, ".codelimit.yml"), "w") as f:
            yaml.safe_dump({"exclude": list(sources["config"])}, f)
    if sources["gitignore"]:
        with open(os.path.join(root, ".gitignore"), "w") as f:
            f.write("\n".join(sources["gitignore"]) + "\n")
    Configuration.load(Path(load_from))


def gen_exclusion_change(rnd, tree, patterns, sources):
    """a history step (round 7): the exclusion list CHANGES between two scans of one tree - lines added (aimed at files that
    contributed to the first scan; any of the six classes, any source) and / or removed -> {"patterns", "sources"}"""
    pats = list(patterns)
    src = {k: list(v) for k, v in sources.items()}
    mode = rnd.choice(["add", "add", "add", "remove", "both"])
    if mode in ("remove", "both") and pats:
        p = rnd.choice(pats)
        pats.remove(p)
        for k in ("option", "config", "gitignore"):
            if p in src[k]:
                src[k].remove(p)
                break
    if mode in ("add", "both") or not patterns:
        before = set(spec_selected(tree, pats))
        new = []
        for _ in range(5):
            new = [p for p in gen_patterns(rnd, tree) if p not in pats][:2]
            if new and set(spec_selected(tree, pats + new)) != before:
                break
        for p in new:
            pats.append(p)
            src[rnd.choice(["option", "config", "gitignore"])].append(p)
    return {"patterns": pats, "sources": src}


def reinstall_exclusions(root, sources, load_from):
    """replace the exclusion configuration of a root (files of the earlier one removed first)"""
    for n in HARNESS_FILES:
        if os.path.lexists(os.path.join(root, n)):
            os.remove(os.path.join(root, n))
    install_exclusions(root, sources, load_from)


def reset_configuration():
    from codelimit.common.Configuration import Configuration
    Configuration.exclude = []
    Configuration.verbose = False


HARNESS_FILES = (".codelimit.yml", ".gitignore")


# ------------------------------------------------------------------ oracle bits from the real libraries

_LANG_CACHE = {}


def real_lang_of(name):
    """Pygments `get_lexer_for_filename` + membership in `Languages.by_name` -> language name | None"""
    if name not in _LANG_CACHE:
        from pygments.lexers import get_lexer_for_filename
        from pygments.util import ClassNotFound
        from codelimit.languages import Languages
        try:
            n = get_lexer_for_filename(name).__class__.name
            _LANG_CACHE[name] = n if n in Languages.by_name.keys() else None
        except ClassNotFound:
            _LANG_CACHE[name] = None
    return _LANG_CACHE[name]


def lang_ids():
    from codelimit.languages import Languages
    return {n: i for i, n in enumerate(sorted(Languages.by_name.keys()))}


def real_excluded_paths(spec_root, rel_paths):
    """ask the real pathspec object, as `scan_path` / `check_command` build it, about each path"""
    from pathlib import Path
    from codelimit.common import Scanner
    spec = Scanner.generate_exclude_spec(Path(spec_root))
    return [p for p in rel_paths if Scanner.is_excluded(Path(*p), spec)]


# ------------------------------------------------------------------ encoding for the driver

def S(s):
    return "%d%s" % (len(s), "".join(" %d" % ord(c) for c in s))


def enc_path(comps):
    return "%d%s" % (len(comps), "".join(" " + S(c) for c in comps))


def enc_paths(paths):
    return "%d%s" % (len(paths), "".join(" " + enc_path(p) for p in paths))


class Ids:
    """content ids: one per distinct (bytes, language) pair"""

    def __init__(self):
        self.ids = {}
        self.rev = []

    def of(self, data, lang):
        k = (data, lang)
        if k not in self.ids:
            self.ids[k] = len(self.rev) + 1
            self.rev.append(k)
        return self.ids[k]

    def md5(self, i):
        return hashlib.md5(self.rev[i - 1][0]).hexdigest()


def enc_tree(node, ids):
    if node[0] == "F":
        return "F %s %d" % (S(node[1]), ids.of(node[2], real_lang_of(node[1])))
    return "D %s %d%s" % (S(node[1]), len(node[2]), "".join(" " + enc_tree(c, ids) for c in node[2]))


def enc_langs(tree):
    names = sorted({comps[-1] for comps, _ in all_files(tree)})
    li = lang_ids()
    pairs = [(n, li[real_lang_of(n)]) for n in names if real_lang_of(n) is not None]
    return "%d%s" % (len(pairs), "".join(" %s %d" % (S(n), l) for n, l in pairs))


def read_str(ws, i):
    n = int(ws[i])
    return "".join(chr(int(x)) for x in ws[i + 1:i + 1 + n]), i + 1 + n


def read_path(ws, i):
    n = int(ws[i]); i += 1
    out = []
    for _ in range(n):
        s, i = read_str(ws, i)
        out.append(s)
    return out, i


# ------------------------------------------------------------------ running the real scan

def run_scan(path_arg):
    """real `scan_path(Path(path_arg))` with `_analyze_file` wrapped -> (ordered entries, analysed)
    entries: [(key, language, checksum, [(name, sl, sc, el, ec, value)])]"""
    entries, analysed, _cb = run_scan_cb(path_arg)
    return entries, analysed


def run_scan_cb(path_arg, cached_report=None):
    """as run_scan, optionally with a report of an earlier scan handed back in; also returns the Codebase"""
    from pathlib import Path
    from codelimit.common import Scanner
    analysed = []
    orig = Scanner._analyze_file

    def wrapped(path, rel_path, checksum, lexer):
        analysed.append(str(rel_path))
        return orig(path, rel_path, checksum, lexer)
    Scanner._analyze_file = wrapped
    try:
        with contextlib.redirect_stdout(io.StringIO()):
            cb = Scanner.scan_path(Path(path_arg), cached_report) if cached_report is not None else Scanner.scan_path(Path(path_arg))
    finally:
        Scanner._analyze_file = orig
    entries = []
    for k, e in cb.files.items():
        ms = [(m.unit_name, m.start.line, m.start.column, m.end.line, m.end.column, m.value) for m in e.measurements()]
        entries.append((k, e.language, e.checksum(), ms, e.path, e.loc))
    return entries, analysed, cb


def analyse_directly(path, name):
    """the scan pipeline on one file (`_analyze_file`), whatever `scan_path` would select"""
    from pygments.lexers import get_lexer_for_filename
    from codelimit.common import Scanner
    lexer = get_lexer_for_filename(name)
    e = Scanner._analyze_file(path, name, "", lexer)
    return [(m.unit_name, m.start.line, m.start.column, m.end.line, m.end.column, m.value) for m in e.measurements()]


# ------------------------------------------------------------------ running the real check

_LINE = re.compile(r"^(.*?):(\d+):(\d+): (\d+) (\S+) (.*)$")


def run_check(args):
    """real `check_command([Path(a) for a in args], quiet=False)` in the current directory ->
    dict(code, listed=[(path, line, col, length, name)], files_checked, read=[paths])"""
    import typer
    from pathlib import Path
    from codelimit.commands import check as checkmod
    read = []
    orig = checkmod._read_file

    def wrapped(path):
        read.append(str(path))
        return orig(path)
    checkmod._read_file = wrapped
    buf = io.StringIO()
    code = None
    err = None
    try:
        with contextlib.redirect_stdout(buf):
            try:
                checkmod.check_command([Path(a) for a in args], False)
            except typer.Exit as e:
                code = e.exit_code
            except Exception as e:  # a crash of the real command is an observation
                err = "%s: %s" % (type(e).__name__, e)
    finally:
        checkmod._read_file = orig
    listed = []
    count = None
    for line in buf.getvalue().split("\n"):      # not splitlines(): a file name may contain U+2028 / U+0085 / form feed
        m = _LINE.match(line)
        if m:
            listed.append((m.group(1), int(m.group(2)), int(m.group(3)), int(m.group(4)), m.group(6).rstrip()))
            continue
        m2 = re.match(r"^(\d+) files checked", line)
        if m2:
            count = int(m2.group(1))
    return {"code": code, "listed": listed, "files_checked": count, "read": read, "error": err,
            "raw": buf.getvalue()[-400:]}


# ------------------------------------------------------------------ temp dirs

ENV_NAMES = [".ci", ".jenkins", ".local", ".cache", "ws", "workspace", "checkout", "job-7", "src", "build", "tests", "node_modules", "a b"]


def gen_env(rnd, tree=None):
    """the surroundings of the code base root, which by the properties never matter: the directories ABOVE the root
    (names from the same classes as the names below it: hidden `.ci` `.jenkins` `.local`, built-in-excluded `build`
    `tests` `node_modules`, plain), one of them possibly the top of a git checkout / worktree / submodule (`.git`
    directory or file) with a .gitignore whose lines are drawn from the names in the tree (so that they would bite).
    -> {"above": [names, outermost first], "files": {path relative to <tmp>/w: text}}"""
    above = [rnd.choice(ENV_NAMES) for _ in range(rnd.choice([1, 1, 2, 3]))]
    if rnd.random() < 0.5 and not any(a.startswith(".") for a in above):
        above[rnd.randrange(len(above))] = rnd.choice([n for n in ENV_NAMES if n.startswith(".")])
    files = {}
    if rnd.random() < 0.7:
        level = rnd.randrange(len(above) + 1)
        pre = "/".join(above[:level] + [""]) if level else ""
        if rnd.random() < 0.7:
            files[pre + ".git/HEAD"] = "ref: refs/heads/main\n"
        else:
            files[pre + ".git"] = "gitdir: /nowhere/.git/worktrees/x\n"
        if rnd.random() < 0.85:
            lines = gen_patterns(rnd, tree) if tree is not None else []
            lines += [rnd.choice(["*.py", "*.js", "*.c", "src/", "lib/", "root/", "*"])]
            files[pre + ".gitignore"] = "\n".join(lines) + "\n"
    return {"above": above, "files": files}


class TempTree:
    """a materialised tree under a fresh temp dir; `root` is <tmp>/w/root (so that `..` forms
    and relative forms have somewhere to start from) or, with an environment `env` (gen_env),
    <tmp>/w/<above...>/root; `parent` is the directory that holds `root`"""

    def __init__(self, tree, env=None):
        self.tmp = os.path.realpath(tempfile.mkdtemp(prefix="clsel_"))
        self.work = os.path.join(self.tmp, "w")
        self.parent = os.path.join(self.work, *((env or {}).get("above") or []))
        self.root = os.path.join(self.parent, "root")
        materialize(tree, self.root)
        for rel, text in sorted(((env or {}).get("files") or {}).items()):
            q = os.path.join(self.work, *rel.split("/"))
            os.makedirs(os.path.dirname(q), exist_ok=True)
            with open(q, "w") as f:
                f.write(text)
        self._cwd = os.getcwd()

    def chdir(self, p):
        os.chdir(p)

    def close(self):
        os.chdir(self._cwd)
        reset_configuration()
        shutil.rmtree(self.tmp, ignore_errors=True)

    def __enter__(self):
        return self

    def __exit__(self, *a):
        self.close()
