"""Vendored corpus of real-world sources (harness/corpus/<dir>/*)."""
import os

DIRS = {"c": "C", "cpp": "C++", "csharp": "C#", "java": "Java", "js": "JavaScript", "python": "Python", "ts": "TypeScript"}
ROOT = os.path.join(os.path.dirname(os.path.abspath(__file__)), "corpus")


def files(max_bytes=60000):
    out = []
    for d, lang in sorted(DIRS.items()):
        p = os.path.join(ROOT, d)
        if not os.path.isdir(p):
            continue
        for f in sorted(os.listdir(p)):
            path = os.path.join(p, f)
            try:
                raw = open(path, "rb").read()
            except OSError:
                continue
            if len(raw) > max_bytes:
                continue
            try:
                text = raw.decode("utf-8")
            except UnicodeDecodeError:
                text = raw.decode("latin-1")
            text = text.replace("\r\n", "\n").replace("\r", "\n")   # what open(path).read() yields
            out.append((lang, d + "/" + f, text))
    return out
