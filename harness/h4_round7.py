"""Round-7 mechanisms of H4 (C07, C08, C18, C19).

 * CASE TWINS  - `case_twin(path, rnd)`: a path that differs from `path` only in the letter case of ONE component (a folder
                 name or the file name's stem; the extension is kept, because it selects the language).  On a case-sensitive
                 file system - and in a report document - the two are two files.  `pool_path(rnd, taken, default)` is the
                 path pool every generator uses: mostly `default`, a share of case twins of paths already taken.
 * DERIVED STRINGS - `derived_strings(words, fillers)`: for every dictionary word w (literals harvested from the source tree,
                 pinned and novel) and filler x: w, w+w, x+w, w+x, x+w+w, w+x+w - the values on which a prefix / suffix
                 normalisation applied once differs from the same normalisation applied twice.
 * CONSOLE VARIANTS - `console_variants(ctx)`: rich consoles as users have them: recording non-terminals and forced interactive
                 terminals, heights 5..60 (short windows), a few widths.
"""


def _recase(s, rnd):
    cands = []
    for c in (s.upper(), s.lower(), s.capitalize(), s.swapcase(), s[:1].upper() + s[1:], s[:-1] + s[-1:].upper()):
        if c != s and c.lower() == s.lower() and c not in cands:
            cands.append(c)
    return rnd.choice(cands) if cands else None


def case_twin(path, rnd, keep_ext=True):
    """-> a path equal to `path` up to letter case, different as written; None when `path` has no cased letter to change"""
    parts = path.split("/")
    idx = list(range(len(parts)))
    rnd.shuffle(idx)
    for i in idx:
        comp = parts[i]
        if i == len(parts) - 1 and keep_ext and "." in comp[1:]:
            stem, ext = comp.rsplit(".", 1)
            new = _recase(stem, rnd)
            new = None if new is None else new + "." + ext
        else:
            new = _recase(comp, rnd)
        if new is not None:
            return "/".join(parts[:i] + [new] + parts[i + 1:])
    return None


def pool_path(rnd, taken, default, share=0.2, taken_set=None):
    """the next path of a generated code base: `default`, or (share) a case twin of one of the paths already `taken`"""
    if taken and rnd.random() < share:
        t = case_twin(rnd.choice(taken), rnd)
        if t is not None and t not in (taken if taken_set is None else taken_set) and t != default:
            return t
    return default


def has_case_twins(paths):
    seen = {}
    for p in paths:
        if p is None:
            continue
        if seen.setdefault(p.lower(), p) != p:
            return True
    return False


def derived_strings(words, fillers=("x", "a/b", "é", "")):
    """strings DERIVED from dictionary words: w, w+w, x+w, w+x, x+w+w, w+x+w (x from `fillers`), duplicates removed, order kept"""
    out, seen = [], set()
    for w in words:
        if not isinstance(w, str) or not w or len(w) > 40:
            continue
        for x in fillers:
            for s in (w, w + w, x + w, w + x, x + w + w, w + x + w, w + w + x):
                if s not in seen:
                    seen.add(s)
                    out.append(s)
    return out


def console_variants(ctx, widths=(250,)):
    """[(label, kwargs for rich.console.Console)]: non-terminal and forced-terminal consoles, heights 5..60"""
    heights = ctx.pick([5, 6, 9, 12, 13, 14, 25, 60], list(range(5, 31)) + [40, 60])
    out = []
    for wi, w in enumerate(widths):
        out.append(("recording console %d wide (not a terminal)" % w, {"width": w}))
        for h in (heights if wi == 0 or ctx.thorough else [9, 25]):
            out.append(("interactive terminal %dx%d" % (w, h), {"width": w, "height": h, "force_terminal": True}))
        out.append(("non-terminal console %dx%d" % (w, heights[0]), {"width": w, "height": heights[0], "force_terminal": False}))
    return out


def run_entry_pty(job, cwd=None, rows=24, cols=200, term="xterm-256color", timeout=120):
    """OBSERVATION POINT: the CLI entry function (as h4_round5.run_entry: `codelimit findings` / `codelimit report`) in a
    fresh interpreter whose stdout IS a terminal - a pseudo-terminal with a window of `rows` x `cols` - as a user in a
    small terminal window runs it. -> (exit code, what the terminal received with CR LF -> LF, stderr)"""
    import fcntl
    import json
    import os
    import pty
    import struct
    import subprocess
    import sys
    import termios
    import common
    import h4_round5 as r5
    env = {k: v for k, v in os.environ.items() if k not in ("LINES", "COLUMNS", "NO_COLOR", "FORCE_COLOR")}
    env.update(PYTHONWARNINGS="ignore", PYTHONIOENCODING="utf-8", TERM=term)
    master, slave = pty.openpty()
    fcntl.ioctl(slave, termios.TIOCSWINSZ, struct.pack("HHHH", rows, cols, 0, 0))
    p = subprocess.Popen([sys.executable, "-W", "ignore", "-c", r5._ENTRY, common.REPO, json.dumps(job)], cwd=cwd, env=env,
                         stdin=subprocess.DEVNULL, stdout=slave, stderr=subprocess.PIPE)
    os.close(slave)
    chunks = []
    while True:
        try:
            b = os.read(master, 65536)
        except OSError:
            break
        if not b:
            break
        chunks.append(b)
    err = p.stderr.read().decode("utf-8", "replace")
    try:
        code = p.wait(timeout=timeout)
    finally:
        os.close(master)
    return code, b"".join(chunks).decode("utf-8", "replace").replace("\r\n", "\n"), err
