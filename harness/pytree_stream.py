"""Correspondence stream for `Props/C01pytext.lean`: Python INDENTATION TREES -> the Lean driver's
`pytree` operation (text, raw stream, the two flags `wf` / `Spaced`, report read off the TREE) ->
the REAL pipeline on that text.  40% of the files carry comments: operation `pytoks` (token list
of the file with comment tokens + forest of its code tokens; five flags).

For every forest:
  (a) Pygments' non-whitespace raw tokens (class, value, OFFSET) must be the forest's tokens at the
      offsets of the rendering - otherwise the forest's vocabulary is wrong: `lexer_mismatch`
      (never a violation; Pygments is not under test);
  (a') the kept tokens of the REAL `lexer_utils.lex` (kind, value, line, column) must be the rendering
      (`C01pytext.lex_of_pytree_text`): a difference is an `oracle_failure` of `lex` (counted also as
      `lex_position_failures`);
  (b) both flags of the reply must be true, the returned text must be the text rendered in Python,
      the returned raw stream must tile it, and (forests that are Python: not "exotic") `ast.parse`
      must accept the text and list the same functions (name, first line of `def`, last line) as
      the tree report - otherwise `generator_bug`;
  (c) the measurements of the real `scan_file(lex(text))` must be the driver's tree report:
      a difference is an `oracle_failure` (input = language + text, observed, required).

Usage:  /venv/bin/python pytree_stream.py [-n 2000] [--seed 0] [--sweep 60] [--driver PATH] [--json out.json]
"""
import argparse
import ast
import json
import os
import random
import sys

HERE = os.path.dirname(os.path.abspath(__file__))
sys.path.insert(0, HERE)
import common  # noqa: E402  (puts VERIF_REPO or /repo on sys.path, sets the guard variable)
import scan_real as sr  # noqa: E402
import tree_stream  # noqa: E402  (run_driver, real_tokens, tiles)
from gen import pytrees  # noqa: E402

DEFAULT_DRIVER = common.DRIVER
FLAGS = ("wf", "Spaced")
FLAGS_C = ("wf", "Spaced", "noWs", "codeEq", "unmarked")
LANG = "Python"


def decode_pytree(reply, names=FLAGS):
    """'ok <flag>* <text> <nraw> raw* <k> meas*' -> dict, or None"""
    ws = reply.split()
    if not ws or ws[0] != "ok":
        return None
    i = 1
    flags = [w == "1" for w in ws[i:i + len(names)]]; i += len(names)

    def rstr(i):
        n = int(ws[i]); i += 1
        return "".join(chr(int(x)) for x in ws[i:i + n]), i + n
    text, i = rstr(i)
    nraw = int(ws[i]); i += 1
    raw = []
    for _ in range(nraw):
        off, kind, ty = int(ws[i]), int(ws[i + 1]), int(ws[i + 2]); i += 3
        val, i = rstr(i)
        raw.append((off, kind, ty, val))
    k = int(ws[i]); i += 1
    ms = []
    for _ in range(k):
        name, i = rstr(i)
        sl, sc, el, ec, ln = map(int, ws[i:i + 5]); i += 5
        ms.append((name, sl, sc, el, ec, ln))
    assert i == len(ws), "trailing words in the reply"
    return {"flags": dict(zip(names, flags)), "text": text, "raw": raw, "report": ms}


def ast_functions(text):
    """[(name, line of `def`/`async def`, last line)] in source order, or an error string"""
    try:
        mod = ast.parse(text)
    except SyntaxError as e:
        return "ast.parse: %s" % e
    out = []
    for n in ast.walk(mod):
        if isinstance(n, (ast.FunctionDef, ast.AsyncFunctionDef)):
            out.append((n.lineno, n.col_offset, n.name, n.end_lineno))
    out.sort()
    return [(name, ln, end) for (ln, _c, name, end) in out]


def gen_cases(rnd, n, sweep_upto=0, p_comments=0.4):
    cases = []
    for _ in range(n):
        cases.append(pytrees.generate(rnd, comments=rnd.random() < p_comments))
    for k in range(1, sweep_upto + 1):
        cases.append(pytrees.generate(rnd, sweep=k))
        cases.append(pytrees.generate(rnd, sweep=k, sweep_in_class=True))
    return cases


def correspond(rnd, n, driver=DEFAULT_DRIVER, sweep_upto=0, keep=50, p_comments=0.4):
    cases = gen_cases(rnd, n, sweep_upto, p_comments)
    reqs = [pytrees.toks_request(ts, nodes) if g.comments else pytrees.tree_request(nodes) for (nodes, ts, g) in cases]
    replies = tree_stream.run_driver(driver, reqs)
    lexer_mismatch, generator_bug, fails, model_errors = [], [], [], []
    counts = {"lexer_mismatch": 0, "generator_bug": 0, "oracle_failures": 0, "model_errors": 0, "compared": 0, "ast_checked": 0,
              "lex_position_failures": 0}
    nontrivial = set()
    dist = {"functions": 0, "max_depth": 0, "max_suite_depth": 0, "max_len": 0, "tokens": 0, "max_tokens": 0, "lines": 0,
            "forests_with_nested_functions": 0, "exotic": 0, "with_comments": 0, "comment_tokens": 0, "features": {}}
    samples = []
    for (nodes, ts, g), reply in zip(cases, replies):
        text_py, located, offs = pytrees.render(ts, offsets=True)
        d = None
        try:
            d = decode_pytree(reply, FLAGS_C if g.comments else FLAGS)
        except Exception as e:  # noqa
            reply = "undecodable (%s): %s" % (e, reply[:200])
        if d is None:
            counts["model_errors"] += 1
            model_errors.append({"input": {"language": LANG, "code": text_py}, "model": reply[:300]})
            continue
        text = d["text"]
        inp = {"language": LANG, "code": text}
        # (a) Pygments (not under test) sees the forest's tokens: same class and text at the same offset
        praw, pbad = sr.raw_tokens(LANG, text)
        pyg = [(sr.kind_of(tt), val, off) for (off, tt, val) in praw if not (sr.kind_of(tt) == 6 and (val == "" or val.isspace()))]
        want = [(k, v, o) for ((k, v, _l, _c), o) in zip(located, offs)]
        if pbad or pyg != want:
            counts["lexer_mismatch"] += 1
            j = next((k for k, (a, b) in enumerate(zip(pyg, want)) if a != b), min(len(pyg), len(want)))
            lexer_mismatch.append({"input": inp, "index": j, "pygments": pyg[max(0, j - 2):j + 3], "forest": want[max(0, j - 2):j + 3],
                                   "contract": pbad})
            continue
        # (a') the REAL `lex` puts them at the rendered (line, column) - `C01pytext.lex_of_pytree_text` / C16; a difference
        # here is a failure of `lexer_utils.lex`, not of the generator
        real = tree_stream.real_tokens(LANG, text)
        if real != located:
            counts["oracle_failures"] += 1
            counts["lex_position_failures"] += 1
            j = next((k for k, (a, b) in enumerate(zip(real, located)) if a != b), min(len(real), len(located)))
            fails.append({"input": inp, "observed": real[max(0, j - 2):j + 3], "required": located[max(0, j - 2):j + 3],
                          "note": "lex: kept tokens / positions differ from the rendering at token %d" % j})
            continue
        # (b) hypotheses of the theorem, the rendering itself, and Python's own parser
        why = [f for f in d["flags"] if not d["flags"][f]]
        if text != text_py:
            why.append("text differs from the Python rendering")
        if not tree_stream.tiles(text, d["raw"]):
            why.append("raw stream does not tile the text")
        exp = d["report"]
        if not g.exotic:
            counts["ast_checked"] += 1
            af = ast_functions(text)
            if af != [(m[0], m[1], m[3]) for m in exp]:
                why.append("ast: %s, tree report: %s" % (af if isinstance(af, str) else af[:6], [(m[0], m[1], m[3]) for m in exp][:6]))
        if why:
            counts["generator_bug"] += 1
            generator_bug.append({"input": inp, "why": why})
            continue
        # (c) the real measurements are the tree report
        counts["compared"] += 1
        r = sr.real_scan(LANG, text)
        rd = sr.decode_scan(r)
        got = rd[0] if rd else r
        if got != exp or (rd and rd[1] != sum(m[5] for m in exp)):
            counts["oracle_failures"] += 1
            fails.append({"input": inp, "observed": got, "required": exp})
        nf, depth = pytrees.count_fns(nodes)
        if exp:
            nontrivial.add(text)
        dist["functions"] += nf
        dist["max_depth"] = max(dist["max_depth"], depth)
        dist["max_suite_depth"] = max(dist["max_suite_depth"], pytrees.tree_depth(nodes))
        dist["max_len"] = max([dist["max_len"]] + [m[5] for m in exp])
        dist["tokens"] += len(ts)
        dist["max_tokens"] = max(dist["max_tokens"], len(ts))
        dist["lines"] += text.count("\n")
        dist["forests_with_nested_functions"] += 1 if depth >= 2 else 0
        dist["exotic"] += 1 if g.exotic else 0
        dist["with_comments"] += 1 if g.comments else 0
        dist["comment_tokens"] += sum(1 for t in ts if t.kind == 5)
        for f in g.features:
            dist["features"][f] = dist["features"].get(f, 0) + 1
        if len(samples) < 3 and len(exp) >= 2 and len(text) < 700 and "wrap" in g.features:
            samples.append({"language": LANG, "code": text, "expected": exp})
    return {
        "evaluations": len(cases), "distinct_nontrivial": len(nontrivial),
        "rule": "random well-formed Python indentation trees (PyProg PTok) from harness/pytrees.py: module statements, classes, "
                "if/elif/else, while, for, with, try suites, functions and methods nested to any depth, async def, decorator lines, "
                "multi-line headers and statements (continuation lines at any column `wf` permits), defaults incl. call-shaped ones, "
                "annotations, one-line and multi-line docstrings (one token), varying suite widths, blank lines, tight/wide spacing; 40% of the "
                "files with comments (own lines at any indentation, trailing, `# nocl` on own lines; driver op `pytoks`); "
                "driver op `pytree` gives text + raw stream + flags + TREE report; real lexer tokens = forest tokens; flags true; "
                "ast.parse lists the same functions; real scan_file(lex(text)) = tree report; non-trivial = distinct texts with at "
                "least one reported function",
        "samples": samples, "exhaustive": False, "distribution": dist, "counts": counts,
        "lexer_mismatch": lexer_mismatch[:keep], "generator_bug": generator_bug[:keep], "model_errors": model_errors[:keep],
        "disagreements": [], "oracle_failures": fails[:keep],
    }


def vocabulary_check():
    """every word of the templates, lexed alone inside a function body, gets the class `classify` says
    (context-free part of the tie; the stream re-checks every generated forest in context)"""
    bad = []
    words = set()
    for s in pytrees.SIMPLE + pytrees.HEADS + pytrees.DECOS + pytrees.P_PLAIN + pytrees.P_DEF + pytrees.POSTS:
        words |= set(s.split())
    for w in sorted(words):
        if w[0] in "\"'@" or w in ("(", ")", "[", "]", "{", "}", "import", "from", "as", "def", "class"):
            continue
        want = [(t.kind, t.text) for t in pytrees.classify(w)]
        raw, _ = sr.raw_tokens(LANG, "def f():\n    a1 %s b1\n" % w)
        vals = [(sr.kind_of(tt), val) for (_, tt, val) in raw if val.strip()]
        names = [val for (_, val) in vals]
        if "a1" not in names or "b1" not in names:
            bad.append((w, want, vals)); continue
        got = vals[names.index("a1") + 1:names.index("b1")]
        if got != want:
            bad.append((w, want, got))
    return bad


def main():
    ap = argparse.ArgumentParser()
    ap.add_argument("-n", type=int, default=2000)
    ap.add_argument("--seed", type=int, default=0)
    ap.add_argument("--sweep", type=int, default=0)
    ap.add_argument("--driver", default=DEFAULT_DRIVER)
    ap.add_argument("--json", default=None)
    ap.add_argument("--vocab", action="store_true")
    a = ap.parse_args()
    if a.vocab:
        for b in vocabulary_check():
            print("vocabulary: %r expected %s, lexer says %s" % b)
    res = correspond(random.Random(a.seed), a.n, a.driver, sweep_upto=a.sweep)
    if a.json:
        with open(a.json, "w") as f:
            json.dump(res, f, indent=1, default=str)
    print(json.dumps({"repo": common.REPO, "evaluations": res["evaluations"], "distinct_nontrivial": res["distinct_nontrivial"],
                      "counts": res["counts"], "distribution": res["distribution"]}, indent=1))
    for key in ("model_errors", "lexer_mismatch", "generator_bug", "oracle_failures"):
        for x in res[key][:5]:
            print("---- %s" % key)
            print(json.dumps(x, indent=1, default=str)[:3000])
    return 1 if res["counts"]["oracle_failures"] else 0


if __name__ == "__main__":
    sys.exit(main())
