"""In-process drivers of the real pattern engine (codelimit.common.gsm)."""
import sys

E_MULTI, E_INDEX, E_STOP, E_NOTFOUND, E_MINMAX, E_FUEL, E_OTHER, E_RECURSION = 1, 2, 3, 4, 5, 6, 7, 8


def err_code(e):
    if isinstance(e, RecursionError):
        return E_RECURSION
    if isinstance(e, ValueError) and "Multiple transitions" in str(e):
        return E_MULTI
    if isinstance(e, IndexError):
        return E_INDEX
    if isinstance(e, StopIteration):
        return E_STOP
    if isinstance(e, ValueError):
        return E_NOTFOUND
    return E_OTHER


def real_engine(op, r, w):
    """returns the reply string the model driver would give for the same request"""
    from codelimit.common.gsm import matcher
    from gen import rx
    expr = rx.to_expr(r)
    seq = [rx.letter(k) for k in w]
    old = sys.getrecursionlimit()
    try:
        sys.setrecursionlimit(400)
        if op == "match":
            p = matcher.match(expr, seq)
            return "ok none" if p is None else "ok %d" % p.end
        if op == "sw":
            p = matcher.starts_with(expr, seq)
            return "ok none" if p is None else "ok %d" % p.end
        if op == "nfa":
            return "ok T" if matcher.nfa_match(expr, seq) else "ok F"
        if op == "findall":
            ps = matcher.find_all(expr, seq)
            out = "ok %d" % len(ps)
            for p in ps:
                out += " %d %d %d" % (p.start, p.end, len(p.tokens))
                out += "".join(" %d" % ("abcdefgh".index(t) + 1 if t in "abcdefgh" else int(t[1:])) for t in p.tokens)
            return out
        raise ValueError(op)
    except Exception as e:  # noqa
        return "err %d" % err_code(e)
    finally:
        sys.setrecursionlimit(old)


def _work(chunk):
    return [real_engine(op, r, w) for (op, r, w) in chunk]


def real_engine_many(cases, workers=16):
    from concurrent.futures import ProcessPoolExecutor
    if len(cases) < 4000:
        return _work(cases)
    k = max(500, (len(cases) + workers * 4 - 1) // (workers * 4))
    chunks = [cases[i:i + k] for i in range(0, len(cases), k)]
    with ProcessPoolExecutor(max_workers=workers) as ex:
        outs = list(ex.map(_work, chunks))
    return [x for o in outs for x in o]


# ---- histories: several calls on the same objects in one process ---------------------------
# A history is a list of steps on ONE expression list object E:
#   {"ast": tree, "how": "new" | "slice" | "tail" | "head" | "clear", "calls": [[op, word], ...]}
# "new" binds E to a freshly built list; every other `how` EDITS the existing list in place
# until it denotes `ast` (so the identity of E survives the change of its meaning).  With
# sharing == "history" structurally equal operator sub-trees of all steps are one Python object.
E_TIMEOUT = 9
EDITS = ("slice", "tail", "head", "clear")


class _Timeout(Exception):
    pass


def _alarm(signum, frame):
    raise _Timeout()


def edit_in_place(E, T, how):
    """make the list object E equal (item by item, same objects) to the list T without rebinding it"""
    if how == "slice":
        E[:] = T
    elif how == "clear":
        E.clear()
        E.extend(T)
    elif how == "tail":      # keep the common prefix, pop the rest from the end, append
        k = 0
        while k < len(E) and k < len(T) and E[k] is T[k]:
            k += 1
        while len(E) > k:
            E.pop()
        for x in T[k:]:
            E.append(x)
    elif how == "head":      # keep the common suffix, pop from the front, insert at the front
        k = 0
        while k < len(E) and k < len(T) and E[len(E) - 1 - k] is T[len(T) - 1 - k]:
            k += 1
        while len(E) > k:
            E.pop(0)
        for x in reversed(T[:len(T) - k]):
            E.insert(0, x)
    else:
        raise ValueError(how)
    assert len(E) == len(T) and all(a is b for a, b in zip(E, T))


def call_engine(op, expr, seq, alphabet="letters"):
    """one call of the real engine on already built objects -> reply string (driver format)"""
    from codelimit.common.gsm import matcher
    from gen import rx
    old = sys.getrecursionlimit()
    try:
        sys.setrecursionlimit(400)
        if op == "match":
            p = matcher.match(expr, seq)
            return "ok none" if p is None else "ok %d" % p.end
        if op == "sw":
            p = matcher.starts_with(expr, seq)
            return "ok none" if p is None else "ok %d" % p.end
        if op == "nfa":
            return "ok T" if matcher.nfa_match(expr, seq) else "ok F"
        if op == "findall":
            ps = matcher.find_all(expr, seq)
            out = "ok %d" % len(ps)
            for p in ps:
                out += " %d %d %d" % (p.start, p.end, len(p.tokens))
                out += "".join(" %d" % rx.unsym(alphabet, t) for t in p.tokens)
            return out
        raise ValueError(op)
    except _Timeout:
        raise
    except Exception as e:  # noqa
        return "err %d" % err_code(e)
    finally:
        sys.setrecursionlimit(old)


def run_history(h, per_call_timeout=20):
    """h = {"alphabet", "spelling", "sharing", "steps": [...]} -> [[reply per call] per step]"""
    import signal
    from gen import rx
    alphabet, spelling, sharing = h.get("alphabet", "letters"), h.get("spelling", "list"), h.get("sharing", "none")
    sym = rx.sym_of(alphabet)
    cache = {} if sharing == "history" else None
    E = None
    out = []
    try:
        signal.signal(signal.SIGALRM, _alarm)
        armed = True
    except ValueError:   # not in the main thread
        armed = False
    for step in h["steps"]:
        r = _tup(step["ast"])
        try:
            T = rx.build_expr(r, alphabet, spelling, cache if sharing == "history" else ({} if sharing == "pattern" else None))
        except Exception as e:  # noqa  (constructing the operators failed)
            out.append(["err %d" % err_code(e)] * len(step["calls"]))
            continue
        how = step.get("how", "new")
        if how == "new" or E is None:
            E = T
        else:
            edit_in_place(E, T, how)
        rs = []
        for (op, w) in step["calls"]:
            seq = [sym(k) for k in w]
            if armed:
                signal.alarm(per_call_timeout)
            try:
                rs.append(call_engine(op, E, seq, alphabet))
            except _Timeout:
                rs.append("err %d" % E_TIMEOUT)
            finally:
                if armed:
                    signal.alarm(0)
        out.append(rs)
    return out


def _tup(a):
    return tuple(_tup(x) if isinstance(x, (list, tuple)) else x for x in a)


def _work_h(chunk):
    return [run_history(h) for h in chunk]


def run_histories(hs, workers=16):
    """every history in a process of its own pool worker (histories never share objects with each other);
    a history marked "heavy" is a chunk of its own and is handed out first"""
    from concurrent.futures import ProcessPoolExecutor
    cost = sum(len(s["calls"]) for h in hs for s in h["steps"])
    if (cost < 4000 or len(hs) < 4) and not any(h.get("heavy") for h in hs):
        return _work_h(hs)
    heavy = [n for n, h in enumerate(hs) if h.get("heavy")]
    light = [n for n, h in enumerate(hs) if not h.get("heavy")]
    k = max(1, (len(light) + workers * 4 - 1) // (workers * 4))
    chunks = [[n] for n in heavy] + [light[i:i + k] for i in range(0, len(light), k)]
    with ProcessPoolExecutor(max_workers=workers) as ex:
        outs = list(ex.map(_work_h, [[hs[n] for n in c] for c in chunks]))
    res = [None] * len(hs)
    for c, o in zip(chunks, outs):
        for n, x in zip(c, o):
            res[n] = x
    return res
