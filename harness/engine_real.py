"""In-process drivers of the real pattern engine (codelimit.common.gsm)."""
import sys

E_MULTI, E_INDEX, E_STOP, E_NOTFOUND, E_MINMAX, E_FUEL, E_OTHER, E_RECURSION = 1, 2, 3, 4, 5, 6, 7, 8


def err_code(e):
    if isinstance(e, RecursionError):
        return E_RECURSION
    if isinstance(e, ValueError) and "Multiple transitions" in str(e):
        return E_MULTI
    if isinstance(e, IndexError):
        return E_INDEX
    if isinstance(e, StopIteration):
        return E_STOP
    if isinstance(e, ValueError):
        return E_NOTFOUND
    return E_OTHER


def real_engine(op, r, w):
    """returns the reply string the model driver would give for the same request"""
    from codelimit.common.gsm import matcher
    from gen import rx
    expr = rx.to_expr(r)
    seq = [rx.letter(k) for k in w]
    old = sys.getrecursionlimit()
    try:
        sys.setrecursionlimit(400)
        if op == "match":
            p = matcher.match(expr, seq)
            return "ok none" if p is None else "ok %d" % p.end
        if op == "sw":
            p = matcher.starts_with(expr, seq)
            return "ok none" if p is None else "ok %d" % p.end
        if op == "nfa":
            return "ok T" if matcher.nfa_match(expr, seq) else "ok F"
        if op == "findall":
            ps = matcher.find_all(expr, seq)
            out = "ok %d" % len(ps)
            for p in ps:
                out += " %d %d %d" % (p.start, p.end, len(p.tokens))
                out += "".join(" %d" % ("abcdefgh".index(t) + 1 if t in "abcdefgh" else int(t[1:])) for t in p.tokens)
            return out
        raise ValueError(op)
    except Exception as e:  # noqa
        return "err %d" % err_code(e)
    finally:
        sys.setrecursionlimit(old)


def _work(chunk):
    return [real_engine(op, r, w) for (op, r, w) in chunk]


def real_engine_many(cases, workers=16):
    from concurrent.futures import ProcessPoolExecutor
    if len(cases) < 4000:
        return _work(cases)
    k = max(500, (len(cases) + workers * 4 - 1) // (workers * 4))
    chunks = [cases[i:i + k] for i in range(0, len(cases), k)]
    with ProcessPoolExecutor(max_workers=workers) as ex:
        outs = list(ex.map(_work, chunks))
    return [x for o in outs for x in o]
