"""./check <Cxx> <quick|thorough>   |   ./check replay <file>"""
import importlib
import json
import os
import sys
import traceback

sys.path.insert(0, os.path.dirname(os.path.abspath(__file__)))
import common  # noqa: E402


class Ctx:
    def __init__(self, pid, tier):
        self.pid = pid
        self.tier = tier
        self.thorough = tier == "thorough"
        self.timer = common.Timer()
        self.notes = []

    def rng(self, *salt):
        return common.rng(self.pid, *salt)

    def pick(self, quick, thorough):
        return thorough if self.thorough else quick


def match_known(pid, failure):
    """a failing input is a known finding iff a listed entry's matcher accepts it"""
    mod = importlib.import_module("props." + pid)
    for k in common.known_findings().get("known", []):
        if k["property"] == pid and hasattr(mod, "matches_known") and mod.matches_known(k, failure):
            return k
    return None


def run_check(pid, tier):
    ctx = Ctx(pid, tier)
    mod = importlib.import_module("props." + pid)
    violations = []          # replay payloads
    broken = []              # reasons the proof/tie no longer checks
    # 0+1. regenerate the generated model parts from /repo
    refusals = []
    if hasattr(mod, "regen"):
        try:
            refusals = mod.regen(ctx) or []
        except Exception as e:  # translator crash = refusal
            refusals = ["translator crashed: %r" % (e,)]
            ctx.notes.append(traceback.format_exc())
    for r in refusals:
        broken.append({"kind": "translator-refusal", "what": r})
    # 2+3. build + audit
    lean = common.lean_check(pid, thorough=ctx.thorough)
    if not lean.ok:
        for name, why in lean.bad:
            broken.append({"kind": "proof", "theorem_or_module": name, "why": why,
                           "log": lean.build_log[-3000:] if "build failed" in why else ""})
    # 4. correspondence (+ regress corpus first, inside the module)
    corr = {}
    try:
        common.build_driver()
    except RuntimeError as e:
        broken.append({"kind": "model-build", "why": "the model driver does not build against the regenerated Gen/*.lean", "log": str(e)[-3000:]})
    else:
        try:
            corr = mod.correspond(ctx)
        except Exception as e:  # noqa: BLE001
            # the harness could not drive the changed code (an extraction wrapper no longer fits, a translator
            # refuses inside the correspondence): the tie is broken, not the harness - go on to the search
            broken.append({"kind": "correspondence-crash", "why": "%s: %s" % (type(e).__name__, str(e)[:300]),
                           "log": traceback.format_exc()[-2500:]})
            corr = {}
    for d in corr.get("disagreements", []):
        broken.append({"kind": "correspondence", "stream": d.get("stream"), "input": d.get("input"),
                       "model": d.get("model"), "impl": d.get("impl")})
    failures = list(corr.get("oracle_failures", []))
    # 5. failing-input search when anything is broken
    if broken and hasattr(mod, "search"):
        hints = [d.get("input") for d in corr.get("disagreements", [])]
        try:
            failures += mod.search(ctx, hints) or []
        except Exception as e:  # noqa: BLE001
            broken.append({"kind": "search-crash", "why": "%s: %s" % (type(e).__name__, str(e)[:300])})
    known_lines = []
    seen = set()
    for f in failures:
        k = match_known(pid, f)
        if k:
            if k["id"] not in seen:
                seen.add(k["id"])
                known_lines.append("KNOWN-FINDING: property=%s %s (%s)" % (pid, k["what"], k["id"]))
            continue
        key = json.dumps(f.get("input"), sort_keys=True, default=str)
        if key in seen:
            continue
        seen.add(key)
        violations.append(f)
    # known findings listed for this property are replayed on every run
    for k in common.known_findings().get("known", []):
        if k["property"] == pid and k["id"] not in seen and hasattr(mod, "replay_known"):
            if mod.replay_known(k):
                known_lines.append("KNOWN-FINDING: property=%s %s (%s)" % (pid, k["what"], k["id"]))
    for line in known_lines:
        print(line)
    exit_code = 0
    out_lines = []
    if violations and getattr(mod, "SHRINKABLE", False):
        # modules whose `replay` re-evaluates the oracle from the input alone: minimise the failing text
        import contextlib, io
        for f in violations[:5]:
            inp = f.get("input") or {}
            if isinstance(inp.get("code"), str) and len(inp["code"]) > 40 and inp.get("stream") != "cli":
                def still_fails(code, f=f, inp=inp):
                    with contextlib.redirect_stdout(io.StringIO()):
                        return not mod.replay({"input": dict(inp, code=code), "required": f.get("required")})
                try:
                    small = common.shrink_text(inp["code"], still_fails)
                except Exception:
                    small = inp["code"]
                if small != inp["code"]:
                    f["input"] = dict(inp, code=small, shrunk_from_chars=len(inp["code"]))
    if violations:
        exit_code = 1
        for f in violations[:5]:
            path = common.write_replay(pid, dict(f, broken=broken[:5]))
            out_lines.append("VIOLATION property=%s replay=%s" % (pid, path))
    elif broken:
        exit_code = 1
        path = common.write_replay(pid, {"no_failing_input_found": True, "broken": broken[:20],
                                         "searched": corr.get("evaluations", 0)})
        out_lines.append("VIOLATION property=%s replay=%s no-failing-input-found" % (pid, path))
    coverage = {
        "obligations": len(lean.theorems),
        "discharged": len(lean.discharged),
        "checker_cmd": "cd lean && lake build CodeLimit.Props.%s && lake env lean .lake/Audit_%s.lean  (#print axioms per theorem)%s"
                       % (pid, pid, " && lake env leanchecker CodeLimit.Props.%s" % pid if ctx.thorough else ""),
        "trusted_base": ["Lean 4.33.0 kernel", "axioms used: " + ", ".join(sorted({a for t in lean.discharged for a in lean.axioms.get(t, [])}) or ["none"])]
                        + list(getattr(mod, "TRUSTED", [])),
        "theorems": lean.theorems,
        "axioms_per_theorem": lean.axioms,
        "leanchecker": lean.leanchecker,
        "translator_refusals": refusals,
        "evaluations": corr.get("evaluations", 0),
        "distinct_nontrivial": corr.get("distinct_nontrivial", 0),
        "rule": corr.get("rule", ""),
        "samples": corr.get("samples", [])[:8],
        "exhaustive": bool(corr.get("exhaustive", False)),
        "disagreements_checked": corr.get("evaluations", 0),
        "distribution": corr.get("distribution", {}),
        "generated_hashes": corr.get("generated_hashes", {}),
        "known_findings_replayed": known_lines,
        "broken": broken[:10],
    }
    common.write_evidence(pid, tier, coverage, ctx.timer.s(), len(violations) + (1 if broken and not violations else 0),
                          list(getattr(mod, "ASSUMPTIONS", [])))
    for line in out_lines:
        print(line)
    print("%s %s: theorems %d/%d, correspondence %d evaluations (%d distinct non-trivial), %d disagreements, %.1fs -> %s"
          % (pid, tier, len(lean.discharged), len(lean.theorems), corr.get("evaluations", 0),
             corr.get("distinct_nontrivial", 0), len(corr.get("disagreements", [])), ctx.timer.s(),
             "OK" if exit_code == 0 else "VIOLATION"))
    return exit_code


def run_replay(path):
    payload = json.load(open(path))
    pid = payload["property"]
    mod = importlib.import_module("props." + pid)
    if payload.get("no_failing_input_found"):
        print("replay: no failing input was found; what no longer checks:")
        print(json.dumps(payload.get("broken"), indent=1))
        return 1
    ok = mod.replay(payload)
    print("replay %s: %s" % (path, "property holds on this input now" if ok else "STILL FAILS"))
    return 0 if ok else 1


def main(argv):
    if len(argv) >= 2 and argv[0] == "replay":
        return run_replay(argv[1])
    if len(argv) < 1:
        print(__doc__); return 2
    pid = argv[0]
    tier = argv[1] if len(argv) > 1 else os.environ.get("VERIF_TIER", "quick")
    try:
        return run_check(pid, tier)
    except Exception:
        traceback.print_exc()
        return 2


if __name__ == "__main__":
    sys.exit(main(sys.argv[1:]))
