"""Input streams for the scan-pipeline properties (C01, C03, C04, C05, C16, C17)."""
import corpus
from gen import programs
import scan_real as sr

LANGS = sr.LANGS

LEX_ALPHABET = {
    "brace": ["f", "g", "x", "(", ")", "{", "}", ";", ",", "=", "=>", ":", "int", "void", "class", "new", "record", "throws",
              "function", "const", "async", "return", "if", "1", '"s"', "'c'", "// c\n", "/* c */", "\n", " ", "  ", "\t", "[", "]",
              "<", ">", ".", "*", "#include <a.h>\n", "@A", "->", "::", "`t`", "/* nocl */", "// NOCL\n"],
    "Python": ["def", "async", "f", "g", "x", "(", ")", ":", ",", "=", "\n", "    ", "  ", "\t", "class", "return", "pass", "1",
               '"s"', "'''m\nl'''", '"""d"""', "# c\n", "# nocl\n", "[", "]", "{", "}", "->", "lambda", "\\\n", "@d", ".", "if", "else", "*", "**"],
}


def canonical(ctx, per_lang, salt="canon", stubs=False):
    """`stubs`: also emit one-line defs (headers without a suite) in Python programs - only for
    streams that compare two scans with each other (no expectation exists for them)"""
    rnd = ctx.rng(salt)
    out = []
    for lang in LANGS:
        for i in range(per_lang):
            o = programs.generate(lang, rnd, stubs=stubs)
            out.append((lang, o.text(rnd.random() < 0.8), o))
    return out


def sweep(ctx, upto=75):
    rnd = ctx.rng("sweep")
    out = []
    for lang in LANGS:
        for n in range(1, upto + 1):
            o = programs.generate(lang, rnd, sweep=n)
            out.append((lang, o.text(True), o))
    return out


def soups(ctx, n, salt="soup"):
    """malformed stream: prefixes/suffixes/line+token deletions, duplications, swaps of
    canonical programs and corpus files; random soups over each language's lexical alphabet;
    deep nesting"""
    rnd = ctx.rng(salt)
    base = [(l, t) for (l, t, _) in canonical(ctx, max(3, n // 200), salt + "base")]
    base += [(l, t) for (l, _, t) in corpus.files(8000)]
    out = []
    while len(out) < n:
        r = rnd.random()
        if r < 0.55 and base:
            lang, text = rnd.choice(base)
            k = rnd.random()
            if k < 0.2:
                text = text[:rnd.randint(0, len(text))]
            elif k < 0.35:
                text = text[rnd.randint(0, len(text)):]
            elif k < 0.6:
                lines = text.split("\n")
                for _ in range(rnd.randint(1, 3)):
                    if len(lines) > 1:
                        i = rnd.randrange(len(lines))
                        op = rnd.random()
                        if op < 0.4:
                            del lines[i]
                        elif op < 0.7:
                            lines.insert(i, lines[i])
                        else:
                            j = rnd.randrange(len(lines)); lines[i], lines[j] = lines[j], lines[i]
                text = "\n".join(lines)
            else:
                # token-level edits on whitespace-separated chunks
                parts = text.split(" ")
                for _ in range(rnd.randint(1, 4)):
                    if len(parts) > 1:
                        i = rnd.randrange(len(parts))
                        op = rnd.random()
                        if op < 0.4:
                            del parts[i]
                        elif op < 0.7:
                            parts.insert(i, parts[i])
                        else:
                            j = rnd.randrange(len(parts)); parts[i], parts[j] = parts[j], parts[i]
                text = " ".join(parts)
            out.append((lang, text))
        elif r < 0.93:
            lang = rnd.choice(LANGS)
            alpha = LEX_ALPHABET["Python" if lang == "Python" else "brace"]
            k = rnd.randint(0, 60)
            text = "".join(rnd.choice(alpha) + rnd.choice(["", " ", " ", "\n"]) for _ in range(k))
            out.append((lang, text))
        elif r < 0.97:
            lang = rnd.choice(LANGS)
            d = rnd.randint(5, 60)
            if lang == "Python":
                text = "".join("%sdef f%d():\n" % ("  " * i, i) for i in range(d)) + "  " * d + "pass\n"
            else:
                text = "".join("%s f%d() {\n" % (rnd.choice(["void", "function", "int"]), i) for i in range(d)) + "x;\n" + "}\n" * rnd.randint(0, d)
            out.append((lang, text))
        else:
            lang = rnd.choice(LANGS)
            out.append((lang, rnd.choice(["", "\n", "(", ")", "{", "}", "f(", "def f(", "def f()", "f()", "f(){", "x = (a => b)", "const f = (a = () => 0) => {", "\n\n\n", "\t", "é", "f(\n"])))
    return out


def corpus_cases():
    return [(l, t) for (l, _, t) in corpus.files()]


# ------------------------------------------------------------------------------------------------------------------
# size ladders, configuration variants of a text (byte order mark, no newline at all, Unicode separators)
# ------------------------------------------------------------------------------------------------------------------

# geometric ladder, ratio sqrt(10): every size dimension (characters without a newline, lines of one function, lines of a
# file of many functions, simultaneous insertions) is swept over these rungs instead of one "moderate" size
LADDER = [10, 32, 100, 316, 1000, 3162, 10 ** 4, 31623, 10 ** 5, 316228, 10 ** 6, 3162278]

BOM = "\ufeff"
# characters at which str.splitlines() / some editors break a line although the text has no "\n" there; every shipped
# lexer classifies them as white space (checked per use on the real lexer's raw stream)
SEPARATORS = ["\x0b", "\x0c", "\x1c", "\x1d", "\x1e", "\x85", "\u2028", "\u2029"]
BLANKS = ["\xa0", "\u2003", "\u3000", "\x1f"]


def rungs(lo, hi, decades_only=False):
    return [n for n in LADDER if lo <= n <= hi and (not decades_only or len(str(n).strip("0")) == 1 and str(n)[0] == "1")]


def heavy_map(fn, items, workers=12):
    """process pool with one item per task (the expensive rungs must not queue up behind each other)"""
    from concurrent.futures import ProcessPoolExecutor
    items = list(items)
    if len(items) <= 1:
        return [fn(x) for x in items]
    with ProcessPoolExecutor(max_workers=min(workers, len(items))) as ex:
        return list(ex.map(fn, items, chunksize=1))


class Heavy:
    """heavy_map that runs in the background: the tasks start now, `results()` collects them later (the caller goes on
    with the model / the small inputs in between)"""

    def __init__(self, fn, items, workers=8):
        from concurrent.futures import ProcessPoolExecutor
        self.items = list(items)
        self.ex = ProcessPoolExecutor(max_workers=max(1, min(workers, len(self.items)))) if self.items else None
        self.futs = [self.ex.submit(fn, x) for x in self.items]

    def results(self):
        try:
            return [f.result() for f in self.futs]
        finally:
            if self.ex is not None:
                self.ex.shutdown()


def chunked_map(fn, cases, workers=16):
    """fn(list of cases) -> list of results, over a process pool, order kept (scan_real.real_scan_many with a caller-supplied
    worker: lets a check evaluate its direct oracle next to the real analysis instead of serially afterwards)"""
    from concurrent.futures import ProcessPoolExecutor
    cases = list(cases)
    if len(cases) < 64:
        return fn(cases)
    k = max(8, (len(cases) + workers * 4 - 1) // (workers * 4))
    chunks = [cases[i:i + k] for i in range(0, len(cases), k)]
    with ProcessPoolExecutor(max_workers=workers) as ex:
        outs = list(ex.map(fn, chunks))
    return [x for o in outs for x in o]


def _scan_one(case):
    import scan_real
    return scan_real.real_scan(case[0], case[1])


def real_scan_heavy(cases, workers=12):
    """like scan_real.real_scan_many, one input per task, largest first"""
    order = sorted(range(len(cases)), key=lambda i: -len(cases[i][1]))
    res = heavy_map(_scan_one, [cases[i] for i in order], workers)
    out = [None] * len(cases)
    for i, r in zip(order, res):
        out[i] = r
    return out


def model_scan_heavy(reqs):
    """one model driver process per request (scan_real.model_scan_many puts neighbours into one shard)"""
    return sr.model_scan_many(reqs, shards=max(1, len(reqs)))


# ---- programs of a given size -------------------------------------------------------------------------------------

def ladder_program(desc):
    """deterministic: the program described by {"language", "kind": "single"|"many", "lines", "gen_seed"}"""
    import random
    rnd = random.Random(desc["gen_seed"])
    if desc["kind"] == "single":
        o = programs.generate(desc["language"], rnd, sweep=desc["lines"])
    else:
        o = programs.generate(desc["language"], rnd, min_lines=desc["lines"])
    text = o.text(desc.get("trailing_newline", True))
    if desc.get("sha1") not in (None, _sha1(text)):
        print("note: the program generator has changed since this description was written (text hash %s, recorded %s)" % (_sha1(text), desc["sha1"]))
    return o, text


def _sha1(text):
    import hashlib
    return hashlib.sha1(text.encode("utf-8", "surrogatepass")).hexdigest()[:12]


def ladder_programs(ctx, single, many, salt="ladder", many_python=None):
    """size ladder over the length of ONE function (`single`: body statements) and over the number of functions of a file
    (`many`: lines of a program that keeps growing by functions, classes, global code); -> [(lang, text, Out, desc)]"""
    rnd = ctx.rng(salt)
    out = []
    for lang in LANGS:
        plan = [("single", n) for n in single] + [("many", n) for n in (many_python if (lang == "Python" and many_python is not None) else many)]
        for (kind, n) in plan:
            desc = {"stream": "ladder", "language": lang, "kind": kind, "lines": n, "gen_seed": rnd.getrandbits(48)}
            o, text = ladder_program(desc)
            desc["sha1"] = _sha1(text)
            out.append((lang, text, o, desc))
    return out


# ---- one very long line -------------------------------------------------------------------------------------------

LONG_SHAPES = ("literal", "comment", "tokens", "fn")
LONG_LAYOUTS = ("alone", "alone-newline", "second-line")


def long_line(lang, shape, n, layout):
    """a text with ONE line of at least n characters:
    literal  - a string literal of n characters followed by more code on the line
    comment  - a block comment of n characters followed by a function on the line (Python: a long literal in a call)
    tokens   - n characters of short statements
    fn       - a function whose whole body of short statements stands on the header's line
    layout: the long line alone without any newline / with a final newline / as second of three lines"""
    py = lang == "Python"
    wrap = ("class K { ", " }") if lang in ("Java", "C#") else ("", "")
    if shape == "literal":
        line = 's = "%s"; x = 1%s' % ("a" * n, "" if py else ";")
    elif shape == "comment":
        if py:
            line = 'x = g("%s", 1); y = 2  # %s' % ("b" * (n // 2), "c" * (n // 2))
        else:
            line = "/*%s*/ %svoid f(int a) { x = 1; }%s" % ("c" * n, wrap[0], wrap[1])
    elif shape == "tokens":
        line = ("x = 1; " * (n // 7 + 1)).rstrip()
    else:
        body = ("x = 1; " * (n // 7 + 1)).rstrip()
        line = ("def f(a): %s" % body) if py else "%svoid f(int a) { %s }%s" % (wrap[0], body, wrap[1])
    if layout == "alone":
        return line
    if layout == "alone-newline":
        return line + "\n"
    return ("import os\n" if py else "// first line\n") + line + "\n" + ("y = 3\n" if py else "int y;\n")


def long_text(desc):
    return (BOM if desc.get("bom") else "") + long_line(desc["language"], desc["shape"], desc["chars"], desc["layout"])


def long_lines(ctx, light, heavy, per_rung=2, salt="long", full_upto=316):
    """single-line ladder. `light`: sizes for the shapes with a handful of tokens (literal, comment) - affordable up to
    several million characters; `heavy`: sizes for the shapes whose token count grows with the size (tokens, fn).
    Up to `full_upto` characters every language x shape x layout; up to 10^4 every language x shape with a rotating
    layout; above that `per_rung` languages per (size, shape), rotating with the seed, and the three layouts rotating so
    that each occurs at every size. -> [(lang, text, desc)]"""
    import common
    s = common.seed() + ctx.rng(salt).randrange(7)
    out = []
    for shape_i, shape in enumerate(LONG_SHAPES):
        for r_i, n in enumerate(sorted(set(light if shape in ("literal", "comment") else heavy))):
            if n <= full_upto:
                combos = [(lang, lay) for lang in LANGS for lay in LONG_LAYOUTS]
            elif n <= 10 ** 4:
                combos = [(lang, LONG_LAYOUTS[(s + r_i + shape_i + j) % 3]) for j, lang in enumerate(LANGS)]
            else:
                combos = [(LANGS[(s + r_i + 2 * shape_i + 3 * j) % len(LANGS)], LONG_LAYOUTS[(s + r_i + shape_i + j) % 3]) for j in range(per_rung)]
                if per_rung >= len(LANGS):
                    combos = [(lang, LONG_LAYOUTS[(s + r_i + shape_i + j) % 3]) for j, lang in enumerate(LANGS)]
            for c_i, (lang, lay) in enumerate(combos):
                desc = {"stream": "long-line", "language": lang, "shape": shape, "chars": n, "layout": lay}
                if (s + r_i + shape_i + c_i) % 4 == 0:
                    desc["bom"] = True          # configuration variant: the file was saved with a UTF-8 signature
                out.append((lang, long_text(desc), desc))
    return out


def bisect_size(fails, lo, hi, budget_s=8.0):
    """smallest n in (lo, hi] with fails(n), assuming fails(hi) and a monotone failure; time-boxed"""
    import time
    t0 = time.time()
    while hi - lo > 1 and time.time() - t0 < budget_s:
        mid = (lo + hi) // 2
        try:
            bad = fails(mid)
        except Exception:
            bad = True
        if bad:
            hi = mid
        else:
            lo = mid
    return hi


# ---- variants of a text that are legal inputs under every property about texts ------------------------------------

def one_line(o):
    """a canonical brace-language program rendered on ONE line without any newline: the code segments of its lines
    joined by blanks (comments, which would swallow the rest of the line, and preprocessor lines left out); None for
    Python (its block structure needs the lines) and for programs with a token that spans lines"""
    if o.lang == "Python":
        return None
    parts = []
    for segs in o.lines:
        t = "".join(text for (text, owner, code) in segs if code).strip()
        if t.startswith("#") or not t:
            continue
        parts.append(t)
    return " ".join(parts)


def with_bom(text, expected):
    """a program behind a byte order mark and its expectation: U+FEFF is one more character on line 1 (the lexers report
    it as an Error token in front of everything: never part of a header or a body)"""
    return BOM + text, [(n, sl, sc + (1 if sl == 1 else 0), el, ec + (1 if el == 1 else 0), ln) for (n, sl, sc, el, ec, ln) in expected]


def collapse_newlines(text):
    """the same characters on ONE line without any newline (lexing takes its no-newline path)"""
    return text.replace("\n", " ")


def decorate(ctx, cases, share=0.15, salt="decor", limit=20000):
    """for a share of the (lang, text) cases: the text behind a byte order mark (what Scanner._read_file returns for a
    file saved with a UTF-8 signature), the text on one line without any newline, both, and the text with one blank
    replaced by a Unicode separator / exotic blank. -> new (lang, text) cases"""
    rnd = ctx.rng(salt)
    out = []
    for (lang, text) in cases:
        if not text or len(text) > limit or rnd.random() >= share:
            continue
        k = rnd.random()
        if k < 0.3:
            out.append((lang, BOM + text))
        elif k < 0.5:
            out.append((lang, collapse_newlines(text)))
        elif k < 0.75:
            out.append((lang, BOM + collapse_newlines(text)))
        elif k < 0.85:
            out.append((lang, BOM + text.rstrip("\n")))
        else:
            spots = [i for i, c in enumerate(text) if c == " "]
            if spots:
                i = rnd.choice(spots)
                out.append((lang, text[:i] + rnd.choice(SEPARATORS + BLANKS) + text[i + 1:]))
    return out
