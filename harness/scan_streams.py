"""Input streams for the scan-pipeline properties (C01, C03, C04, C05, C16, C17)."""
import corpus
from gen import programs
import scan_real as sr

LANGS = sr.LANGS

LEX_ALPHABET = {
    "brace": ["f", "g", "x", "(", ")", "{", "}", ";", ",", "=", "=>", ":", "int", "void", "class", "new", "record", "throws",
              "function", "const", "async", "return", "if", "1", '"s"', "'c'", "// c\n", "/* c */", "\n", " ", "  ", "\t", "[", "]",
              "<", ">", ".", "*", "#include <a.h>\n", "@A", "->", "::", "`t`", "/* nocl */", "// NOCL\n"],
    "Python": ["def", "async", "f", "g", "x", "(", ")", ":", ",", "=", "\n", "    ", "  ", "\t", "class", "return", "pass", "1",
               '"s"', "'''m\nl'''", '"""d"""', "# c\n", "# nocl\n", "[", "]", "{", "}", "->", "lambda", "\\\n", "@d", ".", "if", "else", "*", "**"],
}


def canonical(ctx, per_lang, salt="canon", stubs=False):
    """`stubs`: also emit one-line defs (headers without a suite) in Python programs - only for
    streams that compare two scans with each other (no expectation exists for them)"""
    rnd = ctx.rng(salt)
    out = []
    for lang in LANGS:
        for i in range(per_lang):
            o = programs.generate(lang, rnd, stubs=stubs)
            out.append((lang, o.text(rnd.random() < 0.8), o))
    return out


def sweep(ctx, upto=75):
    rnd = ctx.rng("sweep")
    out = []
    for lang in LANGS:
        for n in range(1, upto + 1):
            o = programs.generate(lang, rnd, sweep=n)
            out.append((lang, o.text(True), o))
    return out


def soups(ctx, n, salt="soup"):
    """malformed stream: prefixes/suffixes/line+token deletions, duplications, swaps of
    canonical programs and corpus files; random soups over each language's lexical alphabet;
    deep nesting"""
    rnd = ctx.rng(salt)
    base = [(l, t) for (l, t, _) in canonical(ctx, max(3, n // 200), salt + "base")]
    base += [(l, t) for (l, _, t) in corpus.files(8000)]
    out = []
    while len(out) < n:
        r = rnd.random()
        if r < 0.55 and base:
            lang, text = rnd.choice(base)
            k = rnd.random()
            if k < 0.2:
                text = text[:rnd.randint(0, len(text))]
            elif k < 0.35:
                text = text[rnd.randint(0, len(text)):]
            elif k < 0.6:
                lines = text.split("\n")
                for _ in range(rnd.randint(1, 3)):
                    if len(lines) > 1:
                        i = rnd.randrange(len(lines))
                        op = rnd.random()
                        if op < 0.4:
                            del lines[i]
                        elif op < 0.7:
                            lines.insert(i, lines[i])
                        else:
                            j = rnd.randrange(len(lines)); lines[i], lines[j] = lines[j], lines[i]
                text = "\n".join(lines)
            else:
                # token-level edits on whitespace-separated chunks
                parts = text.split(" ")
                for _ in range(rnd.randint(1, 4)):
                    if len(parts) > 1:
                        i = rnd.randrange(len(parts))
                        op = rnd.random()
                        if op < 0.4:
                            del parts[i]
                        elif op < 0.7:
                            parts.insert(i, parts[i])
                        else:
                            j = rnd.randrange(len(parts)); parts[i], parts[j] = parts[j], parts[i]
                text = " ".join(parts)
            out.append((lang, text))
        elif r < 0.93:
            lang = rnd.choice(LANGS)
            alpha = LEX_ALPHABET["Python" if lang == "Python" else "brace"]
            k = rnd.randint(0, 60)
            text = "".join(rnd.choice(alpha) + rnd.choice(["", " ", " ", "\n"]) for _ in range(k))
            out.append((lang, text))
        elif r < 0.97:
            lang = rnd.choice(LANGS)
            d = rnd.randint(5, 60)
            if lang == "Python":
                text = "".join("%sdef f%d():\n" % ("  " * i, i) for i in range(d)) + "  " * d + "pass\n"
            else:
                text = "".join("%s f%d() {\n" % (rnd.choice(["void", "function", "int"]), i) for i in range(d)) + "x;\n" + "}\n" * rnd.randint(0, d)
            out.append((lang, text))
        else:
            lang = rnd.choice(LANGS)
            out.append((lang, rnd.choice(["", "\n", "(", ")", "{", "}", "f(", "def f(", "def f()", "f()", "f(){", "x = (a => b)", "const f = (a = () => 0) => {", "\n\n\n", "\t", "é", "f(\n"])))
    return out


def corpus_cases():
    return [(l, t) for (l, _, t) in corpus.files()]
