"""Input streams for the scan-pipeline properties (C01, C03, C04, C05, C16, C17)."""
import corpus
from gen import programs
import scan_real as sr

LANGS = sr.LANGS

LEX_ALPHABET = {
    "brace": ["f", "g", "x", "(", ")", "{", "}", ";", ",", "=", "=>", ":", "int", "void", "class", "new", "record", "throws",
              "function", "const", "async", "return", "if", "1", '"s"', "'c'", "// c\n", "/* c */", "\n", " ", "  ", "\t", "[", "]",
              "<", ">", ".", "*", "#include <a.h>\n", "@A", "->", "::", "`t`", "/* nocl */", "// NOCL\n"],
    "Python": ["def", "async", "f", "g", "x", "(", ")", ":", ",", "=", "\n", "    ", "  ", "\t", "class", "return", "pass", "1",
               '"s"', "'''m\nl'''", '"""d"""', "# c\n", "# nocl\n", "[", "]", "{", "}", "->", "lambda", "\\\n", "@d", ".", "if", "else", "*", "**"],
}


def canonical(ctx, per_lang, salt="canon", stubs=False):
    """`stubs`: also emit one-line defs (headers without a suite) in Python programs - only for
    streams that compare two scans with each other (no expectation exists for them)"""
    rnd = ctx.rng(salt)
    out = []
    for lang in LANGS:
        for i in range(per_lang):
            o = programs.generate(lang, rnd, stubs=stubs)
            out.append((lang, o.text(rnd.random() < 0.8), o))
    return out


def sweep(ctx, upto=75):
    rnd = ctx.rng("sweep")
    out = []
    for lang in LANGS:
        for n in range(1, upto + 1):
            o = programs.generate(lang, rnd, sweep=n)
            out.append((lang, o.text(True), o))
    return out


def soups(ctx, n, salt="soup"):
    """malformed stream: prefixes/suffixes/line+token deletions, duplications, swaps of
    canonical programs and corpus files; random soups over each language's lexical alphabet;
    deep nesting"""
    rnd = ctx.rng(salt)
    base = [(l, t) for (l, t, _) in canonical(ctx, max(3, n // 200), salt + "base")]
    base += [(l, t) for (l, _, t) in corpus.files(8000)]
    out = []
    while len(out) < n:
        r = rnd.random()
        if r < 0.55 and base:
            lang, text = rnd.choice(base)
            k = rnd.random()
            if k < 0.2:
                text = text[:rnd.randint(0, len(text))]
            elif k < 0.35:
                text = text[rnd.randint(0, len(text)):]
            elif k < 0.6:
                lines = text.split("\n")
                for _ in range(rnd.randint(1, 3)):
                    if len(lines) > 1:
                        i = rnd.randrange(len(lines))
                        op = rnd.random()
                        if op < 0.4:
                            del lines[i]
                        elif op < 0.7:
                            lines.insert(i, lines[i])
                        else:
                            j = rnd.randrange(len(lines)); lines[i], lines[j] = lines[j], lines[i]
                text = "\n".join(lines)
            else:
                # token-level edits on whitespace-separated chunks
                parts = text.split(" ")
                for _ in range(rnd.randint(1, 4)):
                    if len(parts) > 1:
                        i = rnd.randrange(len(parts))
                        op = rnd.random()
                        if op < 0.4:
                            del parts[i]
                        elif op < 0.7:
                            parts.insert(i, parts[i])
                        else:
                            j = rnd.randrange(len(parts)); parts[i], parts[j] = parts[j], parts[i]
                text = " ".join(parts)
            if rnd.random() < 0.15:
                # a comment opener / closer of ANOTHER language at an arbitrary place
                i = rnd.randint(0, len(text))
                text = text[:i] + rnd.choice(FOREIGN_OPENERS) + text[i:]
            out.append((lang, text))
        elif r < 0.93:
            lang = rnd.choice(LANGS)
            alpha = LEX_ALPHABET["Python" if lang == "Python" else "brace"]
            k = rnd.randint(0, 60)
            text = "".join(rnd.choice(alpha) + rnd.choice(["", " ", " ", "\n"]) for _ in range(k))
            out.append((lang, text))
        elif r < 0.97:
            lang = rnd.choice(LANGS)
            d = rnd.randint(5, 60)
            if lang == "Python":
                text = "".join("%sdef f%d():\n" % ("  " * i, i) for i in range(d)) + "  " * d + "pass\n"
            else:
                text = "".join("%s f%d() {\n" % (rnd.choice(["void", "function", "int"]), i) for i in range(d)) + "x;\n" + "}\n" * rnd.randint(0, d)
            out.append((lang, text))
        else:
            lang = rnd.choice(LANGS)
            out.append((lang, rnd.choice(["", "\n", "(", ")", "{", "}", "f(", "def f(", "def f()", "f()", "f(){", "x = (a => b)", "const f = (a = () => 0) => {", "\n\n\n", "\t", "é", "f(\n"])))
    return out


def corpus_cases():
    return [(l, t) for (l, _, t) in corpus.files()]


# ------------------------------------------------------------------------------------------------------------------
# size ladders, configuration variants of a text (byte order mark, no newline at all, Unicode separators)
# ------------------------------------------------------------------------------------------------------------------

# geometric ladder, ratio sqrt(10): every size dimension (characters without a newline, lines of one function, lines of a
# file of many functions, simultaneous insertions) is swept over these rungs instead of one "moderate" size
LADDER = [10, 32, 100, 316, 1000, 3162, 10 ** 4, 31623, 10 ** 5, 316228, 10 ** 6, 3162278]

BOM = "\ufeff"
# characters at which str.splitlines() / some editors break a line although the text has no "\n" there; every shipped
# lexer classifies them as white space (checked per use on the real lexer's raw stream)
SEPARATORS = ["\x0b", "\x0c", "\x1c", "\x1d", "\x1e", "\x85", "\u2028", "\u2029"]
BLANKS = ["\xa0", "\u2003", "\u3000", "\x1f"]


def rungs(lo, hi, decades_only=False):
    return [n for n in LADDER if lo <= n <= hi and (not decades_only or len(str(n).strip("0")) == 1 and str(n)[0] == "1")]


def heavy_map(fn, items, workers=12):
    """process pool with one item per task (the expensive rungs must not queue up behind each other)"""
    from concurrent.futures import ProcessPoolExecutor
    items = list(items)
    if len(items) <= 1:
        return [fn(x) for x in items]
    with ProcessPoolExecutor(max_workers=min(workers, len(items))) as ex:
        return list(ex.map(fn, items, chunksize=1))


class Heavy:
    """heavy_map that runs in the background: the tasks start now, `results()` collects them later (the caller goes on
    with the model / the small inputs in between)"""

    def __init__(self, fn, items, workers=8):
        from concurrent.futures import ProcessPoolExecutor
        self.items = list(items)
        self.ex = ProcessPoolExecutor(max_workers=max(1, min(workers, len(self.items)))) if self.items else None
        self.futs = [self.ex.submit(fn, x) for x in self.items]

    def results(self):
        try:
            return [f.result() for f in self.futs]
        finally:
            if self.ex is not None:
                self.ex.shutdown()


def chunked_map(fn, cases, workers=16):
    """fn(list of cases) -> list of results, over a process pool, order kept (scan_real.real_scan_many with a caller-supplied
    worker: lets a check evaluate its direct oracle next to the real analysis instead of serially afterwards)"""
    from concurrent.futures import ProcessPoolExecutor
    cases = list(cases)
    if len(cases) < 64:
        return fn(cases)
    k = max(8, (len(cases) + workers * 4 - 1) // (workers * 4))
    chunks = [cases[i:i + k] for i in range(0, len(cases), k)]
    with ProcessPoolExecutor(max_workers=workers) as ex:
        outs = list(ex.map(fn, chunks))
    return [x for o in outs for x in o]


def _scan_one(case):
    import scan_real
    return scan_real.real_scan(case[0], case[1])


def real_scan_heavy(cases, workers=12):
    """like scan_real.real_scan_many, one input per task, largest first"""
    order = sorted(range(len(cases)), key=lambda i: -len(cases[i][1]))
    res = heavy_map(_scan_one, [cases[i] for i in order], workers)
    out = [None] * len(cases)
    for i, r in zip(order, res):
        out[i] = r
    return out


def model_scan_heavy(reqs):
    """one model driver process per request (scan_real.model_scan_many puts neighbours into one shard)"""
    return sr.model_scan_many(reqs, shards=max(1, len(reqs)))


# ---- programs of a given size -------------------------------------------------------------------------------------

def ladder_program(desc):
    """deterministic: the program described by {"language", "kind": "single"|"many", "lines", "gen_seed"}"""
    import random
    rnd = random.Random(desc["gen_seed"])
    if desc["kind"] == "single":
        o = programs.generate(desc["language"], rnd, sweep=desc["lines"])
    else:
        o = programs.generate(desc["language"], rnd, min_lines=desc["lines"])
    text = o.text(desc.get("trailing_newline", True))
    if desc.get("sha1") not in (None, _sha1(text)):
        print("note: the program generator has changed since this description was written (text hash %s, recorded %s)" % (_sha1(text), desc["sha1"]))
    return o, text


def _sha1(text):
    import hashlib
    return hashlib.sha1(text.encode("utf-8", "surrogatepass")).hexdigest()[:12]


def ladder_programs(ctx, single, many, salt="ladder", many_python=None):
    """size ladder over the length of ONE function (`single`: body statements) and over the number of functions of a file
    (`many`: lines of a program that keeps growing by functions, classes, global code); -> [(lang, text, Out, desc)]"""
    rnd = ctx.rng(salt)
    out = []
    for lang in LANGS:
        plan = [("single", n) for n in single] + [("many", n) for n in (many_python if (lang == "Python" and many_python is not None) else many)]
        for (kind, n) in plan:
            desc = {"stream": "ladder", "language": lang, "kind": kind, "lines": n, "gen_seed": rnd.getrandbits(48)}
            o, text = ladder_program(desc)
            desc["sha1"] = _sha1(text)
            out.append((lang, text, o, desc))
    return out


# ---- one very long line -------------------------------------------------------------------------------------------

FOREIGN_OPENERS = ["<!--", "-->", "#", "--", "%", "(*", "*)", "{-", "-}", ";", "REM ", "'", "=begin", "=end", "<#", "#>", "--[[", "]]",
                   '"""', "'''", "//", "/*", "*/", "<%--", "--%>", "@", "!", "#!", "<?", "?>", "{#", "#}", "|#", "#|", "\\"]
LONG_SHAPES = ("literal", "comment", "tokens", "fn")
LONG_LAYOUTS = ("alone", "alone-newline", "second-line")


def long_line(lang, shape, n, layout):
    """a text with ONE line of at least n characters:
    literal  - a string literal of n characters followed by more code on the line
    comment  - a block comment of n characters followed by a function on the line (Python: a long literal in a call)
    tokens   - n characters of short statements
    fn       - a function whose whole body of short statements stands on the header's line
    layout: the long line alone without any newline / with a final newline / as second of three lines"""
    py = lang == "Python"
    wrap = ("class K { ", " }") if lang in ("Java", "C#") else ("", "")
    if shape == "literal":
        line = 's = "%s"; x = 1%s' % ("a" * n, "" if py else ";")
    elif shape == "comment":
        if py:
            line = 'x = g("%s", 1); y = 2  # %s' % ("b" * (n // 2), "c" * (n // 2))
        else:
            line = "/*%s*/ %svoid f(int a) { x = 1; }%s" % ("c" * n, wrap[0], wrap[1])
    elif shape == "tokens":
        line = ("x = 1; " * (n // 7 + 1)).rstrip()
    else:
        body = ("x = 1; " * (n // 7 + 1)).rstrip()
        line = ("def f(a): %s" % body) if py else "%svoid f(int a) { %s }%s" % (wrap[0], body, wrap[1])
    if layout == "alone":
        return line
    if layout == "alone-newline":
        return line + "\n"
    return ("import os\n" if py else "// first line\n") + line + "\n" + ("y = 3\n" if py else "int y;\n")


def long_text(desc):
    return (BOM if desc.get("bom") else "") + long_line(desc["language"], desc["shape"], desc["chars"], desc["layout"])


def long_lines(ctx, light, heavy, per_rung=2, salt="long", full_upto=316):
    """single-line ladder. `light`: sizes for the shapes with a handful of tokens (literal, comment) - affordable up to
    several million characters; `heavy`: sizes for the shapes whose token count grows with the size (tokens, fn).
    Up to `full_upto` characters every language x shape x layout; up to 10^4 every language x shape with a rotating
    layout; above that `per_rung` languages per (size, shape), rotating with the seed, and the three layouts rotating so
    that each occurs at every size. -> [(lang, text, desc)]"""
    import common
    s = common.seed() + ctx.rng(salt).randrange(7)
    out = []
    for shape_i, shape in enumerate(LONG_SHAPES):
        for r_i, n in enumerate(sorted(set(light if shape in ("literal", "comment") else heavy))):
            if n <= full_upto:
                combos = [(lang, lay) for lang in LANGS for lay in LONG_LAYOUTS]
            elif n <= 10 ** 4:
                combos = [(lang, LONG_LAYOUTS[(s + r_i + shape_i + j) % 3]) for j, lang in enumerate(LANGS)]
            else:
                combos = [(LANGS[(s + r_i + 2 * shape_i + 3 * j) % len(LANGS)], LONG_LAYOUTS[(s + r_i + shape_i + j) % 3]) for j in range(per_rung)]
                if per_rung >= len(LANGS):
                    combos = [(lang, LONG_LAYOUTS[(s + r_i + shape_i + j) % 3]) for j, lang in enumerate(LANGS)]
            for c_i, (lang, lay) in enumerate(combos):
                desc = {"stream": "long-line", "language": lang, "shape": shape, "chars": n, "layout": lay}
                if (s + r_i + shape_i + c_i) % 4 == 0:
                    desc["bom"] = True          # configuration variant: the file was saved with a UTF-8 signature
                out.append((lang, long_text(desc), desc))
    return out


def bisect_size(fails, lo, hi, budget_s=8.0):
    """smallest n in (lo, hi] with fails(n), assuming fails(hi) and a monotone failure; time-boxed"""
    import time
    t0 = time.time()
    while hi - lo > 1 and time.time() - t0 < budget_s:
        mid = (lo + hi) // 2
        try:
            bad = fails(mid)
        except Exception:
            bad = True
        if bad:
            hi = mid
        else:
            lo = mid
    return hi


# ---- variants of a text that are legal inputs under every property about texts ------------------------------------

def one_line(o):
    """a canonical brace-language program rendered on ONE line without any newline: the code segments of its lines
    joined by blanks (comments, which would swallow the rest of the line, and preprocessor lines left out); None for
    Python (its block structure needs the lines) and for programs with a token that spans lines"""
    if o.lang == "Python":
        return None
    parts = []
    for segs in o.lines:
        t = "".join(text for (text, owner, code) in segs if code).strip()
        if t.startswith("#") or not t:
            continue
        parts.append(t)
    return " ".join(parts)


def with_bom(text, expected):
    """a program behind a byte order mark and its expectation: U+FEFF is one more character on line 1 (the lexers report
    it as an Error token in front of everything: never part of a header or a body)"""
    return BOM + text, [(n, sl, sc + (1 if sl == 1 else 0), el, ec + (1 if el == 1 else 0), ln) for (n, sl, sc, el, ec, ln) in expected]


def collapse_newlines(text):
    """the same characters on ONE line without any newline (lexing takes its no-newline path)"""
    return text.replace("\n", " ")


def decorate(ctx, cases, share=0.15, salt="decor", limit=20000):
    """for a share of the (lang, text) cases: the text behind a byte order mark (what Scanner._read_file returns for a
    file saved with a UTF-8 signature), the text on one line without any newline, both, and the text with one blank
    replaced by a Unicode separator / exotic blank. -> new (lang, text) cases"""
    rnd = ctx.rng(salt)
    out = []
    for (lang, text) in cases:
        if not text or len(text) > limit or rnd.random() >= share:
            continue
        k = rnd.random()
        if k < 0.3:
            out.append((lang, BOM + text))
        elif k < 0.5:
            out.append((lang, collapse_newlines(text)))
        elif k < 0.75:
            out.append((lang, BOM + collapse_newlines(text)))
        elif k < 0.85:
            out.append((lang, BOM + text.rstrip("\n")))
        else:
            spots = [i for i, c in enumerate(text) if c == " "]
            if spots:
                i = rnd.choice(spots)
                out.append((lang, text[:i] + rnd.choice(SEPARATORS + BLANKS) + text[i + 1:]))
    return out


# ------------------------------------------------------------------------------------------------------------------
# round 5: comment texts in the syntax of MANY languages, names that are keywords elsewhere, the column ladder,
# time-limited analysis
# ------------------------------------------------------------------------------------------------------------------

# comment openers / closers of languages OTHER than the one being lexed (FOREIGN_OPENERS): legal anywhere in a malformed text
for _fam in LEX_ALPHABET.values():
    _fam.extend(x for x in FOREIGN_OPENERS if x not in _fam)

SIGILS = ["@", "$", "#", "%", "&", "!", "?", "~", "^", ":", "::", "->", "=>", ":=", "<-", "|", "`", "@@", "$$", "\\", "-", "--", "+"]
BRACKETS = [("[", "]"), ("(", ")"), ("{", "}"), ("<", ">"), ("[[", "]]"), ("{{", "}}"), ("<%", "%>"), ("${", "}"), ("@[", "]"), ("«", "»")]
RULERS = "-=*#~_.+/"
_kw_cache = {}


def _lexer_words(cls):
    """identifier-like words in the token tables of a Pygments RegexLexer class (keywords, builtins, directives such as
    `@interface`): from `words(...)` rules and from the alternations of plain patterns"""
    import re
    from pygments.lexer import words as pyg_words
    out = set()
    for k in cls.__mro__:
        toks = k.__dict__.get("tokens")
        if not isinstance(toks, dict):
            continue
        for rules in toks.values():
            for rule in rules:
                if not isinstance(rule, tuple) or not rule:
                    continue
                pat = rule[0]
                if isinstance(pat, pyg_words):
                    out.update(w for w in pat.words if isinstance(w, str))
                    if isinstance(pat.prefix, str) and pat.prefix in ("@", "#", "$", "%"):
                        out.update(pat.prefix + w for w in pat.words if isinstance(w, str))
                elif isinstance(pat, str) and "|" in pat:
                    out.update(re.findall(r"[@#$]?[A-Za-z_][A-Za-z_]{1,15}", pat))
    return {w for w in out if 2 <= len(w) <= 18 and "\n" not in w}


def foreign_words():
    """words of the languages whose lexers Pygments could pick for a file name of a supported language (the supported
    ones and every competitor for the same file-name pattern: Objective-C for `*.h`, ...)"""
    if "foreign" not in _kw_cache:
        from pygments.lexers import find_lexer_class
        from gen import names as gnames
        lexers = set(gnames.supported_lexer_names())
        for (_, _, others) in gnames.language_file_names():
            lexers.update(others)
        ws = set()
        for n in sorted(lexers):
            cls = find_lexer_class(n)
            if cls is not None:
                ws |= _lexer_words(cls)
        _kw_cache["foreign"] = sorted(ws)
    return _kw_cache["foreign"]


def dictionary_words():
    """(novel, all) string literals of the code under check usable inside a comment; regular expressions of the source
    contribute their literal runs"""
    import re
    from gen import srcdict
    novel = list(srcdict.words(novel_only=True))
    for rx in srcdict.novel_regexes():
        novel += re.findall(r"[A-Za-z][A-Za-z-]{2,}", rx)
    return novel, srcdict.words()


def regex_pump_texts(rnd, k=40):
    """comment texts aimed at the regular expressions of the code under check: literal runs of each expression mixed with
    long runs of each of its characters (srcdict.regex_pumps), novel expressions first.  Empty while the source has no
    expression that is applied to file content (on the pinned tree: none)."""
    import re
    from gen import srcdict
    out = []
    for rx in srcdict.novel_regexes():
        lits = re.findall(r"[A-Za-z][A-Za-z-]{2,}", rx) or ["x"]
        pumps = srcdict.regex_pumps(rx, reps=(26, 34, 60))
        for _ in range(k):
            parts = [rnd.choice(pumps + lits) for _ in range(rnd.randint(2, 4))]
            if not any(p in lits for p in parts):
                parts.insert(rnd.randrange(len(parts) + 1), rnd.choice(lits))
            out.append(rnd.choice(["", " "]).join(parts) if rnd.random() < 0.2 else " ".join(parts))
    return out


def comment_text(rnd, forbid=()):
    """a comment text put together from the syntax of many languages: sigil-prefixed words (`@end`, `$x`, `#pragma`),
    quoted and sigil-quoted strings (`@"none"`), bracketed word groups (`[section two]`, `{{ x }}`, `<T>`), `a::b`,
    foreign comment openers, rulers (runs of - = * ... on a geometric ladder of lengths), literals from the source
    dictionary (novel ones with a high weight).  Never contains a line end, never ends with a backslash; `forbid`:
    substrings that must not occur (`*/` inside a block comment)."""
    fw = foreign_words()
    novel, allw = dictionary_words()

    def word():
        r = rnd.random()
        if novel and r < 0.3:
            return rnd.choice(novel)
        if r < 0.45 and allw:
            return rnd.choice(allw)
        if r < 0.8:
            return rnd.choice(fw)
        return rnd.choice(["note", "two", "section", "x", "fix", "me", "TODO", "see", "length", "out", "none", "é", "nocl"])
    parts = []
    for _ in range(rnd.randint(1, 4)):
        k = rnd.random()
        if k < 0.2:
            parts.append(word())
        elif k < 0.35:
            parts.append(rnd.choice(SIGILS) + word())
        elif k < 0.45:
            q = rnd.choice(['"', "'", "`"])
            parts.append(rnd.choice(SIGILS + ["", ""]) + q + word() + q)
        elif k < 0.65:
            a, b = rnd.choice(BRACKETS)
            inner = rnd.choice([" ", " ", ": ", ", ", ":", "="]).join(word() for _ in range(rnd.randint(1, 3)))
            parts.append(a + rnd.choice(["", " "]) + inner + rnd.choice(["", " "]) + b)
        elif k < 0.75:
            parts.append(word() + rnd.choice(["::", ":", ".", "->", "="]) + word())
        elif k < 0.85:
            parts.append(rnd.choice(FOREIGN_OPENERS) + rnd.choice(["", " "]) + word())
        else:
            parts.append(rnd.choice(RULERS) * rnd.choice([3, 10, 32, 100]))
    text = " ".join(parts).replace("\n", " ").replace("\r", " ")
    for f in forbid:
        text = text.replace(f, " ")
    return text.rstrip("\\").rstrip() or "note"


def lookalike_texts(file_name, rnd, samples=1500):
    """comment texts that make the file look like ANOTHER language to Pygments: for a file name that several lexers claim
    (`*.h`: C and Objective-C, ...), the `comment_text` samples that a competing lexer's own content heuristic
    (`analyse_text`, a Pygments function) rates above the rating of the lexer the name resolves to.  A directed draw from
    the same legal input space (any comment text is legal); empty for names with a single claimant."""
    key = ("lookalike", file_name.rsplit(".", 1)[-1] if "." in file_name else file_name)
    if key not in _kw_cache:
        import fnmatch
        from pygments.lexers import get_all_lexers, find_lexer_class, get_lexer_for_filename
        own = type(get_lexer_for_filename(file_name))
        rivals = [find_lexer_class(n) for (n, _, pats, _) in get_all_lexers() if n != own.name and any(fnmatch.fnmatch(file_name, q) for q in pats)]
        out = []
        if rivals:
            for _ in range(samples):
                t = comment_text(rnd, forbid=("*/",))
                try:
                    if max(r.analyse_text(t) for r in rivals) > own.analyse_text(t):
                        out.append(t)
                except Exception:
                    pass
        _kw_cache[key] = out
    return _kw_cache[key]


def starts_with_marker(text):
    """does a comment BODY (the text behind its leader) begin with the suppression marker, as the property reads it"""
    return text.lstrip()[:4].lower() == "nocl"


def foreign_comment(lang, rnd, trailing=False):
    """a whole comment in a style of `lang` around `comment_text`; trailing comments never begin with the marker"""
    if lang == "Python":
        body = comment_text(rnd)
        lead = rnd.choice(["# ", "#", "#: ", "## "])
    elif rnd.random() < 0.5:
        body = comment_text(rnd)
        lead = rnd.choice(["// ", "//", "/// "])
    else:
        body = comment_text(rnd, forbid=("*/",))
        if trailing and starts_with_marker(body):
            body = "x " + body
        return rnd.choice(["/* ", "/*", "/** "]) + body + " */"
    if trailing and starts_with_marker(body):
        body = "x " + body
    return lead + body


# ---- function names that are identifiers here and keywords elsewhere ------------------------------------------------

_NAME_CONTEXTS = {
    "C": ["int %s(int a) {\n}\n", "static struct s *%s(int a)\n{\n}\n"],
    "C++": ["int %s(int a) {\n}\n", "class K {\n  virtual void %s(int a) {\n  }\n};\n", "template <typename T> T %s(int a) {\n}\n"],
    "C#": ["class K {\n  public int %s(int a) {\n  }\n}\n", "class K {\n  public async Task %s(int a) {\n  }\n}\n"],
    "Java": ["class K {\n  public int %s(int a) {\n  }\n}\n", "class K {\n  void %s(int a) throws E {\n  }\n}\n"],
    "JavaScript": ["function %s(a) {\n}\n", "class K {\n  %s(a) {\n  }\n}\n", "const %s = (a) => {\n};\n", "class K {\n  static %s(a) {\n  }\n}\n", "async function %s(a) {\n}\n"],
    "TypeScript": ["function %s(a: number): void {\n}\n", "class K {\n  %s(a: number) {\n  }\n}\n", "const %s = (a: number) => {\n};\n", "class K {\n  async %s(a: number): string {\n  }\n}\n"],
    "Python": ["def %s(a):\n    pass\n", "class K:\n    async def %s(self):\n        pass\n"],
}


def is_identifier_in(lang, word):
    """is `word` ONE identifier token of the language's Pygments lexer in every function-header context of the generator"""
    from pygments.token import Name
    key = ("ident", lang, word)
    if key not in _kw_cache:
        ok = word.isidentifier()
        for ctx_text in _NAME_CONTEXTS[lang] if ok else []:
            text = ctx_text % word
            at = ctx_text.index("%s")
            hit = [(tt, v) for (off, tt, v) in sr.lexer_for(lang).get_tokens_unprocessed(text) if off == at]
            if not (hit and hit[0][1] == word and hit[0][0] in Name):
                ok = False
                break
        _kw_cache[key] = ok
    return _kw_cache[key]


def cross_names(lang):
    """function names for programs in `lang`: words from the token tables of the seven supported lexers that are an
    identifier in `lang` and NOT an identifier for at least one other supported lexer (`type`, `number` in JavaScript vs
    TypeScript; `new`, `delete` in C vs C++, ...).  Derived from Pygments alone."""
    key = ("cross", lang)
    if key not in _kw_cache:
        from pygments.lexers import find_lexer_class
        cand = set()
        for l2 in LANGS:
            cand |= {w for w in _lexer_words(type(sr.lexer_for(l2))) if w.isidentifier() and w.isascii()}
        out = []
        for w in sorted(cand):
            if is_identifier_in(lang, w) and any(not is_identifier_in(l2, w) for l2 in LANGS if l2 != lang):
                out.append(w)
        _kw_cache[key] = out
    return _kw_cache[key]


def reverse_cross_names(lang):
    """words that are NOT an identifier for the lexer of `lang` (keywords, builtins of the language) and are an
    identifier for at least one other supported lexer - `new`, `delete`, `requires` for C++ (identifiers in C) ..."""
    key = ("rcross", lang)
    if key not in _kw_cache:
        _kw_cache[key] = sorted({w for l2 in LANGS if l2 != lang for w in cross_names(l2) if not is_identifier_in(lang, w)})
    return _kw_cache[key]


def names_are_identifiers(lang, o, text=None):
    """every function of the generated program is named by an identifier token of the language's lexer on its name line
    (the canonical fragment speaks of NAMED functions; a pool word can be a keyword in a context the pool test missed)"""
    from bisect import bisect_right
    from pygments.token import Name
    text = text if text is not None else o.text()
    st = [0]
    for ln in text.split("\n")[:-1]:
        st.append(st[-1] + len(ln) + 1)
    on_line = {}
    for (off, tt, v) in sr.lexer_for(lang).get_tokens_unprocessed(text):
        if tt in Name:
            on_line.setdefault(bisect_right(st, off), set()).add(v)
    return all(f.markable is None or f.name in on_line.get(f.markable, ()) for f in o.funcs)


def named_program(lang, rnd, tries=6, pool_size=4, **kw):
    """programs.generate with a name pool (cross-language keywords + two plain names, drawn with replacement: duplicate
    names and overloads occur), re-drawn until every name is an identifier token where it stands"""
    pool = cross_names(lang)
    share = kw.pop("name_share", 0.6)
    for _ in range(tries):
        names = rnd.sample(pool, min(len(pool), pool_size)) + ["run", "get"]
        o = programs.generate(lang, rnd, names=names, name_share=share, **kw)
        if names_are_identifiers(lang, o):
            return o
    return programs.generate(lang, rnd, **kw)


# ---- column ladder: a token pushed beyond column n -------------------------------------------------------------------

WIDE_KINDS = ("comment", "blanks")


def wide_program(desc):
    """deterministic: the brace-language program described by {"language", "gen_seed", "chars", "kind"} with ONE of its code
    lines pushed right by `chars` characters (a block comment `/*ccc...*/ ` or blanks in front of the line's code);
    -> (text, expectation per token, 1-based number of the widened line) or None (Python: indentation is syntax)"""
    import random
    lang = desc["language"]
    if lang == "Python":
        return None
    rnd = random.Random(desc["gen_seed"])
    o = programs.generate(lang, rnd, size=rnd.randint(1, 3))
    skip = set()
    if lang in ("C", "C++"):
        for f in o.funcs:
            skip.update(f.extra_lines)       # inside a C / C++ parameter list the lexers' header rule decides (KF2)
    headers = {f.start[0] for f in o.funcs if f.start}
    ok = []
    for i, segs in enumerate(o.lines, start=1):
        code = "".join(t for (t, _, c) in segs if c).strip()
        if code and not code.startswith("#") and i not in skip:
            ok.append(i)
    if not ok:
        return None
    hs = [i for i in ok if i in headers]
    # lines that open a block shortly before another line opens one (the order of neighbouring blocks is at stake)
    opens = {i for i in ok if "{" in "".join(t for (t, _, c) in o.lines[i - 1] if c)}
    near = [i for i in sorted(opens) if (i + 1 in opens or i + 2 in opens)]
    k = rnd.random()
    ln = rnd.choice(near) if near and k < 0.5 else (rnd.choice(hs) if hs and k < 0.85 else rnd.choice(ok))
    n = desc["chars"]
    prefix = ("/*" + "c" * max(0, n - 5) + "*/ ") if desc.get("kind", "comment") == "comment" else " " * n
    lines = ["".join(seg[0] for seg in l) for l in o.lines]
    lines[ln - 1] = prefix + lines[ln - 1]
    d = len(prefix)
    exp = [(nm, sl, sc + (d if sl == ln else 0), el, ec + (d if el == ln else 0), v) for (nm, sl, sc, el, ec, v) in o.expected(programs.NESTING[lang])]
    return "\n".join(lines) + "\n", exp, ln


def wide_descs(ctx, sizes, per_size=1, salt="wide"):
    """column ladder: for every size and every brace language `per_size` programs -> [desc]"""
    rnd = ctx.rng(salt)
    out = []
    for n in sorted(set(sizes)):
        for lang in LANGS:
            if lang == "Python":
                continue
            for k in range(per_size):
                out.append({"stream": "wide", "language": lang, "gen_seed": rnd.getrandbits(48), "chars": n, "kind": WIDE_KINDS[(k + n) % 2] if per_size > 1 else rnd.choice(WIDE_KINDS)})
    return out


def column_rungs(ctx, quick=(100, 1000, 10 ** 4, 10 ** 5), hi=2 * 10 ** 5):
    """column ladder sizes: decades (thorough: half decades) + n-1, n, n+1, 2n around every integer the current source has
    and the pinned source has not"""
    from gen import srcdict
    return sorted(set(ctx.pick(list(quick), rungs(100, hi))) | set(srcdict.novel_rungs(100, hi)))


# ---- analysis under a time limit -----------------------------------------------------------------------------------------

class _Hang(BaseException):
    pass


def _guarded_work(args):
    import signal
    import scan_real
    chunk, limit = args

    def on_alarm(sig, frm):
        raise _Hang()
    signal.signal(signal.SIGALRM, on_alarm)
    out = []
    for (lang, code) in chunk:
        try:
            signal.setitimer(signal.ITIMER_REAL, limit)
            try:
                r = scan_real.real_scan(lang, code)
            finally:
                signal.setitimer(signal.ITIMER_REAL, 0)
        except _Hang:
            r = "hang %g" % limit
        out.append(r)
    return out


def guarded_scan_many(cases, limit, workers=16):
    """scan_real.real_scan_many under a wall-clock limit per input: -> replies, "hang <limit>" where the analysis of ONE
    input did not come back within `limit` seconds (interval timer in the worker; a worker that does not even react to the
    timer is killed after its whole chunk's allowance and its inputs are reported as "hang")"""
    from concurrent.futures import ProcessPoolExecutor, TimeoutError as FutTimeout
    cases = list(cases)
    if not cases:
        return []
    k = max(1, min(64, (len(cases) + workers * 4 - 1) // (workers * 4)))
    chunks = [cases[i:i + k] for i in range(0, len(cases), k)]
    ex = ProcessPoolExecutor(max_workers=min(workers, len(chunks)))
    out = []
    try:
        futs = [ex.submit(_guarded_work, (c, limit)) for c in chunks]
        for c, f in zip(chunks, futs):
            try:
                out += f.result(timeout=limit * len(c) + 120)
            except FutTimeout:
                out += ["hang %g" % limit] * len(c)
                for p in list(getattr(ex, "_processes", {}).values()):
                    p.kill()
            except Exception as e:  # noqa   (a killed pool)
                out += ["hang %g (worker lost: %s)" % (limit, type(e).__name__)] * len(c)
    finally:
        ex.shutdown(wait=False, cancel_futures=True)
    return out


# ---- file-size ladder: a file of exactly n characters whose functions consist of tokens that span several lines --------

# per language: the multi-line tokens a body line can hold (each written at the body's indentation `%(i)s`; %(k)d numbers it)
_ML_FORMS = {
    "Python": ['%(i)s"""Describe resource %(k)d.\n\n%(i)sArgs:\n%(i)s    a: the first\n%(i)s    b: the second\n%(fill)s%(i)s"""\n',
               "%(i)sx = '''first %(k)d\n%(fill)ssecond'''\n",
               '%(i)sy = f(a, """one\n%(fill)stwo""", b)\n'],
    "C": ['%(i)sconst char *s%(k)d = "first \\\n%(fill)ssecond";\n', '%(i)sx = a + /* spread\n%(fill)s%(i)s   over lines */ b;\n'],
    "C++": ['%(i)sconst char *s%(k)d = R"(first\n%(fill)ssecond)";\n', '%(i)sx = a + /* spread\n%(fill)s%(i)s   over lines */ b;\n'],
    "C#": ['%(i)svar s%(k)d = @"first\n%(fill)ssecond";\n', '%(i)sx = a + /* spread\n%(fill)s%(i)s   over lines */ b;\n'],
    "Java": ['%(i)sString s%(k)d = """\n%(fill)s%(i)s    second""";\n', '%(i)sx = a + /* spread\n%(fill)s%(i)s   over lines */ b;\n'],
    "JavaScript": ['%(i)sconst s%(k)d = `first\n%(fill)ssecond ${a}`;\n', '%(i)sx = a + /* spread\n%(fill)s%(i)s   over lines */ b;\n'],
    "TypeScript": ['%(i)sconst s%(k)d: string = `first\n%(fill)ssecond`;\n', '%(i)sx = a + /* spread\n%(fill)s%(i)s   over lines */ b;\n'],
}
_ML_HEAD = {"Python": "%(i)sdef describe_%(k)d(a, b):\n", "C": "int describe_%(k)d(int a, int b) {\n", "C++": "int describe_%(k)d(int a, int b) {\n",
            "C#": "%(i)sint Describe%(k)d(int a, int b) {\n", "Java": "%(i)sint describe%(k)d(int a, int b) {\n",
            "JavaScript": "function describe%(k)d(a, b) {\n", "TypeScript": "function describe%(k)d(a: number, b: number): number {\n"}
_ML_WRAP = {"C#": ("class Client {\n", "}\n", "  "), "Java": ("class Client {\n", "}\n", "  "), "Python": ("class Client:\n", "", "    ")}


def multiline_text(desc):
    """desc {language, chars, gen_seed, ...} -> a program of EXACTLY `chars` characters made of functions whose bodies are
    tokens that span several lines (doc strings, multi-line string literals, template / verbatim / raw strings, block
    comments inside statements): wherever such a file is cut, the cut most probably falls inside a token"""
    import random
    lang, n = desc["language"], desc["chars"]
    rnd = random.Random(desc["gen_seed"])
    wrap = _ML_WRAP.get(lang) if rnd.random() < 0.5 or lang in ("C#", "Java") else None
    ind = wrap[2] if wrap else ""
    body_ind = ind + ("    " if lang == "Python" else "  ")
    parts = [wrap[0]] if wrap else []
    size = len(parts[0]) if parts else 0
    closing = wrap[1] if wrap else ""
    k = 0
    while True:
        k += 1
        fn = [_ML_HEAD[lang] % {"i": ind, "k": k}]
        for _ in range(rnd.randint(1, 3)):
            form = rnd.choice(_ML_FORMS[lang])
            fill = "".join("%sline %d of the text\n" % (body_ind, j) for j in range(rnd.choice([0, 2, 10, 40])))
            fn.append(form % {"i": body_ind, "k": k, "fill": fill})
        fn.append("%sreturn a\n" % body_ind if lang == "Python" else "%sreturn a;\n%s}\n" % (body_ind, ind))
        fn = "".join(fn)
        if size + len(fn) + len(closing) > n and k > 1:
            break
        parts.append(fn); size += len(fn)
        if size + len(closing) >= n:
            break
    text = "".join(parts) + closing
    if len(text) < n:
        # pad INSIDE the last multi-line token (in front of its last line), so that the file ends with code
        pad = n - len(text)
        at = text.rfind("\n", 0, text.rfind("\n", 0, len(text) - len(closing) - (len(body_ind) + 12))) + 1
        filler = ("x" * 78 + "\n") * (pad // 79) + ("y" * (pad % 79 - 1) + "\n" if pad % 79 else "")
        text = text[:at] + filler + text[at:]
    return text[:n] if len(text) > n else text


def file_size_rungs(ctx, quick=(1000, 10 ** 4, 10 ** 5), thorough_hi=3162278, novel_hi=4 * 10 ** 6):
    """file sizes in characters: geometric rungs plus n-1, n, n+1, 2n for every integer literal new in the source"""
    from gen import srcdict
    return sorted(set(ctx.pick(list(quick), rungs(1000, thorough_hi))) | set(srcdict.novel_rungs(1000, novel_hi)))


# ---- ties: files with several functions of EQUAL length above the reporting thresholds -------------------------------

_TIE = {"Python": ("", "def %s(a):\n", "    x = %d\n", "", ""), "C": ("", "int %s(int a) {\n", "  x = %d;\n", "}\n", ""), "C++": ("", "int %s(int a) {\n", "  x = %d;\n", "}\n", ""),
        "C#": ("class K {\n", "  int %s(int a) {\n", "    x = %d;\n", "  }\n", "}\n"), "Java": ("class K {\n", "  int %s(int a) {\n", "    x = %d;\n", "  }\n", "}\n"),
        "JavaScript": ("", "function %s(a) {\n", "  x = %d;\n", "}\n", ""), "TypeScript": ("", "function %s(a: number): number {\n", "  x = %d;\n", "}\n", "")}


def tie_program(lang, names_lengths):
    """[(name, length)] -> (text, gaps): one function per entry with exactly `length` code lines, in the given order;
    gaps = the line counts after which whole lines can be inserted between the functions (0 = above everything)"""
    pre, head, stmt, close, post = _TIE[lang]
    lines = [pre] if pre else []
    gaps = [0] + ([1] if pre else [])
    for (name, n) in names_lengths:
        body = n - 1 - (1 if close else 0)
        lines.append(head % name)
        lines += [stmt % i for i in range(max(1, body))]
        if close:
            lines.append(close)
        gaps.append(len(lines))
    if post:
        lines.append(post)
    return "".join(lines), gaps


# ------------------------------------------------------------------------------------------------------------------
# round 7: FILE contents that are not in Unicode Normalization Form C (decomposed letters, singletons)
# ------------------------------------------------------------------------------------------------------------------

COMBINING_MARKS = ["\u0301", "\u0308", "\u0300", "\u0302", "\u0303", "\u030a", "\u0327"]
NFC_SINGLETONS = ["\u212b", "\u2126", "\u212a"]          # ANGSTROM SIGN, OHM SIGN, KELVIN SIGN: NFC maps them to another character
_COMPOSING = {"\u0301": "aeiouyAEIOUYcnszCNSZ", "\u0308": "aeiouyAEIOUY", "\u0300": "aeiouAEIOU", "\u0302": "aeiouAEIOUcghjsw",
              "\u0303": "anoANO", "\u030a": "auAU", "\u0327": "cCsStT"}


def non_nfc_variant(word, rnd):
    """`word` with a character sequence that is not in Normalization Form C: a combining mark behind a letter it composes
    with (NFC is one character shorter), a decomposed letter appended, or a singleton (NFC has the same length, another
    character)"""
    import unicodedata
    for _ in range(8):
        k = rnd.random()
        mark = rnd.choice(COMBINING_MARKS)
        spots = [i for i, c in enumerate(word) if c in _COMPOSING[mark]]
        if k < 0.55 and spots:
            i = rnd.choice(spots)
            new = word[:i + 1] + mark + word[i + 1:]
        elif k < 0.75:
            new = word + rnd.choice(_COMPOSING[mark]) + mark
        else:
            i = rnd.randint(1, len(word))
            new = word[:i] + rnd.choice(NFC_SINGLETONS) + word[i:]
        if unicodedata.normalize("NFC", new) != new:
            return new
    return word + "e\u0301"


_WORD_RE = None


def _plain_name(lang, word):
    """the language's lexer reads the word standing alone as a plain name (not a keyword, type or builtin)"""
    from pygments.token import Name
    key = ("plain", lang, word)
    if key not in _kw_cache:
        toks = [(tt, v) for (_, tt, v) in sr.lexer_for(lang).get_tokens_unprocessed(word + " = 1\n") if v.strip()]
        _kw_cache[key] = bool(toks) and toks[0][1] == word and toks[0][0] in Name and toks[0][0] not in Name.Builtin
    return _kw_cache[key]


def _own_words(lang):
    """the words in the token tables of the language's own lexer (keywords, builtin types): left as they are"""
    key = ("own", lang)
    if key not in _kw_cache:
        _kw_cache[key] = _lexer_words(type(sr.lexer_for(lang))) | {"if", "in", "is", "or", "as", "do"}
    return _kw_cache[key]


def denormalise(lang, text, rnd, share=0.5, expected=None, only=None):
    """the same program with a share of its words - identifiers of the language wherever they stand: function names,
    parameters, variables, words inside string literals and comments - spelled with characters that are NOT in
    Normalization Form C (every occurrence of a chosen word gets the same spelling, so the program keeps its shape; a
    spelling is used only if the language's Pygments lexer reads it as ONE identifier token in the function-header
    contexts of the generator). -> (text, expected measurements moved to the new columns and names, {word: spelling});
    `only`: restrict the choice to these words"""
    global _WORD_RE
    import re
    if _WORD_RE is None:
        _WORD_RE = re.compile(r"[A-Za-z_][A-Za-z0-9_]*")
    chosen = {}
    table = _own_words(lang)
    for w in sorted(set(_WORD_RE.findall(text))):
        if (only is not None and w not in only) or rnd.random() >= share or w in table or "nocl" in w.lower() or not _plain_name(lang, w) or not is_identifier_in(lang, w):
            continue
        v = non_nfc_variant(w, rnd)
        if is_identifier_in(lang, v):
            chosen[w] = v
    if not chosen:
        return text, expected, {}
    shifts = []          # per line: [(old end index of a replaced word, growth)]
    lines = []
    for ln in text.split("\n"):
        sh = []

        def rep(m, sh=sh):
            v = chosen.get(m.group(0))
            if v is None:
                return m.group(0)
            sh.append((m.end(), len(v) - len(m.group(0))))
            return v
        lines.append(_WORD_RE.sub(rep, ln))
        shifts.append(sh)

    def col(line, c):
        return c + sum(d for (e, d) in shifts[line - 1] if e <= c - 1) if 1 <= line <= len(shifts) else c
    if expected is not None:
        expected = [(_WORD_RE.sub(lambda m: chosen.get(m.group(0), m.group(0)), n), sl, col(sl, sc), el, col(el, ec), k) for (n, sl, sc, el, ec, k) in expected]
    return "\n".join(lines), expected, chosen


def denormalise_literals(lang, text, rnd, p=0.08):
    """the same text with combining marks behind letters they compose with INSIDE the string literals and comments the
    language's lexer sees (decomposed accented letters as macOS tools and copy / paste produce them): whatever the lexer
    thinks of such characters in identifiers, every language admits them there"""
    from pygments.token import Comment, String
    out = []
    for (off, tt, val) in sr.lexer_for(lang).get_tokens_unprocessed(text):
        if (tt in String or tt in Comment) and "\\" not in val:
            buf = []
            for c in val:
                buf.append(c)
                if c.isalpha() and c.isascii() and rnd.random() < p:
                    marks = [m for m in COMBINING_MARKS if c in _COMPOSING[m]]
                    buf.append(rnd.choice(marks) if marks else rnd.choice(NFC_SINGLETONS))
            val = "".join(buf)
        out.append(val)
    return "".join(out)
