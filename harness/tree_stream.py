"""Correspondence stream for `Props/C01text.lean`: program FORESTS -> the Lean driver's `tree`
operation (text, raw stream, flags, report read off the TREE) -> the REAL pipeline on that text.

For every forest:
  (a) the real lexer's kept tokens (kind, value, line, column) must be the forest's tokens as
      rendered - otherwise the forest's vocabulary is wrong: `lexer_mismatch` (never a violation);
  (b) the five flags of the reply (wfCore, noAdj, allCode, Spaced, discovery) must all be true, the
      returned text must be the text rendered in Python and the returned raw stream must tile it -
      otherwise `generator_bug`;
  (c) the measurements of the real `scan_file(lex(text))` must be the driver's tree report:
      a difference is an `oracle_failure` (input = language + text, observed, required).

Usage:  /venv/bin/python tree_stream.py [-n 2400] [--seed 0] [--driver PATH] [--json out.json]
"""
import argparse
import json
import os
import random
import subprocess
import sys

HERE = os.path.dirname(os.path.abspath(__file__))
sys.path.insert(0, HERE)
import common  # noqa: E402  (puts VERIF_REPO or /repo on sys.path, sets the guard variable)
import scan_real as sr  # noqa: E402
from gen import trees  # noqa: E402

DEFAULT_DRIVER = common.DRIVER
FLAGS = ("wfCore", "noAdj", "allCode", "Spaced", "discovery")


def run_driver(driver, lines, shards=8):
    from concurrent.futures import ThreadPoolExecutor
    if not lines:
        return []

    def one(part):
        p = subprocess.run([driver], input="\n".join(part) + "\n", capture_output=True, text=True)
        out = p.stdout.splitlines()
        if p.returncode != 0 or len(out) != len(part):
            out = out + ["model-crash rc=%s %s" % (p.returncode, p.stderr[-200:].replace("\n", " "))] * (len(part) - len(out))
        return out
    k = max(1, (len(lines) + shards - 1) // shards)
    parts = [lines[i:i + k] for i in range(0, len(lines), k)]
    with ThreadPoolExecutor(max_workers=shards) as ex:
        outs = list(ex.map(one, parts))
    return [x for o in outs for x in o]


def decode_tree(reply):
    """'ok f*5 <text> <nraw> raw* <k> meas*' -> dict, or None"""
    ws = reply.split()
    if not ws or ws[0] != "ok":
        return None
    i = 1
    flags = [w == "1" for w in ws[i:i + 5]]; i += 5

    def rstr(i):
        n = int(ws[i]); i += 1
        return "".join(chr(int(x)) for x in ws[i:i + n]), i + n
    text, i = rstr(i)
    nraw = int(ws[i]); i += 1
    raw = []
    for _ in range(nraw):
        off, kind, ty = int(ws[i]), int(ws[i + 1]), int(ws[i + 2]); i += 3
        val, i = rstr(i)
        raw.append((off, kind, ty, val))
    k = int(ws[i]); i += 1
    ms = []
    for _ in range(k):
        name, i = rstr(i)
        sl, sc, el, ec, ln = map(int, ws[i:i + 5]); i += 5
        ms.append((name, sl, sc, el, ec, ln))
    assert i == len(ws), "trailing words in the reply"
    return {"flags": dict(zip(FLAGS, flags)), "text": text, "raw": raw, "report": ms}


def real_tokens(lang, text):
    """kept tokens of the real `lex` (filter_comments=False, as `_analyze_file`): (kind, value, line, column)"""
    from codelimit.common.lexer_utils import lex
    return [(sr.kind_of(t.token_type), t.value, t.location.line, t.location.column) for t in lex(sr.lexer_for(lang), text, False)]


def tiles(text, raw):
    pos = 0
    for (off, _k, _t, val) in raw:
        if off != pos or text[off:off + len(val)] != val or not val:
            return False
        pos = off + len(val)
    return pos == len(text)


def gen_cases(rnd, n, langs=trees.BRACE, sweep_upto=0):
    cases = []
    for i in range(n):
        lang = langs[i % len(langs)]
        nodes, ts = trees.generate(lang, rnd)
        cases.append((lang, nodes, ts))
    for lang in langs:
        for k in range(1, sweep_upto + 1):
            nodes, ts = trees.generate(lang, rnd, sweep=k)
            cases.append((lang, nodes, ts))
    return cases


def correspond(rnd, n, driver=DEFAULT_DRIVER, langs=trees.BRACE, sweep_upto=0, keep=50):
    cases = gen_cases(rnd, n, langs, sweep_upto)
    reqs = [trees.tree_request(lang, nodes) for (lang, nodes, _) in cases]
    replies = run_driver(driver, reqs)
    # does the forest lie in the tree-level canonical fragment (Spec/ProgTreeCanon.lean), to which the
    # UNCONDITIONAL end-to-end theorems of Props/C01full.lean apply?
    canon = [r == "ok 1" for r in run_driver(driver, ["canon" + q[len("tree"):] for q in reqs])]
    lexer_mismatch, generator_bug, fails, model_errors = [], [], [], []
    counts = {"lexer_mismatch": 0, "generator_bug": 0, "oracle_failures": 0, "model_errors": 0, "compared": 0,
              "in_canonical_fragment_C01full": sum(canon)}
    nontrivial = set()
    dist = {"functions": 0, "max_depth": 0, "max_len": 0, "tokens": 0, "max_tokens": 0, "lines": 0,
            "forests_with_nested_functions": 0, "per_language": {}, "functions_per_language": {}}
    samples = []
    for (lang, nodes, ts), reply in zip(cases, replies):
        text_py, located = trees.render(ts)
        d = None
        try:
            d = decode_tree(reply)
        except Exception as e:  # noqa
            reply = "undecodable (%s): %s" % (e, reply[:200])
        if d is None:
            counts["model_errors"] += 1
            model_errors.append({"input": {"language": lang, "code": text_py}, "model": reply[:300]})
            continue
        text = d["text"]
        inp = {"language": lang, "code": text}
        # (a) the real lexer sees the forest's tokens
        real = real_tokens(lang, text)
        if real != located:
            counts["lexer_mismatch"] += 1
            j = next((k for k, (a, b) in enumerate(zip(real, located)) if a != b), min(len(real), len(located)))
            lexer_mismatch.append({"input": inp, "index": j, "real": real[max(0, j - 2):j + 3], "forest": located[max(0, j - 2):j + 3]})
            continue
        # (b) hypotheses of the theorem, and the rendering itself
        why = [f for f in FLAGS if not d["flags"][f]]
        if text != text_py:
            why.append("text differs from the Python rendering")
        if not tiles(text, d["raw"]):
            why.append("raw stream does not tile the text")
        if why:
            counts["generator_bug"] += 1
            generator_bug.append({"input": inp, "why": why})
            continue
        # (c) the real measurements are the tree report
        counts["compared"] += 1
        r = sr.real_scan(lang, text)
        rd = sr.decode_scan(r)
        got = rd[0] if rd else r
        exp = d["report"]
        if got != exp or (rd and rd[1] != sum(m[5] for m in exp)):
            counts["oracle_failures"] += 1
            fails.append({"input": inp, "observed": got, "required": exp})
        nf, depth = trees.count_fns(nodes)
        if exp:
            nontrivial.add((lang, text))
        dist["functions"] += nf
        dist["max_depth"] = max(dist["max_depth"], depth)
        dist["max_len"] = max([dist["max_len"]] + [m[5] for m in exp])
        dist["tokens"] += len(ts)
        dist["max_tokens"] = max(dist["max_tokens"], len(ts))
        dist["lines"] += text.count("\n")
        dist["forests_with_nested_functions"] += 1 if depth >= 2 else 0
        dist["per_language"][lang] = dist["per_language"].get(lang, 0) + 1
        dist["functions_per_language"][lang] = dist["functions_per_language"].get(lang, 0) + len(exp)
        if len(samples) < 3 and len(exp) >= 2 and len(text) < 600:
            samples.append({"language": lang, "code": text, "expected": exp})
    return {
        "evaluations": len(cases), "distinct_nontrivial": len(nontrivial),
        "rule": "random canonical forests (Prog PTok) of the six brace languages from harness/gen/trees.py: functions/methods with "
                "each language's header shape (modifiers, throws, TS return types, arrow functions), classes/namespaces/control "
                "blocks/initialisers/callbacks as groups, nested functions, brace groups in headers, multi-line headers, both brace "
                "styles, random indentation/blank lines/tight spacing; driver op `tree` gives text + raw stream + flags + TREE report; "
                "real lexer tokens = forest tokens; all flags true; real scan_file(lex(text)) = tree report; non-trivial = distinct "
                "texts with at least one reported function",
        "samples": samples, "exhaustive": False, "distribution": dist, "counts": counts,
        "lexer_mismatch": lexer_mismatch[:keep], "generator_bug": generator_bug[:keep], "model_errors": model_errors[:keep],
        "disagreements": [], "oracle_failures": fails[:keep],
    }


# Regression inputs of defect F25 (repaired): a literal whose content is a single parenthesis. Before
# the repair the forests below satisfied every flag except `discovery` and the real report differed
# from the tree report; now all flags hold and the reports agree:
# (language, prefix, header, name index, gap, body, note)
REGRESS_F25 = [
    ("C++", "void", "f ( char c = '(' )", 0, "", "x ;", "a parenthesis as character literal in a default value (f used to be lost)"),
    ("C++", "void", 'f ( const char * s = ")" )', 0, "", "x ;", "the same with a string literal"),
    ("C++", "void", "f ( )", 0, "", "if ( match ( '(' ) ) { x = 1 ; } y = 2 ;", "parser code (a function `match` used to be invented)"),
    ("Java", "void", "f ( )", 0, "", 'if ( s . equals ( "(" ) ) { y = 1 ; } z = 2 ;', "the same in Java (`equals` used to be invented)"),
    ("C", "void", "f ( )", 0, "", "if ( c == '(' ) { x = 1 ; } y = 2 ;", "no call around the literal"),
    ("JavaScript", "", "function f ( a = '(' )", 1, "", "x ;", "one String token in JavaScript"),
]


def regressions(driver=DEFAULT_DRIVER):
    """-> list of failures (empty when the repaired behaviour holds)"""
    out = []
    for (lang, pre, head, k, gap, body, note) in REGRESS_F25:
        nodes = trees.make_fn(lang, pre, head, k, gap, body)
        ts = trees.layout(None, nodes, lang, plain=True)
        d = decode_tree(run_driver(driver, [trees.tree_request(lang, nodes)])[0])
        if d is None:
            out.append({"input": {"language": lang, "code": head}, "observed": "model error", "required": "tree reply"}); continue
        text = d["text"]
        rd = sr.decode_scan(sr.real_scan(lang, text))
        got = rd[0] if rd else None
        if real_tokens(lang, text) != trees.render(ts)[1] or not all(d["flags"].values()) or got != d["report"]:
            out.append({"input": {"language": lang, "code": text}, "observed": got, "required": d["report"], "note": "F25: " + note,
                        "flags": d["flags"]})
    return out


def vocabulary_check():
    """every keyword / operator word / punctuation / operator of the vocabulary, lexed alone inside a
    function body of its language, gets the class the vocabulary says (context-free part of the tie)"""
    wrap = {"C": "void f() {\n %s ;\n}\n", "C++": "void f() {\n %s ;\n}\n", "C#": "class K { void f() {\n %s ;\n} }\n",
            "Java": "class K { void f() {\n %s ;\n} }\n", "JavaScript": "function f() {\n %s ;\n}\n", "TypeScript": "function f() {\n %s ;\n}\n"}
    bad = []
    for lang, v in trees.VOCAB.items():
        for w in sorted(v["kw"] | v["opw"] | v["punct"] | v["ops"]):
            if w in ("{", "}", "(", ")", "[", "]") or (lang, w) in (("Java", "record"),):
                continue      # `record` is a keyword only where a declaration can start
            kind = trees.classify(lang, w)[0].kind
            raw, _ = sr.raw_tokens(lang, wrap[lang] % ("a1 %s b1" % w))
            vals = [(sr.kind_of(tt), val) for (_, tt, val) in raw if val.strip()]
            names = [val for (_, val) in vals]
            if "a1" not in names or "b1" not in names:
                bad.append((lang, w, kind, vals)); continue
            got = [k for (k, _) in vals[names.index("a1") + 1:names.index("b1")]]
            if got != [kind]:
                bad.append((lang, w, kind, got))
    return bad


def main():
    ap = argparse.ArgumentParser()
    ap.add_argument("-n", type=int, default=2400)
    ap.add_argument("--seed", type=int, default=0)
    ap.add_argument("--sweep", type=int, default=0)
    ap.add_argument("--driver", default=DEFAULT_DRIVER)
    ap.add_argument("--json", default=None)
    ap.add_argument("--vocab", action="store_true")
    ap.add_argument("--obs", action="store_true")
    a = ap.parse_args()
    if a.vocab:
        for b in vocabulary_check():
            print("vocabulary: %s %r expected kind %d, lexer says %s" % b)
    res = correspond(random.Random(a.seed), a.n, a.driver, sweep_upto=a.sweep)
    if a.obs:
        res["observations"] = regressions(a.driver)
        for o in res["observations"]:
            print("observation:", json.dumps(o, default=str))
    if a.json:
        with open(a.json, "w") as f:
            json.dump(res, f, indent=1, default=str)
    print(json.dumps({"evaluations": res["evaluations"], "distinct_nontrivial": res["distinct_nontrivial"],
                      "counts": res["counts"], "distribution": res["distribution"]}, indent=1))
    for key in ("model_errors", "lexer_mismatch", "generator_bug", "oracle_failures"):
        for x in res[key][:5]:
            print("---- %s" % key)
            print(json.dumps(x, indent=1, default=str)[:3000])
    return 1 if res["counts"]["oracle_failures"] else 0


if __name__ == "__main__":
    sys.exit(main())
