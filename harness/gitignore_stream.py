"""Correspondence stream for `Spec/Gitignore.lean` (Props/C11pat.lean): the Lean reading of six
classes of gitignore lines against the REAL decision of Code Limit.

For every case (a pattern list of the six classes + where the lines come from + a universe of
root-relative file paths):

  real   `Scanner.generate_exclude_spec(Path(root))` on a fresh temp root, the lines installed as the
         CLI does (`Configuration.exclude` for --exclude, `.codelimit.yml` through
         `Configuration.load`, root `.gitignore`), then `Scanner.is_excluded(Path(rel), spec)` per path;
  model  driver operation `gitignore <npats> <pattern>* <npaths> <path>*` -> `ok <bits>`
         (`CL.Gi.excludedWith (parsed patterns) path`, built-in list included);
  a difference is a `disagreement` (pattern list, the single patterns that differ, path).

Besides:
  * `gitclass <pattern>`: the class `Pat.parse` assigns must be the class the generator built, and
    texts outside the fragment (negation, `**`, `?`, character classes, escapes, comments, blanks,
    mixed forms) must be `none`  -> `parse_mismatch`;
  * `gitregex <pattern>`: the text of the regular expression the model assigns to a line
    (`Pat.regexText`, whose language is proved to be `Pat.matches` in Props/C11patRegex.lean) must be,
    character by character, the `regex.pattern` of the pattern object the real spec holds for that line
    (built-in lines included)  -> `regex_mismatch`;
  * the hand-written Python reading of /verif/harness/select_real.py (`spec_excluded`) is compared
    too -> `py_reading_mismatch` (informational: a defect of that helper, not of the model);
  * `correspond_scan`: a real directory tree drawn from the universe is scanned by the real
    `scan_path`; its keys must be the files that are not hidden, of a supported language, and not
    excluded ACCORDING TO THE MODEL (C11 end to end, no pathspec oracle).

Usage: /venv/bin/python gitignore_stream.py [-n 1200] [--scan 300] [--seed 0] [--driver PATH] [--json out.json]
"""
import argparse
import itertools
import json
import os
import random
import shutil
import subprocess
import sys
import tempfile

HERE = os.path.dirname(os.path.abspath(__file__))
for cand in (HERE, os.environ.get("VERIF_HARNESS", "/verif/harness")):
    if os.path.exists(os.path.join(cand, "select_real.py")) and cand not in sys.path:
        sys.path.insert(0, cand)
import common  # noqa: E402  (puts VERIF_REPO or /repo on sys.path, sets the guard variable)
import select_real as sr  # noqa: E402

DEFAULT_DRIVER = common.DRIVER

CLASSES = ("name", "dirOnly", "ext", "rel", "under", "rooted")

# ------------------------------------------------------------------ pools

PLAIN = ["a", "b", "src", "lib", "pkg", "x", "py", "c", "util", "main", "Makefile", "README", "A", "Src"]
DOTTED = ["x.py", "a.py", "main.py", "util.js", "x.min.js", "a.b", "v1.2", "x.tar.gz", "lib.c", "a.b.c", "mod.java",
          "py.py", "x.py.txt", "b.", "a..b"]
HIDDEN = [".hidden", ".env.js", ".a", ".x.py", ".py", ".github", "..a"]
BUILTIN = ["build", "tests", "test", "dist", "node_modules", "venv", "_build", "buck-out", ".git", ".venv",
           ".tox", "__pypackages__"]
NEAR_BUILTIN = ["builds", "Build", "test.py", "tests.py", "atest", "dist2", "build.c", "venv.js", "testing", "_build_"]
PUNCT = ["c#", "a!b", "a#b", "-x", "a-b", "a+b", "$a", "(1)", "{x}", "a,b", "a'b", "a=b", "a@b", "a&b", "a;b", "a^b",
         "a|b", "a~", "~", "%a", "a:b", "<a>", "`a`", 'a"b', "!a", "#a", "!", "#", "a_b", "__init__.py", "+", "a$",
         "^a", "x.c#", "a.!b"]
POOL = PLAIN + DOTTED + HIDDEN + BUILTIN + NEAR_BUILTIN + PUNCT
SUPPORTED_FILES = ["x.py", "a.py", "main.py", "util.js", "x.min.js", "lib.c", "mod.java", "py.py", "m.ts", "k.cs",
                   "u.cpp", "h.h", "test.py", "tests.py", "build.c", "venv.js", "__init__.py", ".x.py", ".env.js"]

# texts outside the six classes: `Pat.parse` must answer `none`
OUTSIDE = ["", " ", "!x", "!a/b", "#x", "# comment", "**", "**/a", "a/**", "a/**/b", "**/", "a?", "?", "[ab]", "a[1]",
           "a]", "a\\b", "\\#x", "\\!x", "x ", " x", "a b", "a\tb", "/", "//", "a//b", "//a", "a/b/", "/a/", "/a/b/",
           "/a/*", "a/*/b", "a/*.c", "*", "*/", "*.c/", "/*.c", "*a", "a*", "a.*", "*.c*", "*.*", "**.c", ".", "..",
           "./a", "a/.", "a/..", "../a", "/.", "/..", "a/b/*", "*/a", "é", "aé", "*.é", "a//", "/a//b",
           "a\x7f", "a/ b", "/ a", "*. c", "a\rb", "*.c ", "a/* ", "x\n"]


def outside_texts():
    return list(OUTSIDE)


# ------------------------------------------------------------------ generation

def gen_names(rnd):
    """the 7 names of one exhaustive universe: 4 'directory' names + 3 'file' names (every name is
    used at every position: a directory may be called x.py, a file may be called build)"""
    names = []
    kinds = [PLAIN, PLAIN, rnd.choice([PLAIN, DOTTED, PUNCT, NEAR_BUILTIN]), rnd.choice([BUILTIN, HIDDEN, PLAIN, PUNCT]),
             DOTTED, rnd.choice([DOTTED, PUNCT, NEAR_BUILTIN, HIDDEN]), rnd.choice([DOTTED, PLAIN, BUILTIN, PUNCT])]
    for k in kinds:
        for _ in range(20):
            x = rnd.choice(k)
            if x not in names:
                names.append(x)
                break
    while len(names) < 7:
        x = rnd.choice(POOL)
        if x not in names:
            names.append(x)
    return names


def exhaustive_universe(names, depth=3):
    out = []
    for d in range(1, depth + 1):
        out.extend(itertools.product(names, repeat=d))
    return out


def random_universe(rnd, names, k=120, max_depth=7):
    out = set()
    for _ in range(k):
        d = rnd.choice([1, 2, 2, 3, 3, 4, 5, 6, max_depth])
        out.add(tuple(rnd.choice(names) if rnd.random() < 0.85 else rnd.choice(POOL) for _ in range(d)))
    return sorted(out)


def suffixes_of(name):
    """the `.ext` suffixes of a name (every dot starts one)"""
    return [name[i:] for i, ch in enumerate(name) if ch == "."]


def gen_pattern(rnd, names, cls=None):
    """-> (text, class, payload) with payload as `gitclass` prints it"""
    cls = cls or rnd.choice(CLASSES)
    pick = lambda: rnd.choice(names) if rnd.random() < 0.8 else rnd.choice(POOL)  # noqa: E731
    if cls == "name":
        x = pick()
        while x[0] in "!#":
            x = pick()
        return x, cls, [x]
    if cls == "dirOnly":
        x = pick()
        while x[0] in "!#":
            x = pick()
        return x + "/", cls, [x]
    if cls == "ext":
        cands = [s for n in names + ([rnd.choice(POOL)] if rnd.random() < 0.3 else []) for s in suffixes_of(n)]
        e = rnd.choice(cands) if cands and rnd.random() < 0.85 else rnd.choice([".py", ".js", ".c", ".", ".min.js", ".b", ".gz"])
        return "*" + e, cls, [e]
    if cls == "rel":
        k = rnd.choice([2, 2, 2, 3, 3, 4])
        ps = [pick() for _ in range(k)]
        while ps[0][0] in "!#":
            ps[0] = pick()
        return "/".join(ps), cls, ps
    if cls == "under":
        x = pick()
        while x[0] in "!#":
            x = pick()
        return x + "/*", cls, [x]
    k = rnd.choice([1, 1, 1, 2, 2, 3])
    ps = [pick() for _ in range(k)]
    return "/" + "/".join(ps), cls, ps


def gen_case(rnd, exhaustive):
    names = gen_names(rnd)
    k = rnd.choice([0, 1, 1, 1, 2, 2, 3, 4, 6])
    pats = [gen_pattern(rnd, names) for _ in range(k)]
    texts = [p[0] for p in pats]
    paths = exhaustive_universe(names) if exhaustive else random_universe(rnd, names)
    sources = sr.split_sources(rnd, texts)
    # blank lines and `#` comment lines of a .gitignore (and blank / comment strings in the configured lists) are no
    # patterns: pathspec makes them null patterns, the model's `parseAll` skips them (`Gi.ignoredLine`)
    ignored = []
    if rnd.random() < 0.4:
        for _ in range(rnd.randint(1, 3)):
            line = rnd.choice(["", "   ", "\t", "# a comment", "#x", " # indented comment", "#" + (texts[0] if texts else "src")])
            src = sources[rnd.choice(["gitignore", "gitignore", "option", "config"])]
            src.insert(rnd.randint(0, len(src)), line)
            ignored.append(line)
    return {"names": names, "patterns": texts, "classes": [(p[1], p[2]) for p in pats], "ignored_lines": ignored,
            "sources": sources, "paths": paths}


# ------------------------------------------------------------------ the real decision

class TempRoot:
    def __init__(self):
        self.tmp = os.path.realpath(tempfile.mkdtemp(prefix="clgi_"))
        self.root = os.path.join(self.tmp, "root")
        os.makedirs(self.root)

    def __enter__(self):
        return self

    def __exit__(self, *a):
        sr.reset_configuration()
        shutil.rmtree(self.tmp, ignore_errors=True)


def real_decisions(sources, paths, with_regex=False):
    """`generate_exclude_spec` on a temp root with the lines installed in their sources -> bits
    (and, on request, the texts of the regular expressions the spec object holds, in its order)"""
    from pathlib import Path
    from codelimit.common import Scanner
    with TempRoot() as T:
        sr.install_exclusions(T.root, sources, T.root)
        spec = Scanner.generate_exclude_spec(Path(T.root))
        bits = [bool(Scanner.is_excluded(Path(*p), spec)) for p in paths]
        if with_regex:
            return bits, [q.regex.pattern if q.regex is not None else None for q in spec.patterns]
        return bits


def real_single(pattern, path):
    """one user line alone (plus the built-in list), through the root .gitignore"""
    return real_decisions({"option": [], "config": [], "gitignore": [pattern]}, [path])[0]


# ------------------------------------------------------------------ the model

def run_driver(driver, lines, shards=8):
    from concurrent.futures import ThreadPoolExecutor
    if not lines:
        return []

    def one(part):
        p = subprocess.run([driver], input="\n".join(part) + "\n", capture_output=True, text=True)
        out = p.stdout.splitlines()
        if p.returncode != 0 or len(out) != len(part):
            out = out + ["model-crash rc=%s %s" % (p.returncode, p.stderr[-200:].replace("\n", " "))] * (len(part) - len(out))
        return out
    k = max(1, (len(lines) + shards - 1) // shards)
    parts = [lines[i:i + k] for i in range(0, len(lines), k)]
    with ThreadPoolExecutor(max_workers=shards) as ex:
        outs = list(ex.map(one, parts))
    return [x for o in outs for x in o]


def request(patterns, paths):
    return "gitignore %d%s %d%s" % (len(patterns), "".join(" " + sr.S(p) for p in patterns), len(paths),
                                    "".join(" " + sr.enc_path(p) for p in paths))


def decode_class(reply):
    ws = reply.split()
    if ws == ["none"]:
        return None
    assert ws[0] == "ok"
    k = int(ws[1])
    if k in (3, 5):
        names, i = sr.read_path(ws, 2)
    else:
        s, i = sr.read_str(ws, 2)
        names = [s]
    assert i == len(ws)
    return CLASSES[k], names


# ------------------------------------------------------------------ the stream

def correspond(rnd, n, driver=DEFAULT_DRIVER, keep=40, exhaustive_share=0.6):
    """n cases; -> summary dict (disagreements must be empty)"""
    cases = [gen_case(rnd, exhaustive=(i < n * exhaustive_share)) for i in range(n)]
    replies = run_driver(driver, [request(c["patterns"] + c.get("ignored_lines", []), c["paths"]) for c in cases])
    # parsing: the class of every generated line, and the texts outside the fragment
    flat = [(t, cl) for c in cases for t, cl in zip(c["patterns"], c["classes"])]
    outside = outside_texts()
    class_replies = run_driver(driver, ["gitclass " + sr.S(t) for t, _ in flat] + ["gitclass " + sr.S(t) for t in outside])
    regex_replies = run_driver(driver, ["gitregex " + sr.S(t) for t in sr.PINNED_BUILTIN] + ["gitregex " + sr.S(t) for t, _ in flat])
    model_regex = {}
    for t, r in zip(list(sr.PINNED_BUILTIN) + [t for t, _ in flat], regex_replies):
        ws = r.split()
        model_regex[t] = sr.read_str(ws, 1)[0] if ws[:1] == ["ok"] else None
    regex_bad = []
    counts = {"cases": n, "decisions": 0, "regex_checked": 0, "regex_mismatch": 0, "excluded_real": 0, "excluded_by_user_pattern": 0, "disagreements": 0,
              "model_errors": 0, "parse_checked": len(flat), "outside_checked": len(outside), "parse_mismatch": 0,
              "py_reading_mismatch": 0, "per_class_patterns": {k: 0 for k in CLASSES},
              "per_class_matching_decisions": {k: 0 for k in CLASSES}, "per_source": {}, "exhaustive_cases": 0,
              "max_depth": 0, "patterns_biting": 0, "patterns_total": 0}
    disagreements, parse_bad, py_bad, model_errors = [], [], [], []
    for (t, (cls, payload)), r in zip(flat, class_replies[:len(flat)]):
        try:
            got = decode_class(r)
        except Exception:  # noqa
            got = ("undecodable", r[:80])
        if got != (cls, list(payload)):
            counts["parse_mismatch"] += 1
            parse_bad.append({"text": t, "generated": [cls, payload], "model": got})
    for t, r in zip(outside, class_replies[len(flat):]):
        if r.strip() != "none":
            counts["parse_mismatch"] += 1
            parse_bad.append({"text": t, "generated": "outside the fragment", "model": r[:80]})
    for c, reply in zip(cases, replies):
        pats, paths = c["patterns"], c["paths"]
        for cls, _ in c["classes"]:
            counts["per_class_patterns"][cls] += 1
        mode = "+".join(k for k in ("option", "config", "gitignore") if c["sources"][k]) or "none"
        counts["per_source"][mode] = counts["per_source"].get(mode, 0) + 1
        real, real_regex = real_decisions(c["sources"], paths, with_regex=True)
        # the spec holds DEFAULT_EXCLUDES, then the configured lines (option, then config file), then .gitignore
        order = list(sr.PINNED_BUILTIN) + c["sources"]["option"] + c["sources"]["config"] + c["sources"]["gitignore"]
        counts["regex_checked"] += len(order)
        # ignored lines (blank, `#` comments) carry no expression on either side; pathspec may also drop a final empty line
        if [x for x in real_regex if x is not None] != [model_regex.get(t) for t in order if model_regex.get(t) is not None]:
            counts["regex_mismatch"] += 1
            if len(regex_bad) < keep:
                regex_bad.append({"lines": order[26:], "real": real_regex[26:], "model": [model_regex.get(t) for t in order[26:]]})
        ws = reply.split()
        if len(ws) != 2 or ws[0] != "ok" or len(ws[1]) != len(paths):
            if not paths and ws == ["ok"]:
                continue
            counts["model_errors"] += 1
            model_errors.append({"patterns": pats, "model": reply[:200]})
            continue
        model = [b == "1" for b in ws[1]]
        counts["decisions"] += len(paths)
        counts["excluded_real"] += sum(real)
        counts["exhaustive_cases"] += 1 if len(paths) == 399 else 0
        counts["max_depth"] = max([counts["max_depth"]] + [len(p) for p in paths])
        builtin_only = [any(x in sr.PINNED_BUILTIN for x in p) for p in paths]
        counts["excluded_by_user_pattern"] += sum(1 for r, b in zip(real, builtin_only) if r and not b)
        # which classes bite (per pattern, built-ins aside; counted with the Python reading of select_real)
        for (t, (cls, _)) in zip(pats, c["classes"]):
            hits = sum(1 for p, b in zip(paths, builtin_only) if not b and sr.pattern_matches(t, p))
            counts["per_class_matching_decisions"][cls] += hits
            counts["patterns_total"] += 1
            counts["patterns_biting"] += 1 if hits else 0
        for p, r, m in zip(paths, real, model):
            if r != m:
                counts["disagreements"] += 1
                if len(disagreements) < keep:
                    single = [t for t in pats if real_single(t, p) != _model_single(driver, t, p)]
                    disagreements.append({"patterns": pats, "sources": c["sources"], "path": "/".join(p),
                                          "real": r, "model": m, "single_patterns_that_differ": single})
        for p, r in zip(paths, real):
            if sr.spec_excluded(p, pats) != r:
                counts["py_reading_mismatch"] += 1
                if len(py_bad) < keep:
                    py_bad.append({"patterns": pats, "path": "/".join(p), "real": r})
    return {"counts": counts, "disagreements": disagreements, "parse_mismatch": parse_bad[:keep], "regex_mismatch": regex_bad,
            "py_reading_mismatch": py_bad, "model_errors": model_errors[:keep]}


def _model_single(driver, pattern, path):
    r = run_driver(driver, [request([pattern], [path])], shards=1)[0].split()
    return r[1] == "1" if len(r) == 2 and r[0] == "ok" else None


# ------------------------------------------------------------------ end to end: the real scan against the model's decision

def gen_tree_from(rnd, names, depth=3):
    """a consistent directory tree over the names: ("D", name, children) | ("F", name, bytes)"""
    def children(d):
        out, used = [], set()
        for _ in range(rnd.choice([1, 2, 3, 4])):
            x = rnd.choice(names + SUPPORTED_FILES[:6]) if rnd.random() < 0.7 else rnd.choice(SUPPORTED_FILES)
            if x in used:
                continue
            used.add(x)
            out.append(("F", x, b"def f(a):\n    return a\n"))
        if d < depth:
            for _ in range(rnd.choice([0, 1, 2, 3])):
                x = rnd.choice(names)
                if x in used:
                    continue
                used.add(x)
                out.append(("D", x, children(d + 1)))
        rnd.shuffle(out)
        return out
    return ("D", "root", children(1))


def correspond_scan(rnd, n, driver=DEFAULT_DRIVER, keep=20):
    """real `scan_path` on real trees; the expected key set uses the MODEL's exclusion decision"""
    counts = {"cases": n, "files": 0, "scanned_keys": 0, "excluded_by_model": 0, "disagreements": 0, "scan_errors": 0}
    bad = []
    cases = []
    for _ in range(n):
        names = [x for x in gen_names(rnd) if x not in (".", "..")]
        k = rnd.choice([0, 1, 1, 2, 2, 3])
        pats = [gen_pattern(rnd, names + SUPPORTED_FILES[:6])[0] for _ in range(k)]
        tree = gen_tree_from(rnd, names)
        cases.append((pats, sr.split_sources(rnd, pats), tree))
    reqs = [request(p, [f for f, _ in sr.all_files(t)]) for p, _, t in cases]
    replies = run_driver(driver, reqs)
    for (pats, sources, tree), reply in zip(cases, replies):
        files = [f for f, _ in sr.all_files(tree)]
        ws = reply.split()
        bits = ws[1] if len(ws) == 2 else ""
        if ws[:1] != ["ok"] or len(bits) != len(files):
            if files:
                counts["disagreements"] += 1
                bad.append({"patterns": pats, "model": reply[:200]})
            continue
        with sr.TempTree(tree) as T:
            T.chdir(T.tmp)
            sr.install_exclusions(T.root, sources, T.root)
            try:
                entries, _ = sr.run_scan(T.root)
            except Exception as e:  # noqa
                counts["scan_errors"] += 1
                bad.append({"patterns": pats, "error": "%s: %s" % (type(e).__name__, e)})
                continue
        keys = {e[0] for e in entries}
        expected = {"/".join(f) for f, b in zip(files, bits)
                    if b == "0" and not sr.spec_hidden(f) and sr.real_lang_of(f[-1]) is not None}
        counts["files"] += len(files)
        counts["scanned_keys"] += len(keys)
        counts["excluded_by_model"] += bits.count("1")
        if keys != expected:
            counts["disagreements"] += 1
            if len(bad) < keep:
                bad.append({"patterns": pats, "sources": sources, "extra_in_scan": sorted(keys - expected)[:5],
                            "missing_in_scan": sorted(expected - keys)[:5]})
    return {"counts": counts, "disagreements": bad}


# ------------------------------------------------------------------ lists WITH negation lines (`!pattern`)
#
# The Lean pattern model covers the six positive classes only; for lists with `!` lines the oracle is
#   (1) an independent reading of gitignore's rule "the LAST matching line decides" over the six classes
#       (`select_real.pattern_matches`, which the positive stream compares with pathspec on every decision), and
#   (2) the real `git check-ignore` (when git is installed) on the same lines.
# A path is JUDGED iff (1) and (2) agree on it. They differ where git decides per directory ENTRY while it walks:
# a file below an excluded directory cannot be re-included (`vendor/` + `!vendor/x.py`; `!*.py` below the built-in
# `build`), and a `!` line that matches a directory re-includes that entry only, not the files below it (`!A/`,
# `!*.py` with a directory `test.py`), whereas (1) - and pathspec's PathSpec - match whole file paths. There the
# property text ("not matched by the ... exclusions") does not say which reading is meant, so such paths are
# counted (`git_differs_not_judged`) and not judged. All user lines of a case come from ONE source
# (option, .codelimit.yml or root .gitignore): the order of lines across sources is not part of the property.

_GIT = {"checked": False, "exe": None, "repo": None}


def git_exe():
    if not _GIT["checked"]:
        _GIT["checked"] = True
        exe = shutil.which("git")
        if exe:
            repo = os.path.realpath(tempfile.mkdtemp(prefix="clgit_"))
            env = git_env(repo)
            p = subprocess.run([exe, "init", "-q", os.path.join(repo, "r")], capture_output=True, text=True, env=env)
            if p.returncode == 0:
                _GIT["exe"], _GIT["repo"] = exe, repo
                import atexit
                atexit.register(shutil.rmtree, repo, True)
    return _GIT["exe"]


def git_env(home):
    env = {k: v for k, v in os.environ.items() if not k.startswith("GIT_")}
    env.update(HOME=home, XDG_CONFIG_HOME=os.path.join(home, "xdg"), GIT_CONFIG_NOSYSTEM="1", LC_ALL="C")
    return env


def git_ignored(lines, paths):
    """real git on `lines` as the root .gitignore -> [bool per path] or None (no git / git refused)"""
    exe = git_exe()
    if not exe:
        return None
    r = os.path.join(_GIT["repo"], "r")
    with open(os.path.join(r, ".gitignore"), "w") as f:
        f.write("".join(l + "\n" for l in lines))
    ask = ["/".join(p) for p in paths]
    p = subprocess.run([exe, "check-ignore", "--stdin", "-z", "--no-index"], input="".join(a + "\0" for a in ask).encode(),
                       capture_output=True, cwd=r, env=git_env(_GIT["repo"]))
    if p.returncode not in (0, 1):
        return None
    hit = set(p.stdout.decode().split("\0"))
    return [a in hit for a in ask]


def reading_excluded(lines, comps):
    """gitignore's rule over the six classes: the last line that matches the path decides; `!` lines re-include"""
    verdict = False
    for l in lines:
        neg = l.startswith("!")
        if sr.pattern_matches(l[1:] if neg else l, comps):
            verdict = not neg
    return verdict


def negation_for(rnd, comps):
    """a `!` line (of the six classes) that matches the given path"""
    last = comps[-1]
    r = rnd.random()
    if r < 0.35 and last[0] not in "!#":
        return "!" + last                                        # bare name
    if r < 0.55 and suffixes_of(last):
        return "!*" + rnd.choice(suffixes_of(last))              # *.ext
    if r < 0.7 and len(comps) > 1 and comps[0][0] not in "!#":
        return "!" + comps[0] + "/*"                             # a/*
    if len(comps) > 1 and comps[0][0] not in "!#":
        return "!" + "/".join(comps)                             # a/b/c
    return "!/" + "/".join(comps)                                # /a


def gen_negation_case(rnd):
    names = [x for x in gen_names(rnd) if x not in (".", "..")]
    tree = gen_tree_from(rnd, names)
    files = [f for f, _ in sr.all_files(tree)]
    universe = sorted(set(files) | set(random_universe(rnd, names, k=60, max_depth=5)))
    lines = []
    for _ in range(rnd.choice([1, 2, 2, 3, 4])):
        lines.append(gen_pattern(rnd, names + SUPPORTED_FILES[:6])[0])
        if rnd.random() < 0.75:
            full = list(sr.PINNED_BUILTIN) + lines
            cands = [p for p in (files if rnd.random() < 0.8 and files else universe)
                     if reading_excluded(full, p) and not any(c in sr.PINNED_BUILTIN for c in p)]
            if cands:
                lines.append(negation_for(rnd, rnd.choice(cands)))
            else:
                lines.append("!" + gen_pattern(rnd, names)[0])
    lines = [l for l in lines if "[" not in l]
    src = rnd.choice(["option", "config", "gitignore"])
    sources = {"option": [], "config": [], "gitignore": []}
    sources[src] = lines
    return {"stream": "gitignore-negation", "patterns": lines, "sources": sources, "tree": sr.tree_to_json(tree),
            "universe": [list(p) for p in universe]}


def judge_negation_case(case):
    """-> (failure | None, counts)"""
    lines = list(sr.PINNED_BUILTIN) + case["patterns"]
    tree = sr.tree_from_json(case["tree"])
    files = [f for f, _ in sr.all_files(tree)]
    universe = sorted({tuple(p) for p in case["universe"]} | {tuple(f) for f in files})
    reading = [reading_excluded(lines, p) for p in universe]
    git = git_ignored(lines, universe)
    judged = [git is None or g == r for g, r in zip(git or reading, reading)]
    counts = {"decisions": len(universe), "judged": sum(judged), "git_differs_not_judged": len(universe) - sum(judged),
              "reincluded": 0, "wrong_decisions": 0, "scanned_keys": 0, "files": len(files)}
    positive_only = [l for l in lines if not l.startswith("!")]
    bad = []
    real = real_decisions(case["sources"], universe)
    for p, rl, rd, j in zip(universe, real, reading, judged):
        if j and not rd and reading_excluded(positive_only, p):
            counts["reincluded"] += 1
        if j and rl != rd:
            counts["wrong_decisions"] += 1
    ok = dict(zip(universe, judged))
    excl = dict(zip(universe, reading))
    with sr.TempTree(tree) as T:
        T.chdir(T.tmp)
        sr.install_exclusions(T.root, case["sources"], T.root)
        try:
            entries, _ = sr.run_scan(T.root)
            keys = {e[0] for e in entries}
        except Exception as e:  # noqa
            return ({"input": case, "observed": "%s: %s" % (type(e).__name__, e), "required": ["scan completes"]}, counts)
    counts["scanned_keys"] = len(keys)
    missing, extra = [], []
    for f in files:
        if not ok.get(tuple(f), True) or sr.spec_hidden(f) or sr.expected_language(f[-1]) is None:
            if sr.spec_hidden(f) or sr.expected_language(f[-1]) is None:
                if "/".join(f) in keys:
                    extra.append("/".join(f))
            continue
        k = "/".join(f)
        if excl[tuple(f)] and k in keys:
            extra.append(k)
        if not excl[tuple(f)] and k not in keys:
            missing.append(k)
    if missing or extra:
        bad.append("qualifying files (last matching exclusion line is a `!` line or none matches%s) not scanned: %s; scanned although excluded: %s"
                   % (", git check-ignore agrees" if git is not None else "", missing[:5], extra[:5]))
    if counts["wrong_decisions"] and not bad:
        w = [("/".join(p), rl) for p, rl, rd, j in zip(universe, real, reading, judged) if j and rl != rd][:5]
        bad.append("generate_exclude_spec + is_excluded decide (path, excluded) %s; the last matching line says the opposite%s"
                   % (w, " and so does git check-ignore" if git is not None else ""))
    if bad:
        small = {k: case[k] for k in ("stream", "patterns", "sources", "tree")}
        small["universe"] = [list(p) for p, rl, rd, j in zip(universe, real, reading, judged) if j and rl != rd][:8] or case["universe"][:8]
        return ({"input": small, "observed": {"scanned": sorted(keys)[:12]}, "required": bad}, counts)
    return (None, counts)


def correspond_negation(rnd, n, keep=10):
    total = {"cases": n, "git": bool(git_exe()), "lists_with_negation": 0}
    fails = []
    for _ in range(n):
        c = gen_negation_case(rnd)
        total["lists_with_negation"] += 1 if any(l.startswith("!") for l in c["patterns"]) else 0
        f, counts = judge_negation_case(c)
        for k, v in counts.items():
            total[k] = total.get(k, 0) + v
        if f:
            fails.append(f)
    fails.sort(key=lambda f: len(json.dumps(f["input"])))
    return {"counts": total, "failures": fails[:keep]}


def main():
    ap = argparse.ArgumentParser()
    ap.add_argument("-n", type=int, default=1200)
    ap.add_argument("--scan", type=int, default=300)
    ap.add_argument("--seed", type=int, default=0)
    ap.add_argument("--driver", default=DEFAULT_DRIVER)
    ap.add_argument("--json", default=None)
    a = ap.parse_args()
    rnd = random.Random(a.seed)
    out = {"driver": a.driver, "seed": a.seed, "decisions": correspond(rnd, a.n, a.driver)}
    if a.scan:
        out["scan"] = correspond_scan(rnd, a.scan, a.driver)
    if a.json:
        with open(a.json, "w") as f:
            json.dump(out, f, indent=1, default=str)
    print(json.dumps({"decisions": out["decisions"]["counts"], "scan": out.get("scan", {}).get("counts")}, indent=1))
    for k in ("disagreements", "parse_mismatch", "regex_mismatch", "py_reading_mismatch", "model_errors"):
        for d in out["decisions"][k][:10]:
            print(k, json.dumps(d, default=str))
    for d in out.get("scan", {}).get("disagreements", [])[:10]:
        print("scan", json.dumps(d, default=str))
    ok = (out["decisions"]["counts"]["disagreements"] == 0 and out["decisions"]["counts"]["model_errors"] == 0
          and out["decisions"]["counts"]["parse_mismatch"] == 0 and out["decisions"]["counts"]["regex_mismatch"] == 0
          and (not a.scan or (out["scan"]["counts"]["disagreements"] == 0 and out["scan"]["counts"]["scan_errors"] == 0)))
    sys.exit(0 if ok else 1)


if __name__ == "__main__":
    main()
