"""Runs the real CLI (`python -m codelimit ...`) in THIS fresh interpreter with the directory
traversal order controlled from outside: `os.walk` yields the sub-directories and files of every
directory in an order that is a function of C06_WALK_SEED only (0 = the file system's order).
The property quantifies over traversal orders; the file system alone offers just one."""
import os
import random
import runpy
import sys

_seed = int(os.environ.get("C06_WALK_SEED", "0"))
_orig = os.walk


def _walk(top, topdown=True, onerror=None, followlinks=False):
    rnd = random.Random(_seed)
    for root, dirs, files in _orig(top, topdown, onerror, followlinks):
        if _seed:
            dirs.sort(); files.sort()
            rnd.shuffle(dirs); rnd.shuffle(files)
        yield root, dirs, files


os.walk = _walk
sys.argv = ["codelimit"] + sys.argv[1:]
runpy.run_module("codelimit", run_name="__main__")
