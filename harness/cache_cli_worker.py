"""Worker of cache_real.cli_scan_process (checks C09 / C10, entry 2): ONE fresh interpreter runs the module
`codelimit` as a program, exactly as `python -m codelimit <arguments>` does (runpy, sys.argv = the arguments:
the typer object `cli` parses them and calls the command), after `Scanner._analyze_file` was wrapped to record
which files are analysed.  Result (exit status or exception, analysed relative paths) -> $CACHE_CLI_RESULT."""
import json
import os
import runpy
import sys

sys.path.insert(0, os.path.dirname(os.path.abspath(__file__)))
import common  # noqa  (puts VERIF_REPO / /repo first on sys.path)

LOG = []
from codelimit.common import Scanner  # noqa: E402

_orig = Scanner._analyze_file


def _recording(path, rel_path, checksum, lexer):
    LOG.append(str(rel_path))
    return _orig(path, rel_path, checksum, lexer)


Scanner._analyze_file = _recording
sys.argv = ["codelimit"] + sys.argv[1:]
err = None
try:
    runpy.run_module("codelimit", run_name="__main__", alter_sys=True)
except SystemExit as e:
    if e.code not in (0, None):
        err = "exit status %s" % (e.code,)
except BaseException as e:  # noqa: BLE001  a crash of the command is an observation
    err = "%s: %s" % (type(e).__name__, str(e)[:200])
sys.stdout.flush()
with open(os.environ["CACHE_CLI_RESULT"], "w") as f:
    json.dump({"error": err, "analysed": LOG}, f)
