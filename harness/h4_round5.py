"""Round-5 mechanisms shared by the C07 / C08 / C18 / C19 streams (aggregation, report files, rendering).

 * `rungs(base, lo, hi)`      - a size ladder: the base rungs plus n-1, n, n+1, 2n for every integer literal the CURRENT
                                source has and the pinned tree has not (`srcdict.novel_rungs`); nothing is added on the
                                unchanged tree
 * `path_components(rnd)`     - awkward file-name characters (backslash, quote, tab, shell / glob characters), NFC / NFD
                                twins, novel string literals of the current source
 * `identifier_shapes(rnd)`   - every spelling an identifier-like string field admits (canonical uuid4, upper case,
                                braces, urn:, 32 hex digits, digests, numbers, versions, dates, whitespace around, text)
 * `READ_ONLY_QUERIES` / `run_queries` - the read-only questions a Codebase / Report answers (for histories
                                add / query / add: a query must not change what later queries or the final state say)
 * `column_streams(text)`     - a `box.SIMPLE` rich table read back from console lines when cells are wrapped over
                                several lines: per column, the characters shown (blanks removed)
 * `fits_wrapped(...)`        - the consoles on which a rich table with wrappable columns shows every word completely
 * `run_entry(job, ...)`      - the CLI entry functions (`codelimit.__main__.report / findings`) in a fresh process
"""
import os
import subprocess
import sys
import uuid as _uuid

from gen import names as gnames
from gen import srcdict


# ------------------------------------------------------------------ sizes

def rungs(base, lo, hi):
    """sorted ladder sizes: `base` (within lo..hi) plus the rungs around novel source integers"""
    out = set(b for b in base if lo <= b <= hi)
    try:
        out |= set(srcdict.novel_rungs(lo, hi))
    except Exception:   # noqa: BLE001 - the dictionary only directs the search
        pass
    return sorted(out)


def novel_only(lo, hi):
    try:
        return list(srcdict.novel_rungs(lo, hi))
    except Exception:   # noqa: BLE001
        return []


# ------------------------------------------------------------------ names

def path_components(ext=".py"):
    """path components (no '/', not '.', '..', not empty) with awkward characters, NFC / NFD twins and novel words"""
    out = []
    for n in gnames.awkward_names(ext):
        out += [n, n[:-len(ext)] if ext and n.endswith(ext) else n]
    for a, b in gnames.unicode_twins(ext):
        out += [a, b]
    # every JSON escape letter after a backslash, and a backslash / quote at either end
    out += ["w\\" + c + "x" for c in 'bfnrtu"/\\'] + ["\\", '"', 'q"', "\\n", "tail\\", "\\u0041", "a\\u00e9.py", "'", "a\\\\b"]
    try:
        out += [w for w in srcdict.words(novel_only=True) if w]
    except Exception:   # noqa: BLE001
        pass
    seen, res = set(), []
    for s in out:
        if s and "/" not in s and s not in (".", "..") and s not in seen:
            seen.add(s)
            res.append(s)
    return res


# ------------------------------------------------------------------ value shapes

def identifier_shapes(rnd):
    """spellings of an identifier: all legal values of a free string field"""
    u = _uuid.UUID(int=rnd.getrandbits(128), version=4)
    c = str(u)
    h = "%040x" % rnd.getrandbits(160)
    out = [c, c.upper(), c.title(), "{" + c + "}", "{" + c.upper() + "}", "urn:uuid:" + c, "URN:UUID:" + c.upper(), u.hex, u.hex.upper(),
           "uuid:" + c, c.replace("-", "", 1), c + "\n", " " + c, c + " ", "\t" + c, c[:-1], c + "0", "0" * 32, "0" * 31 + "1", "f" * 32,
           "00000000-0000-0000-0000-000000000000", h, h[:32], h[:32].upper(), "%064x" % rnd.getrandbits(256),
           "0", "1", "-1", "007", "1.0", "1e3", "0x1F", "1_000", "+5", "null", "None", "true", "True", "false", "NaN", "Infinity", "",
           " ", "abcdefgh", "ABCDEFGH", "Straße", "İ", "v1.2.3", "1.2.3", "01.02.03", "1.2.3rc1", "1.2.3+build.5", "1.2.3 ", "V1.2.3",
           "2024-01-02T03:04:05+00:00", "2024-01-02T03:04:05Z", "2024-01-02 03:04:05", "2024-01-02T03:04:05.000000+00:00", "1704164645",
           "main", "refs/heads/main", "feature/x y", "HEAD", "origin/main", "a" * 40, "@", "~", "-", "--", "..", "*", "[", "{}", "[]",
           "C:\\Users\\x", "/", "//", "./", ".", "~/x", "file:///x", "https://github.com/o/n", "o/n", "O", "o.n", "o n"]
    try:
        out += [w for w in srcdict.words(novel_only=True)]
    except Exception:   # noqa: BLE001
        pass
    return out


# ------------------------------------------------------------------ read-only queries (histories add / query / add)

def _zero_arg_public(obj, prefixes=("all_", "total_", "get_", "quality_", "ninetieth_", "languages")):
    import inspect
    out = []
    for name in dir(type(obj)):
        if name.startswith("_") or not name.startswith(prefixes):
            continue
        f = getattr(type(obj), name, None)
        if not callable(f):
            continue
        try:
            ps = list(inspect.signature(f).parameters.values())[1:]
        except (TypeError, ValueError):
            continue
        if all(p.default is not p.empty or p.kind in (p.VAR_POSITIONAL, p.VAR_KEYWORD) for p in ps):
            out.append(name)
    return sorted(out)


def query_names(cb):
    """names of the read-only questions: the public argument-free `all_* / total_* / get_* / quality_* / ninetieth_*`
    methods the CURRENT Codebase, Report and ScanTotals classes offer (so a method a change adds is asked too), plus
    writing the report document and rendering"""
    from codelimit.common.ScanTotals import ScanTotals
    from codelimit.common.report.Report import Report
    qs = ["codebase." + n for n in _zero_arg_public(cb)]
    qs += ["report." + n for n in _zero_arg_public(Report(cb))]
    qs += ["totals." + n for n in _zero_arg_public(ScanTotals(cb.totals))]
    qs += ["len(tree)", "to_json", "to_json-compact", "summary-text", "summary-markdown", "overview-text", "findings-text"]
    # every presentation function (round 6): print_report / print_totals / print_findings of both formats, the tables
    qs += ["report-text", "report-markdown", "report-text-diff-self", "report-markdown-diff-self", "overview-markdown", "findings-markdown",
           "summary-table", "scan-result-table"]
    return qs


def run_query(cb, q, spoil=True):
    """ask one read-only question; the answer is thrown away - after the caller has overwritten it where it is a list
    (STATE PROBE: what a query hands out belongs to the caller)"""
    import io
    from rich.console import Console
    from codelimit.common.ScanTotals import ScanTotals
    from codelimit.common.report.Report import Report
    kind, _, name = q.partition(".")
    if kind == "codebase" and name:
        r = getattr(cb, name)()
    elif kind == "report" and name:
        r = getattr(Report(cb), name)()
    elif kind == "totals" and name:
        r = getattr(ScanTotals(cb.totals), name)()
    elif q == "len(tree)":
        r = len(cb.tree)
    elif q in ("to_json", "to_json-compact"):
        from codelimit.common.report.ReportWriter import ReportWriter
        r = len(ReportWriter(Report(cb), q == "to_json").to_json())
    else:
        from codelimit.common.report import format_markdown, format_text
        con = Console(file=io.StringIO(), width=120)
        rep = Report(cb)
        if q == "summary-text":
            format_text.print_summary(con, rep)
        elif q == "summary-markdown":
            format_markdown.print_summary(con, rep)
        elif q == "overview-text":
            format_text.print_totals(con, rep)
        elif q == "findings-text":
            format_text.print_findings(con, rep, True)
        elif q == "report-text":
            format_text.print_report(con, rep)
        elif q == "report-markdown":
            format_markdown.print_report(con, rep)
        elif q == "report-text-diff-self":
            format_text.print_report(con, rep, Report(cb))
        elif q == "report-markdown-diff-self":
            format_markdown.print_report(con, rep, Report(cb))
        elif q == "overview-markdown":
            format_markdown.print_totals(con, rep)
        elif q == "findings-markdown":
            format_markdown.print_findings(rep, con, True)
        elif q == "summary-table":
            from codelimit.common.SummaryTable import SummaryTable
            con.print(SummaryTable(rep))
        elif q == "scan-result-table":
            from codelimit.common.ScanResultTable import ScanResultTable
            con.print(ScanResultTable(ScanTotals(cb.totals)))
        else:
            raise ValueError("unknown query " + q)
        r = None
    if spoil and isinstance(r, list):
        r.clear()
    return r


# ------------------------------------------------------------------ rich tables on narrow consoles

def column_streams(text):
    """a `box.SIMPLE` table (rule, body, optional rule + footer) printed by rich, cells possibly wrapped over several lines.
    -> {"body": [chars of column 0, chars of column 1, ...], "footer": [...] | None, "lines": n} or None when the lines
    do not form such a table. Columns are the maximal runs of character positions that are not blank in every line
    (runs of a single blank position stay inside a column: `12 (+3)`); chars = the non-blank characters top to bottom."""
    lines = text.splitlines()
    rules = [i for i, l in enumerate(lines) if l.strip() and set(l.strip()) == {"\u2500"}]
    if not rules:
        return None
    body = [l for l in lines[rules[0] + 1:(rules[1] if len(rules) > 1 else len(lines))] if l.strip()]
    footer = None
    if len(rules) > 1:
        # the footer ends at the first blank line after it (the summary follows the overview)
        footer = []
        for l in lines[rules[1] + 1:]:
            if not l.strip():
                if footer:
                    break
                continue
            footer.append(l)
    allv = body + (footer or [])
    if not allv:
        return {"body": [], "footer": [] if footer is not None else None, "lines": 0}
    width = max(len(l) for l in allv)
    used = [any(len(l) > x and l[x] != " " for l in allv) for x in range(width)]
    # close single-blank gaps
    for x in range(1, width - 1):
        if not used[x] and used[x - 1] and used[x + 1]:
            used[x] = True
    spans, x = [], 0
    while x < width:
        if used[x]:
            y = x
            while y < width and used[y]:
                y += 1
            spans.append((x, y))
            x = y
        else:
            x += 1

    def chars(ls):
        return ["".join(l[a:b].replace(" ", "") for l in ls) for a, b in spans]
    return {"body": chars(body), "footer": chars(footer) if footer is not None else None, "lines": len(body), "spans": spans}


def cell_streams(cells):
    """the same per-column character streams for the cells handed to rich ({"rows": [[..]], "footer": [..] | None})"""
    ncol = len(cells["rows"][0]) if cells["rows"] else 0
    body = ["".join(r[j].replace(" ", "") for r in cells["rows"]) for j in range(ncol)]
    footer = None
    if cells["footer"] is not None:
        footer = [""] + [c.replace(" ", "") for c in cells["footer"]]
    return {"body": body, "footer": footer}


def streams_agree(shown, cells):
    """does the console show every cell completely? (columns that are empty in the cells - the footer's language cell -
    do not take part)"""
    if shown is None:
        return False
    want = cell_streams(cells)
    if [s for s in shown["body"]] != want["body"]:
        return False
    if (want["footer"] is None) != (shown["footer"] is None):
        return False
    if want["footer"] is not None:
        # the footer has no language cell: its streams are those of the numeric columns, aligned to the right
        got = [s for s in shown["footer"] if s]
        if got != [s for s in want["footer"] if s]:
            return False
    return True


def longest_word(cells_of_column):
    return max([len(w) for c in cells_of_column for w in str(c).split()] or [0])


def fits_wrapped(columns, width):
    """columns = for each table column every text shown in it (header, cells, footer). True when a console `width` wide
    is certainly wide enough for a `box.SIMPLE` table with one blank of padding on each side of a cell to show every
    WORD completely when texts may be wrapped between words: every column can have the smaller of its natural width and
    the length of the longest word of the whole table. (rich narrows the widest columns first, down to a common width.)"""
    natural = [max([len(str(c)) for c in col] or [0]) for col in columns]
    level = max([longest_word(col) for col in columns] or [0])
    need = sum(min(n, level) for n in natural) + 2 * len(columns) + (len(columns) - 1) + 2
    return need <= width


# ------------------------------------------------------------------ the CLI entry functions in a fresh process

_ENTRY = r"""
import json, os, sys
sys.path.insert(0, sys.argv[1])
job = json.loads(sys.argv[2])
import click
from pathlib import Path
import codelimit.__main__ as entry
from codelimit.common.report.ReportFormat import ReportFormat
code = None
try:
    if job["command"] == "report":
        entry.report(Path(job["path"]), Path(job["diff"]) if job.get("diff") else None, ReportFormat(job.get("format", "text")))
    elif job["command"] == "findings":
        entry.findings(Path(job["path"]), bool(job.get("full")), ReportFormat(job.get("format", "text")))
except click.exceptions.Exit as e:
    code = e.exit_code
except SystemExit as e:
    code = e.code
sys.stdout.flush()
sys.exit(code or 0)
"""


def run_entry(job, cwd=None, columns=None, timeout=120):
    """ONE fresh interpreter calling the function typer invokes for `codelimit report [--diff F] [--format X] PATH` /
    `codelimit findings [--full] [--format X] PATH` (codelimit.__main__.report / .findings: they load `.codelimit.yml`
    and call the command). Called as a function, not through `python -m codelimit`: the command line parser of the
    sandbox's typer 0.9.4 / click 8.5 pair is broken (DESIGN.md section 7). -> (exit code, stdout, stderr)"""
    import json
    import common
    env = dict(os.environ)
    env["PYTHONWARNINGS"] = "ignore"
    env["PYTHONIOENCODING"] = "utf-8"
    env["TERM"] = "dumb"
    if columns is not None:
        env["COLUMNS"] = str(columns)
        env["LINES"] = "50"
    p = subprocess.run([sys.executable, "-W", "ignore", "-c", _ENTRY, common.REPO, json.dumps(job)], cwd=cwd, env=env,
                       capture_output=True, text=True, timeout=timeout)
    return p.returncode, p.stdout, p.stderr
