"""Histories of calls on pattern OBJECTS (used by C13 and C14; runner: engine_real.run_history).

The model (and the exhaustive tree streams) see a pattern as a syntax tree and build new Python
objects for every case.  These streams vary what the tree does not show:
  sessions  - all trees of a size bound, one after the other in one process, structurally equal
              operator sub-trees being ONE object (within a pattern and across patterns); every
              call is made a second time on the same objects;
  variants  - the same trees over alphabets whose items are words / tuples / other values, with
              one-item operands written bare or as lists, operator objects shared inside a pattern;
  edits     - random histories: call, edit the expression list in place (slice / pop+append /
              pop(0)+insert / clear+extend) until it denotes another tree, call again;
  ladders   - geometric size ladders: sequence length, pattern width (items of the list), nesting.
The oracle is always the reference semantics of the tree the list denotes at the moment of the call."""
from gen import rx
import engine_real


def two_pass(calls):
    """every call a second time on the same objects (reverse order)"""
    return list(calls) + list(reversed(calls))


def sessions(trees, words, ops, rnd, chunk=30):
    hs = []
    orders = [list(trees), list(trees)]
    rnd.shuffle(orders[1])
    for n, order in enumerate(orders):
        for i in range(0, len(order), chunk):
            calls = [[op, w] for w in words for op in ops]
            hs.append({"kind": "session", "alphabet": "letters", "spelling": "list", "sharing": "history",
                       "steps": [{"ast": r, "how": "new", "calls": two_pass(calls) if n else calls} for r in order[i:i + chunk]]})
    return hs


def variants(trees, words, ops):
    hs = []
    for alphabet in rx.ALPHABETS:
        for spelling in rx.SPELLINGS:
            if (alphabet, spelling) == ("letters", "list"):
                continue    # that is the model stream
            for r in trees:
                hs.append({"kind": "variant", "alphabet": alphabet, "spelling": spelling,
                           "sharing": "pattern" if spelling == "bare" else "none",
                           "steps": [{"ast": r, "how": "new", "calls": [[op, w] for w in words for op in ops]}]})
    return hs


def biased_word(rnd, r, n, p_good=0.9):
    w = []
    cur = r
    for _ in range(n):
        good = [x for x in (1, 2, 3) if rx.deriv(cur, x) != rx.EMPTY]
        x = rnd.choice(good) if good and rnd.random() < p_good else rnd.choice((1, 2, 3, 4))
        w.append(x)
        cur = rx.deriv(cur, x)
        if cur == rx.EMPTY:
            if rnd.random() < 0.5:
                break
            cur = r     # start over: several words of the language in a row (for find_all)
    return w


def edits(rnd, n, ops, accept_tree=lambda r: True, max_word=8):
    hs = []
    while len(hs) < n:
        steps = []
        for k in range(rnd.randint(2, 4)):
            r = rx.random_dag(rnd, rnd.randint(2, 8)) if rnd.random() < 0.7 else rx.random_rx(rnd, rnd.randint(1, 4))
            if steps and rnd.random() < 0.5:
                # a small change of the previous tree: append / prepend / replace an item of the list
                prev = steps[-1]["ast"]
                extra = rx.random_rx(rnd, rnd.randint(1, 3))
                r = rnd.choice([("c", prev, extra), ("c", extra, prev), extra if prev[0] != "c" else ("c", prev[1], extra)])
            if not accept_tree(r):
                continue
            ws = []
            for q in ([r] + [s["ast"] for s in steps[-1:]]):   # words of the new AND of the previous tree
                for _ in range(3):
                    ws.append(biased_word(rnd, q, rnd.randint(1, max_word)))
            steps.append({"ast": r, "how": "new" if not steps else rnd.choice(engine_real.EDITS),
                          "calls": [[op, w] for w in ws for op in ops]})
        if len(steps) >= 2:
            hs.append({"kind": "edit", "alphabet": rnd.choice(list(rx.ALPHABETS)), "spelling": rnd.choice(rx.SPELLINGS),
                       "sharing": rnd.choice(rx.SHARINGS), "steps": steps})
    return hs


def long_word(rnd, P, n, restart=False, noise=0.0, segment=0):
    """a sequence of n items that stays inside the language of the position automaton P as long as it can"""
    w = []
    cur = None
    while len(w) < n:
        cand = P.first if cur is None else set().union(*[P.follow.get(p, ()) for p in cur])
        syms = sorted({P.pos[p] for p in cand})
        if not syms or (noise and rnd.random() < noise) or (segment and len(w) % segment == segment - 1):
            x = 4
        else:
            x = rnd.choice(syms)
        w.append(x)
        cur = {p for p in cand if P.pos[p] == x}
        if not cur:
            if not restart:
                break
            cur = None
    return w


def ladders(rnd, ops, lengths, widths, depths, accept_tree=lambda r: True, restart=False, per_rung=4, segment=0):
    hs = []
    for n in lengths:               # sequence length
        k = 0
        while k < per_rung:
            r = rx.random_rx(rnd, rnd.randint(3, 8))
            if not accept_tree(r) or not any(t[0] in ("s", "p") for t in rx.subtrees(r)):
                continue
            P = rx.PosRef(r)
            w = long_word(rnd, P, n, restart, segment=segment)
            if len(w) < n // 2:
                continue
            k += 1
            ws = [w, w[:-1] + [4], w + [w[0]]]
            hs.append({"kind": "ladder/length", "rung": n, "alphabet": "letters", "spelling": "list", "sharing": "none",
                       "steps": [{"ast": r, "how": "new", "calls": [[op, x] for x in ws for op in ops]}]})
    for n in widths:                # items in the expression list
        items = [rx.random_rx(rnd, rnd.randint(1, 3)) for _ in range(n)]
        items[0] = ("a", 1)        # not nullable
        r = rx.cat_all(items)
        P = rx.PosRef(r)
        ws = [long_word(rnd, P, 4 * n, restart, segment=segment and max(segment, 2 * n)) for _ in range(3)]
        ws.append(ws[0][:-1])
        hs.append({"kind": "ladder/width", "rung": n, "alphabet": "letters", "spelling": "list", "sharing": "none",
                   "steps": [{"ast": r, "how": "new", "calls": [[op, x] for x in ws for op in ops]}]})
    for d in depths:                # nesting depth of operators
        for op1 in rx.UN + ("u",):
            base = rx.random_rx(rnd, rnd.randint(1, 3))
            r = base
            for i in range(d):
                o = op1 if i % 2 == 0 else rnd.choice(rx.UN + ("u",))
                r = ("u", ("a", rnd.choice((1, 2, 3))), r) if o == "u" else (o, r)
            if not accept_tree(r):
                r = ("c", ("a", 1), r)
            P = rx.PosRef(r)
            ws = [long_word(rnd, P, 12, restart) for _ in range(3)] + [[1], [1, 1]]
            hs.append({"kind": "ladder/nesting", "rung": d, "alphabet": "letters", "spelling": "list", "sharing": "none",
                       "steps": [{"ast": r, "how": "new", "calls": [[op, x] for x in ws for op in ops]}]})
    return hs


def judge(hs, replies, bad_of):
    """bad_of(op, tree, word, reply) -> list of (kind, detail) (empty = fine)
    -> [(history index, step, call, reply, kind, detail)]"""
    out = []
    for hi, (h, rs) in enumerate(zip(hs, replies)):
        for i, (step, rr) in enumerate(zip(h["steps"], rs)):
            r = engine_real._tup(step["ast"])
            for j, ((op, w), rep) in enumerate(zip(step["calls"], rr)):
                for kind, detail in bad_of(op, r, w, rep):
                    out.append((hi, i, j, rep, kind, detail))
    return out


def shrink(h, i, j, bad_of, budget=400):
    """the history cut after call j of step i, with everything removed that is not needed for that
    call to fail (greedy; every candidate is re-run on the real code in this process)"""
    runs = [0]

    def fails(c):
        runs[0] += 1
        if runs[0] > budget:
            return False
        try:
            rs = engine_real.run_history(c)
        except Exception:  # noqa
            return False
        st = c["steps"][-1]
        op, w = st["calls"][-1]
        return bool(bad_of(op, engine_real._tup(st["ast"]), w, rs[-1][-1]))

    cur = {k: v for k, v in h.items() if k != "steps"}
    cur["steps"] = [dict(s) for s in h["steps"][:i + 1]]
    cur["steps"][-1]["calls"] = list(cur["steps"][-1]["calls"][:j + 1])
    if not fails(cur):
        return None          # not reproducible in this process
    c = dict(cur, steps=cur["steps"][:-1] + [dict(cur["steps"][-1], calls=cur["steps"][-1]["calls"][-1:])])
    if fails(c):
        cur = c
    k = 0
    while k < len(cur["steps"]) - 1:     # drop earlier steps
        c = dict(cur, steps=cur["steps"][:k] + cur["steps"][k + 1:])
        if fails(c):
            cur = c
        else:
            k += 1
    for k in range(len(cur["steps"]) - 1):   # fewer calls in the earlier steps
        for calls in ([], cur["steps"][k]["calls"][:1]):
            c = dict(cur, steps=[dict(s, calls=calls) if n == k else s for n, s in enumerate(cur["steps"])])
            if fails(c):
                cur = c
                break
    for key, simpler in (("sharing", ["none", "pattern"]), ("alphabet", ["letters"]), ("spelling", ["list"])):
        for v in simpler:
            if cur.get(key) != v and fails(dict(cur, **{key: v})):
                cur = dict(cur, **{key: v})
                break
    return cur


def describe(h):
    """the history as a small Python program"""
    lines = []
    for n, s in enumerate(h["steps"]):
        src = rx.show_expr(engine_real._tup(s["ast"]), h.get("alphabet", "letters"), h.get("spelling", "list"))
        how = s.get("how", "new")
        if how == "new" or n == 0:
            lines.append("E = %s" % src)
        else:
            lines.append("edit E in place (%s) to %s" % (how, src))
        sym = rx.sym_of(h.get("alphabet", "letters"))
        for op, w in s["calls"]:
            lines.append("  %s(E, %r)" % ({"sw": "starts_with", "nfa": "nfa_match", "findall": "find_all"}.get(op, op), [sym(k) for k in w]))
    share = h.get("sharing", "none")
    if share != "none":
        lines.insert(0, "# equal operator sub-trees are ONE object (%s)" % ("within each pattern" if share == "pattern" else "within and across the patterns of this history"))
    return lines
