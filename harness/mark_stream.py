"""Correspondence stream for `Props/C01marktext.lean` (+ `C01marks.lean`, `C01arrow.lean`): program FORESTS WITH
COMMENTS AND SUPPRESSION MARKERS -> the Lean driver's `marktree` operation (text, raw stream, flags, report read off
the TREE: comments dropped, functions named on a marked line dissolved) -> the REAL pipeline on that text.

For every forest:
  (a) the real lexer's kept tokens (kind, value, line, column), COMMENT TOKENS INCLUDED, must be the forest's tokens
      as rendered - otherwise the forest's vocabulary / comment placement is wrong: `lexer_mismatch` (never a
      violation).  One normalisation: the C, C++ and C# lexers put the terminating newline INTO a `//` comment token;
      the forest's comment token never contains it.  Required exactly: value = forest text + "\n" for `//` comments
      of those three languages, value = forest text everywhere else;
  (b) the flags wfCore, noAdj (of the comment-free forest), Spaced, noWs must be true, the returned text must be the
      text rendered in Python and the returned raw stream must tile it - otherwise `generator_bug`;
  (c) flag `canon` (the comment-free forest lies in the canonical fragment of its language: Canon / CanonJava /
      CanonJs or CanonJsArrow / CanonTs or CanonTsArrow): if false the theorem does not apply: `outside_fragment`
      (counted; a difference real vs tree is listed under `outside_fragment_differences`, not a failure);
  (d) the measurements of the real `scan_file(lex(text))` must be the driver's marked tree report:
      a difference is an `oracle_failure` (input = language + text, observed, required).

Usage:  /venv/bin/python mark_stream.py [-n 2000] [--seed 0] [--driver PATH] [--json out.json]
        VERIF_REPO=/path/to/worktree selects the tree of the real code (default /repo).
"""
import argparse
import json
import os
import random
import sys

HERE = os.path.dirname(os.path.abspath(__file__))
sys.path.insert(0, HERE)
import common  # noqa: E402  (puts VERIF_REPO or /repo on sys.path, sets the guard variable)
import scan_real as sr  # noqa: E402
import tree_stream  # noqa: E402
from gen import trees  # noqa: E402

DEFAULT_DRIVER = common.DRIVER
FLAGS = ("canon", "wfCore", "noAdj", "Spaced", "noWs")
NL_IN_LINE_COMMENT = ("C", "C++", "C#")


def decode_mark(reply):
    """'ok f*5 <text> <nraw> raw* <k> meas*' -> dict, or None (same layout as the `tree` reply)"""
    d = tree_stream.decode_tree(reply)
    if d is None:
        return None
    vals = list(d["flags"].values())
    d["flags"] = dict(zip(FLAGS, vals))
    return d


def expected_real_tokens(lang, located):
    """what the real lexer must return for the rendered forest tokens (see (a))"""
    out = []
    for (kind, text, line, col) in located:
        if kind == 5 and text.startswith("//") and lang in NL_IN_LINE_COMMENT:
            text = text + "\n"
        out.append((kind, text, line, col))
    return out


def gen_cases(rnd, n, langs=trees.BRACE):
    cases = []
    for i in range(n):
        lang = langs[i % len(langs)]
        nodes, ts, info = trees.generate_marked(lang, rnd)
        cases.append((lang, nodes, ts, info))
    return cases


def correspond(rnd, n, driver=DEFAULT_DRIVER, langs=trees.BRACE, keep=50, cases=None):
    cases = cases if cases is not None else gen_cases(rnd, n, langs)
    reqs = [trees.mark_request(lang, nodes) for (lang, nodes, _, _) in cases]
    replies = tree_stream.run_driver(driver, reqs)
    frags = tree_stream.run_driver(driver, ["markcanon" + q[len("marktree"):] for q in reqs])
    lexer_mismatch, generator_bug, fails, model_errors, outside, outside_diff = [], [], [], [], [], []
    counts = {"lexer_mismatch": 0, "generator_bug": 0, "oracle_failures": 0, "model_errors": 0, "compared": 0,
              "outside_fragment": 0, "outside_fragment_differences": 0,
              "in_plain_fragment": 0, "in_arrow_fragment_only": 0}
    nontrivial = set()
    dist = {"functions": 0, "reported": 0, "max_depth": 0, "max_len": 0, "tokens": 0, "lines": 0, "comment_tokens": 0,
            "marker_tokens": 0, "decoy_tokens": 0, "functions_on_marked_lines": 0, "forests_with_comments": 0,
            "forests_with_markers": 0, "forests_with_marked_function": 0, "forests_with_marked_enclosing_function": 0,
            "forests_with_marked_nested_function": 0, "comments_in_header": 0, "comments_in_gap": 0,
            "line_comments": 0, "block_comments": 0, "per_language": {}, "reported_per_language": {}}
    samples = []
    for (lang, nodes, ts, info), reply, fr in zip(cases, replies, frags):
        text_py, located = trees.render(ts)
        d = None
        try:
            d = decode_mark(reply)
        except Exception as e:  # noqa
            reply = "undecodable (%s): %s" % (e, reply[:200])
        if d is None:
            counts["model_errors"] += 1
            model_errors.append({"input": {"language": lang, "code": text_py}, "model": reply[:300]})
            continue
        text = d["text"]
        inp = {"language": lang, "code": text}
        # (a) the real lexer sees the forest's tokens, comments included
        real = tree_stream.real_tokens(lang, text)
        want = expected_real_tokens(lang, located)
        if real != want:
            counts["lexer_mismatch"] += 1
            j = next((k for k, (a, b) in enumerate(zip(real, want)) if a != b), min(len(real), len(want)))
            lexer_mismatch.append({"input": inp, "index": j, "real": real[max(0, j - 2):j + 3], "forest": want[max(0, j - 2):j + 3]})
            continue
        # (b) hypotheses of the theorem, and the rendering itself
        why = [f for f in FLAGS[1:] if not d["flags"][f]]
        if text != text_py:
            why.append("text differs from the Python rendering")
        if not tree_stream.tiles(text, d["raw"]):
            why.append("raw stream does not tile the text")
        if why:
            counts["generator_bug"] += 1
            generator_bug.append({"input": inp, "why": why})
            continue
        r = sr.real_scan(lang, text)
        rd = sr.decode_scan(r)
        got = rd[0] if rd else r
        exp = d["report"]
        differs = got != exp or (rd and rd[1] != sum(m[5] for m in exp))
        # (c) outside the canonical fragment: the theorem says nothing
        if not d["flags"]["canon"]:
            counts["outside_fragment"] += 1
            if len(outside) < keep:
                outside.append(inp)
            if differs:
                counts["outside_fragment_differences"] += 1
                outside_diff.append({"input": inp, "observed": got, "required": exp})
            continue
        if fr.startswith("ok 1"):
            counts["in_plain_fragment"] += 1
        elif fr == "ok 0 1":
            counts["in_arrow_fragment_only"] += 1
        # (d) the real measurements are the marked tree report
        counts["compared"] += 1
        if differs:
            counts["oracle_failures"] += 1
            fails.append({"input": inp, "observed": got, "required": exp})
        nf, depth = trees.count_fns(nodes)
        if exp:
            nontrivial.add((lang, text))
        coms = [t for t in ts if t.kind == 5]
        marks = [t for t in coms if trees.is_marker_text(t.text)]
        dist["functions"] += nf
        dist["reported"] += len(exp)
        dist["max_depth"] = max(dist["max_depth"], depth)
        dist["max_len"] = max([dist["max_len"]] + [m[5] for m in exp])
        dist["tokens"] += len(ts)
        dist["lines"] += text.count("\n")
        dist["comment_tokens"] += len(coms)
        dist["marker_tokens"] += len(marks)
        dist["decoy_tokens"] += sum(1 for t in coms if t.role == "decoy")
        dist["line_comments"] += sum(1 for t in coms if t.text.startswith("//"))
        dist["block_comments"] += sum(1 for t in coms if t.text.startswith("/*"))
        dist["functions_on_marked_lines"] += info["marked_name_lines"]
        dist["forests_with_comments"] += 1 if coms else 0
        dist["forests_with_markers"] += 1 if marks else 0
        dist["forests_with_marked_function"] += 1 if info["marked_name_lines"] else 0
        me, mn, ch, cg = marked_shapes(nodes, ts)
        dist["forests_with_marked_enclosing_function"] += 1 if me else 0
        dist["forests_with_marked_nested_function"] += 1 if mn else 0
        dist["comments_in_header"] += ch
        dist["comments_in_gap"] += cg
        dist["per_language"][lang] = dist["per_language"].get(lang, 0) + 1
        dist["reported_per_language"][lang] = dist["reported_per_language"].get(lang, 0) + len(exp)
        if len(samples) < 3 and len(exp) >= 1 and marks and len(text) < 700:
            samples.append({"language": lang, "code": text, "expected": exp})
    return {
        "evaluations": len(cases), "distinct_nontrivial": len(nontrivial),
        "rule": "random forests (Prog PTok) of the six brace languages from harness/gen/trees.py, decorated with comment tokens: own-line and "
                "trailing // and /* */ comments anywhere (between statements, inside multi-line headers and their brace groups, in gaps, after "
                "'{', before the first / after the last token), block comments inside a line, suppression markers (// nocl, /* NOCL */, //nocl x, "
                "...) and decoys (// not nocl, /// nocl, ...) on the name lines of a random subset of functions (nested and enclosing ones "
                "included) and on other lines; driver op `marktree` gives text + raw stream + flags + MARKED TREE report (no matcher "
                "evaluated); real lexer tokens incl. comments = forest tokens; flags true; real scan_file(lex(text)) = marked tree report; "
                "non-trivial = distinct texts with at least one reported function",
        "samples": samples, "exhaustive": False, "distribution": dist, "counts": counts,
        "lexer_mismatch": lexer_mismatch[:keep], "generator_bug": generator_bug[:keep], "model_errors": model_errors[:keep],
        "outside_fragment": outside[:keep], "outside_fragment_differences": outside_diff[:keep],
        "disagreements": [], "oracle_failures": fails[:keep],
    }


def marked_shapes(nodes, ts):
    """(some marked function encloses a function, some marked function is nested in a function,
        number of comments inside headers, number of comments in gaps)"""
    lo = trees.line_of(ts)
    marked = {lo[id(t)][0] for t in ts if t.kind == 5 and trees.is_marker_text(t.text)}
    res = {"enc": False, "nest": False, "hdr": 0, "gap": 0}

    def walk(ns, depth):
        for n in ns:
            if n[0] == "group":
                walk(n[3], depth)
            elif n[0] == "fn":
                name = trees.flat(n[1])[n[2]]
                res["hdr"] += sum(1 for t in trees.flat(n[1]) if t.kind == 5)
                res["gap"] += sum(1 for t in n[3] if t.kind == 5)
                if lo[id(name)][0] in marked:
                    if trees.count_fns(n[6])[0] > 0:
                        res["enc"] = True
                    if depth > 0:
                        res["nest"] = True
                walk(n[6], depth + 1)
    walk(nodes, 0)
    return res["enc"], res["nest"], res["hdr"], res["gap"]


def main():
    ap = argparse.ArgumentParser()
    ap.add_argument("-n", type=int, default=2000)
    ap.add_argument("--seed", type=int, default=0)
    ap.add_argument("--driver", default=DEFAULT_DRIVER)
    ap.add_argument("--json", default=None)
    ap.add_argument("--show", type=int, default=3)
    a = ap.parse_args()
    res = correspond(random.Random(a.seed), a.n, a.driver)
    if a.json:
        with open(a.json, "w") as f:
            json.dump(res, f, indent=1, default=str)
    print(json.dumps({"repo": common.REPO, "driver": a.driver, "evaluations": res["evaluations"],
                      "distinct_nontrivial": res["distinct_nontrivial"], "counts": res["counts"],
                      "distribution": res["distribution"]}, indent=1))
    for key in ("model_errors", "lexer_mismatch", "generator_bug", "oracle_failures", "outside_fragment_differences"):
        for x in res[key][:a.show]:
            print("---- %s" % key)
            print(json.dumps(x, indent=1, default=str)[:3000])
    return 1 if res["counts"]["oracle_failures"] else 0


if __name__ == "__main__":
    sys.exit(main())
