"""Shared plumbing for the checks: paths, PRNG, Lean build/audit, model driver, evidence,
violation reporting, known findings."""
import fcntl
import hashlib
import json
import os
import random
import re
import subprocess
import sys
import time
import warnings

warnings.simplefilter("ignore", SyntaxWarning)   # /repo has a '\[' in a non-raw string
os.environ.setdefault("PYTHONWARNINGS", "ignore::SyntaxWarning")

VERIF = os.path.dirname(os.path.dirname(os.path.abspath(__file__)))
REPO = os.environ.get("VERIF_REPO", "/repo")
LEAN = os.path.join(VERIF, "lean")
DRIVER = os.path.join(LEAN, ".lake", "build", "bin", "cldriver")
EVIDENCE = os.path.join(VERIF, "evidence")
REPLAYS = os.path.join(VERIF, "replays")
GUARD = "CODELIMIT_VERIF"
ALLOWED_AXIOMS = {"propext", "Classical.choice", "Quot.sound"}

if REPO not in sys.path:
    sys.path.insert(0, REPO)
os.environ.setdefault(GUARD, "1")


def seed() -> int:
    try:
        return int(os.environ.get("VERIF_SEED", "0"))
    except ValueError:
        return 0


def rng(*salt) -> random.Random:
    h = hashlib.sha256(("%d|" % seed() + "|".join(map(str, salt))).encode()).digest()
    return random.Random(int.from_bytes(h[:8], "big"))


class Timer:
    def __init__(self):
        self.t0 = time.time()

    def s(self):
        return round(time.time() - self.t0, 2)


# ------------------------------------------------------------------ Lean side

class LeanResult:
    def __init__(self):
        self.ok = True
        self.build_log = ""
        self.failed_modules = []
        self.theorems = []          # declared property theorems
        self.discharged = []        # compiled + axiom audit passed
        self.axioms = {}            # theorem -> sorted list
        self.bad = []               # (theorem, reason)
        self.grep_hits = []
        self.leanchecker = None


def _lake(args, timeout=3000):
    lock = open(os.path.join(LEAN, ".build.lock"), "w")
    fcntl.flock(lock, fcntl.LOCK_EX)
    try:
        p = subprocess.run(["lake"] + args, cwd=LEAN, capture_output=True, text=True, timeout=timeout)
        return p.returncode, p.stdout + p.stderr
    finally:
        fcntl.flock(lock, fcntl.LOCK_UN)
        lock.close()


def build_driver():
    rc, log = _lake(["build", "cldriver"])
    if rc != 0:
        raise RuntimeError("cannot build model driver:\n" + log[-4000:])


_THM = re.compile(r"^\s*(?:@\[[^\]]*\]\s*)?theorem\s+([A-Za-z_][\w.']*)", re.M)
_BANNED = re.compile(r"\b(sorry|admit|native_decide|bv_decide|implemented_by|unsafe)\b|^\s*axiom\s|maxHeartbeats\s+0\b", re.M)


def _strip_comments(src: str) -> str:
    out = []
    i, n, depth = 0, len(src), 0
    while i < n:
        if src.startswith("/-", i):
            depth += 1; i += 2; continue
        if depth and src.startswith("-/", i):
            depth -= 1; i += 2; continue
        if depth:
            if src[i] == "\n":
                out.append("\n")
            i += 1; continue
        if src.startswith("--", i):
            while i < n and src[i] != "\n":
                i += 1
            continue
        out.append(src[i]); i += 1
    return "".join(out)


def lean_sources():
    res = []
    for root, _dirs, files in os.walk(os.path.join(LEAN, "CodeLimit")):
        for f in files:
            if f.endswith(".lean"):
                res.append(os.path.join(root, f))
    return sorted(res)


# further modules whose theorems belong to a property's obligations
EXTRA_MODULES = {
    "C14": ["CodeLimit.Props.C14b", "CodeLimit.Props.C14nest"],
    "C01": ["CodeLimit.Lemmas.GenTie", "CodeLimit.Props.C01disc", "CodeLimit.Props.C01py", "CodeLimit.Props.C01syn",
            "CodeLimit.Props.C01tree", "CodeLimit.Props.C01pyfull", "CodeLimit.Props.C01text", "CodeLimit.Props.C01full",
            "CodeLimit.Props.C01arrow", "CodeLimit.Props.C01marks", "CodeLimit.Props.C01pytext", "CodeLimit.Props.C01marktext"],
    "C02": ["CodeLimit.Props.Gaps"],
    "C03": ["CodeLimit.Lemmas.GenTie", "CodeLimit.Props.Gaps", "CodeLimit.Props.C12cwd"],
    "C10": ["CodeLimit.Props.Gaps", "CodeLimit.Props.C10real"],
    "C04": ["CodeLimit.Lemmas.GenTie", "CodeLimit.Props.C01marks"],
    "C05": ["CodeLimit.Lemmas.GenTie", "CodeLimit.Props.C05text", "CodeLimit.Props.C05report"],
    "C06": ["CodeLimit.Props.C06scan"],
    "C09": ["CodeLimit.Props.Pipeline", "CodeLimit.Props.C09sel"],
    "C11": ["CodeLimit.Props.C11pat", "CodeLimit.Props.C11patRegex", "CodeLimit.Props.Pipeline", "CodeLimit.Props.Entry"],
    "C12": ["CodeLimit.Props.C11pat", "CodeLimit.Props.Pipeline", "CodeLimit.Props.C12cwd", "CodeLimit.Props.Entry"],
    "C17": ["CodeLimit.Lemmas.GenTie", "CodeLimit.Props.C01marks"],
}


def module_theorems(mod: str):
    """fully qualified names of the theorems declared in a module (nested namespaces / sections followed)"""
    path = os.path.join(LEAN, *mod.split(".")) + ".lean"
    src = _strip_comments(open(path).read())
    stack = []          # ("ns", name) | ("sec", name)
    out = []
    for line in src.splitlines():
        m = re.match(r"^\s*namespace\s+(\S+)", line)
        if m:
            stack.append(("ns", m.group(1))); continue
        m = re.match(r"^\s*(?:noncomputable\s+)?section\b\s*(\S*)", line)
        if m:
            stack.append(("sec", m.group(1))); continue
        m = re.match(r"^\s*end\b\s*(\S*)\s*$", line)
        if m and stack:
            stack.pop(); continue
        m = _THM.match(line)
        if m:
            t = m.group(1)
            if t.startswith("_root_."):
                out.append(t[len("_root_."):])
            else:
                out.append(".".join([n for k, n in stack if k == "ns"] + [t]))
    return out


def prop_theorems(pid: str):
    out = []
    for mod in ["CodeLimit.Props." + pid] + EXTRA_MODULES.get(pid, []):
        out += module_theorems(mod)
    return out


def lean_check(pid: str, thorough=False) -> LeanResult:
    """build Props/<pid>.lean (and everything it imports, incl. regenerated Gen files), then
    audit axioms of every theorem declared there and grep all sources for banned constructs"""
    r = LeanResult()
    mod = "CodeLimit.Props." + pid
    mods = [mod] + EXTRA_MODULES.get(pid, [])
    rc, log = _lake(["build"] + mods)
    r.build_log = log
    try:
        r.theorems = prop_theorems(pid)
    except OSError:
        r.theorems = []
    if rc != 0:
        r.ok = False
        r.failed_modules = sorted(set(re.findall(r"error: (?:\S*?/)?(CodeLimit/[\w/]+\.lean)", log)))
        r.bad.append((mod, "build failed"))
        return r
    for path in lean_sources():
        for m in _BANNED.finditer(_strip_comments(open(path).read())):
            r.grep_hits.append("%s: %s" % (os.path.relpath(path, LEAN), m.group(0).strip()))
    if r.grep_hits:
        r.ok = False
        r.bad.append((mod, "banned construct: " + "; ".join(r.grep_hits[:5])))
    audit = os.path.join(LEAN, ".lake", "Audit_%s.lean" % pid)
    with open(audit, "w") as f:
        for m_ in mods:
            f.write("import %s\n" % m_)
        for t in r.theorems:
            f.write("#print axioms %s\n" % t)
    rc, out = _lake(["env", "lean", audit])
    if rc != 0:
        r.ok = False
        r.bad.append((mod, "audit failed: " + out[-1500:]))
        return r
    cur = None
    text = out.replace("\n  ", " ").replace("\n ", " ")
    for line in text.splitlines():
        m = re.match(r"'([^']+)' depends on axioms: \[(.*)\]", line)
        m2 = re.match(r"'([^']+)' does not depend on any axioms", line)
        if m:
            r.axioms[m.group(1)] = sorted(a.strip() for a in m.group(2).split(","))
        elif m2:
            r.axioms[m2.group(1)] = []
    for t in r.theorems:
        if t not in r.axioms:
            r.ok = False; r.bad.append((t, "no axiom report")); continue
        extra = set(r.axioms[t]) - ALLOWED_AXIOMS
        if extra:
            r.ok = False; r.bad.append((t, "extra axioms: " + ", ".join(sorted(extra))))
        else:
            r.discharged.append(t)
    if not r.theorems:
        r.ok = False; r.bad.append((mod, "no theorems declared"))
    if thorough and r.ok:
        rc, out = _lake(["env", "leanchecker", mod], timeout=3000)
        r.leanchecker = (rc == 0)
        if rc != 0:
            r.ok = False; r.bad.append((mod, "leanchecker: " + out[-1500:]))
    return r


def write_if_changed(path, text):
    try:
        if open(path).read() == text:
            return False
    except OSError:
        pass
    os.makedirs(os.path.dirname(path), exist_ok=True)
    with open(path, "w") as f:
        f.write(text)
    return True


# ------------------------------------------------------------------ shrinking of failing inputs

def shrink_text(text, still_fails, budget_s=4.0):
    """delta debugging on the lines, then on the characters, of a failing text; `still_fails(candidate)`
    re-evaluates the property's oracle on the REAL code. Time-boxed; returns the smallest failing
    text found (the original if nothing smaller fails)."""
    t0 = time.time()

    def ddmin(units, join):
        n = 2
        while len(units) >= 2 and time.time() - t0 < budget_s:
            size = max(1, len(units) // n)
            reduced = False
            for i in range(0, len(units), size):
                cand = units[:i] + units[i + size:]
                if time.time() - t0 >= budget_s:
                    break
                try:
                    bad = cand and still_fails(join(cand))
                except Exception:
                    bad = False
                if bad:
                    units = cand
                    n = max(n - 1, 2)
                    reduced = True
                    break
            if not reduced:
                if size == 1:
                    break
                n = min(len(units), n * 2)
        return units
    lines = ddmin(text.split("\n"), "\n".join)
    text2 = "\n".join(lines)
    if len(text2) <= 400:
        text2 = "".join(ddmin(list(text2), "".join))
    return text2 if len(text2) < len(text) else text


# ------------------------------------------------------------------ model driver

def run_driver(lines):
    """send request lines to the native model driver, return reply lines"""
    if not lines:
        return []
    data = "\n".join(lines) + "\n"
    p = subprocess.run([DRIVER], input=data, capture_output=True, text=True)
    out = p.stdout.splitlines()
    if p.returncode != 0 or len(out) != len(lines):
        # find the first line the driver could not answer, report it as a crash of the model
        out = out + ["model-crash rc=%s %s" % (p.returncode, p.stderr[-200:].replace("\n", " "))] * (len(lines) - len(out))
    return out


def run_driver_sharded(lines, shards=16):
    from concurrent.futures import ThreadPoolExecutor
    if len(lines) < 2000:
        return run_driver(lines)
    k = (len(lines) + shards - 1) // shards
    parts = [lines[i:i + k] for i in range(0, len(lines), k)]
    with ThreadPoolExecutor(max_workers=shards) as ex:
        outs = list(ex.map(run_driver, parts))
    return [x for o in outs for x in o]


# ------------------------------------------------------------------ findings / evidence

def known_findings():
    try:
        return json.load(open(os.path.join(VERIF, "known_findings.json")))
    except OSError:
        return {"known": [], "fixed": []}


def write_replay(pid, payload):
    os.makedirs(REPLAYS, exist_ok=True)
    h = hashlib.sha256(json.dumps(payload, sort_keys=True, default=str).encode()).hexdigest()[:10]
    path = os.path.join(REPLAYS, "%s-%d-%s.json" % (pid, seed(), h))
    payload = dict(payload, property=pid, seed=seed(), replay_cmd="./check replay " + os.path.relpath(path, VERIF))
    with open(path, "w") as f:
        json.dump(payload, f, indent=1, default=str, sort_keys=True)
    return os.path.relpath(path, VERIF)


def write_evidence(pid, tier, coverage, wall_s, violations, assumptions):
    os.makedirs(EVIDENCE, exist_ok=True)
    doc = {
        "property_id": pid, "tier": tier, "seed": seed(), "level": "proof",
        "coverage": coverage, "assumptions": assumptions, "wall_s": wall_s, "violations": violations,
    }
    with open(os.path.join(EVIDENCE, pid + ".json"), "w") as f:
        json.dump(doc, f, indent=1, default=str)
