"""In-process driver of the real lex + scan_file pipeline, and the encoding of the same
input for the model driver (`scan` / `lexpos` requests)."""
import os
import sys

sys.path.insert(0, os.path.dirname(os.path.abspath(__file__)))
sys.path.insert(0, os.path.join(os.path.dirname(os.path.dirname(os.path.abspath(__file__))), "translator"))
import common  # noqa
import engine_real
import patterns

EXT = {"C": "c", "C++": "cpp", "C#": "cs", "Java": "java", "JavaScript": "js", "Python": "py", "TypeScript": "ts"}
LANGS = patterns.LANGS
_lexers = {}


def lexer_for(lang):
    if lang not in _lexers:
        from pygments.lexers import get_lexer_for_filename
        _lexers[lang] = get_lexer_for_filename("x." + EXT[lang])
    return _lexers[lang]


def kind_of(tt):
    from pygments.token import Keyword, Name, Punctuation, Operator, Comment, Text, Whitespace, String
    if tt in Keyword:
        return 1
    if tt in Name:
        return 2
    if tt in Punctuation:
        return 3
    if tt in Operator:
        return 4
    if tt in Comment:
        return 5
    if tt == Text or tt == Whitespace:
        return 6
    if tt in String:
        return 7
    return 0


def sstr(text):
    return "%d%s" % (len(text), "".join(" %d" % ord(c) for c in text))


def raw_tokens(lang, code):
    """(raw triples, contract violations)"""
    raw = list(lexer_for(lang).get_tokens_unprocessed(code))
    bad = []
    pos = 0
    for (off, tt, val) in raw:
        if off != pos:
            bad.append("offset %d, expected %d" % (off, pos))
            break
        if code[off:off + len(val)] != val:
            bad.append("value mismatch at %d" % off)
            break
        pos = off + len(val)
    if not bad and pos != len(code):
        bad.append("tokens end at %d, text has %d" % (pos, len(code)))
    return raw, bad


def encode_raw(raw):
    tys = {}
    parts = [str(len(raw))]
    for (off, tt, val) in raw:
        ty = tys.setdefault(str(tt), len(tys))
        parts.append("%d %d %d %s" % (off, kind_of(tt), ty, sstr(val)))
    return " ".join(parts)


def scan_request(lang, code, raw=None):
    if raw is None:
        raw, _ = raw_tokens(lang, code)
    return "scan %d %s %s" % (LANGS.index(lang), sstr(code), encode_raw(raw))


def real_scan(lang, code):
    """reply string in the model driver's format"""
    from codelimit.common.lexer_utils import lex
    from codelimit.common.Scanner import scan_file
    from codelimit.languages import Languages
    try:
        toks = lex(lexer_for(lang), code, False)
        ms = scan_file(toks, Languages.by_name[lang])
        out = "ok %d" % len(ms)
        for m in ms:
            out += " %s %d %d %d %d %d" % (sstr(m.unit_name), m.start.line, m.start.column, m.end.line, m.end.column, m.value)
        return out + " %d" % sum(m.value for m in ms)
    except RecursionError:
        return "err 8"
    except Exception as e:  # noqa
        return "err %d" % engine_real.err_code(e)


def decode_scan(reply):
    """'ok k (name sl sc el ec len)* total' -> list of tuples, total"""
    ws = reply.split()
    if ws[0] != "ok":
        return None
    k = int(ws[1]); i = 2; out = []
    for _ in range(k):
        n = int(ws[i]); i += 1
        name = "".join(chr(int(x)) for x in ws[i:i + n]); i += n
        sl, sc, el, ec, ln = map(int, ws[i:i + 5]); i += 5
        out.append((name, sl, sc, el, ec, ln))
    return out, int(ws[i])


_lang_lines = None


def lang_lines():
    global _lang_lines
    if _lang_lines is None:
        _lang_lines = patterns.driver_lines(patterns.extract(common.REPO))
    return _lang_lines


def model_scan_many(reqs, shards=16):
    """run scan requests through the model driver; every shard first gets the `lang` lines"""
    from concurrent.futures import ThreadPoolExecutor
    ll = lang_lines()
    if not reqs:
        return []
    k = max(1, (len(reqs) + shards - 1) // shards)
    parts = [reqs[i:i + k] for i in range(0, len(reqs), k)]

    def one(part):
        return common.run_driver(ll + part)[len(ll):]
    with ThreadPoolExecutor(max_workers=shards) as ex:
        outs = list(ex.map(one, parts))
    return [x for o in outs for x in o]


def _work(chunk):
    return [real_scan(lang, code) for (lang, code) in chunk]


def real_scan_many(cases, workers=16):
    from concurrent.futures import ProcessPoolExecutor
    if len(cases) < 64:
        return _work(cases)
    k = max(8, (len(cases) + workers * 4 - 1) // (workers * 4))
    chunks = [cases[i:i + k] for i in range(0, len(cases), k)]
    with ProcessPoolExecutor(max_workers=workers) as ex:
        outs = list(ex.map(_work, chunks))
    return [x for o in outs for x in o]
