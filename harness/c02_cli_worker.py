"""Worker for C02 (stream `cli-entry`): ONE fresh interpreter, working directory = the job's root, calls the
real CLI entry function `codelimit.__main__.check(paths, exclude, quiet, verbose)` - the function typer
invokes for `codelimit check ...`; it loads `./.codelimit.yml`, sets up logging and calls check_command -
once per entry of job["calls"], in this process. Everything the calls write to stdout / stderr is the
process's own output (the parent reads it); after each call a sentinel line carries the exit code.

(Called as a function, not through `python -m codelimit`: with typer 0.9.4 / click 8.5 of this sandbox the
command line parser hands `--quiet` over as None - DESIGN.md section 7, observations.)"""
import json
import os
import sys

sys.path.insert(0, os.path.dirname(os.path.abspath(__file__)))
import common  # noqa  (puts VERIF_REPO / /repo first on sys.path)

SENTINEL = "\x1e\x1eC02-CALL-END "

job = json.load(open(sys.argv[1]))
os.chdir(job["root"])
import click  # noqa: E402
from pathlib import Path  # noqa: E402
import codelimit.__main__ as entry  # noqa: E402

for call in job["calls"]:
    code, err = None, None
    try:
        entry.check([Path(p) for p in call["paths"]], call.get("exclude") or None, call["quiet"], call["verbose"])
    except click.exceptions.Exit as e:
        code = e.exit_code
    except SystemExit as e:
        code = e.code
    except Exception as e:  # noqa: BLE001  a crash of the command is an observation
        err = "%s: %s" % (type(e).__name__, e)
    sys.stdout.flush()
    sys.stderr.flush()
    sys.stdout.write("%s%s\n" % (SENTINEL, json.dumps({"code": code, "error": err})))
    sys.stdout.flush()
