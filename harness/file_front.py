"""Observation through the entry points users use: files on disk -> Scanner.scan_path (what `codelimit scan` runs, with
or without a cached report), commands.check.check_file (what `codelimit check` runs per file) and the CLI in a fresh
process - instead of lex() + scan_file() on a str with a hand-picked lexer.

What is written is BYTES: the same text with LF / CR LF / CR / mixed line ends, with or without a UTF-8 signature, as
UTF-8 or Latin-1; `read_back` is what every universal-newlines reader makes of them (computed here, independently of
the code under check).  File names come from harness/gen/names.py (every name Pygments maps to a supported language,
NFC / NFD twins, awkward characters)."""
import os
import shutil
import subprocess
import sys
import tempfile
from pathlib import Path

import common
from gen import names as gnames

NEWLINES = ("lf", "crlf", "cr", "mixed")
BOM = "\ufeff"


def to_bytes(text, newline="lf", bom=False, rnd=None, encoding="utf-8"):
    """the bytes of a file that reads back (universal newlines) as `text` (which holds no carriage return)"""
    assert "\r" not in text
    if newline == "lf":
        out = text
    elif newline == "crlf":
        out = text.replace("\n", "\r\n")
    elif newline == "cr":
        out = text.replace("\n", "\r")
    else:
        parts = text.split("\n")
        buf, prev = [], None
        for i, ln in enumerate(parts[:-1]):
            # a CR directly followed by an LF would read back as ONE line end: an empty line behind a CR gets CR or CR LF
            term = rnd.choice(["\r", "\r\n"] if (prev == "\r" and ln == "") else ["\n", "\r\n", "\r", "\r\n"])
            buf.append(ln + term)
            prev = term
        out = "".join(buf) + parts[-1]
    return ((BOM if bom else "") + out).encode(encoding, "surrogatepass" if encoding == "utf-8" else "strict")


def read_back(data):
    """the text a reader with universal newlines gets: UTF-8, else Latin-1 (the two encodings Code Limit reads)"""
    try:
        t = data.decode("utf-8")
    except UnicodeDecodeError:
        t = data.decode("latin-1")
    return t.replace("\r\n", "\n").replace("\r", "\n")


_by_lang = {}


def file_names(lang, stem="unit"):
    """[(file name, competitors)]: every file name pattern Pygments maps to `lang` AND resolves to it without looking at
    the content (as Code Limit does)"""
    if lang not in _by_lang:
        for (fn, l2, others) in gnames.language_file_names("STEM"):
            if gnames.resolves_to(fn) == l2:
                _by_lang.setdefault(l2, []).append((fn, others))
    return [(fn.replace("STEM", stem), others) for (fn, others) in _by_lang.get(lang, [])]


def pick_name(lang, rnd, stem, plain_ext, share=0.5):
    """file name for a program in `lang`: the plain `<stem>.<ext>`, or (for `share`) any name Pygments maps to the language,
    half of those among the names that another lexer claims as well (`*.h`, `*.hh`, `*.cp`, ...)"""
    if rnd.random() >= share:
        return "%s.%s" % (stem, plain_ext)
    pool = file_names(lang, stem)
    contested = [fn for (fn, others) in pool if others]
    if contested and rnd.random() < 0.5:
        return rnd.choice(contested)
    return rnd.choice(pool)[0] if pool else "%s.%s" % (stem, plain_ext)


def ms_tuple(m):
    return (m.unit_name, m.start.line, m.start.column, m.end.line, m.end.column, m.value)


def encode_reply(ms):
    """measurement tuples -> the reply format of scan_real.real_scan (for the oracles written against it)"""
    import scan_real as sr
    out = "ok %d" % len(ms)
    for (n, sl, sc, el, ec, v) in ms:
        out += " %s %d %d %d %d %d" % (sr.sstr(n), sl, sc, el, ec, v)
    return out + " %d" % sum(m[5] for m in ms)


class Tree:
    """a scratch directory of files; `scan()` = Scanner.scan_path on it"""

    def __init__(self, prefix="ff_"):
        self.root = tempfile.mkdtemp(prefix=prefix)
        self.files = {}      # rel -> bytes

    def write(self, rel, data, mtime=None):
        p = os.path.join(self.root, rel)
        os.makedirs(os.path.dirname(p), exist_ok=True)
        with open(p, "wb") as f:
            f.write(data)
        if mtime is not None:
            os.utime(p, (mtime, mtime))
        self.files[rel] = data
        return p

    def rename(self, rel, new_rel):
        os.makedirs(os.path.dirname(os.path.join(self.root, new_rel)), exist_ok=True)
        os.rename(os.path.join(self.root, rel), os.path.join(self.root, new_rel))
        self.files[new_rel] = self.files.pop(rel)

    def remove(self, rel):
        os.unlink(os.path.join(self.root, rel))
        self.files.pop(rel)

    def scan(self, cached_report=None, root=None):
        """-> (Codebase | None, error text | None)"""
        from codelimit.common import Scanner
        try:
            return Scanner.scan_path(Path(root or self.root), cached_report), None
        except BaseException as e:  # noqa
            import traceback
            tb = traceback.extract_tb(e.__traceback__)[-1]
            return None, "%s: %s (%s:%d %s)" % (type(e).__name__, str(e)[:160], os.path.basename(tb.filename), tb.lineno, tb.name)

    def close(self):
        shutil.rmtree(self.root, ignore_errors=True)

    def __enter__(self):
        return self

    def __exit__(self, *a):
        self.close()


def entries(codebase):
    """{rel path as listed: (language, [measurement tuples], loc)}"""
    out = {}
    for rel, e in codebase.files.items():
        out[rel] = (e.language, [ms_tuple(m) for m in e.measurements()], e.loc)
    return out


def report_of(codebase):
    from codelimit.common.report.Report import Report
    return Report(codebase)


def check_file_risks(path):
    """commands.check.check_file on one file -> (list of risk tuples in the order `check` lists them | None, error | None)"""
    from codelimit.commands.check import check_file
    from codelimit.common.CheckResult import CheckResult
    res = CheckResult()
    try:
        check_file(Path(path), res)
    except BaseException as e:  # noqa
        import traceback
        tb = traceback.extract_tb(e.__traceback__)[-1]
        return None, "%s: %s (%s:%d %s)" % (type(e).__name__, str(e)[:160], os.path.basename(tb.filename), tb.lineno, tb.name)
    out = []
    for (_, ms) in res.file_list:
        out += [ms_tuple(m) for m in ms]
    return out, None


def cli(args, cwd, timeout=120):
    """`python -m codelimit <args>` in a fresh process -> (exit status | "timeout", output)"""
    env = dict(os.environ, PYTHONPATH=common.REPO, COLUMNS="200")
    try:
        p = subprocess.run([sys.executable, "-m", "codelimit"] + list(args), cwd=cwd, env=env, capture_output=True, text=True, timeout=timeout)
        return p.returncode, p.stdout + p.stderr
    except subprocess.TimeoutExpired:
        return "timeout", ""
