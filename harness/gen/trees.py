"""Random canonical program FORESTS for the six brace languages, in the shape of the Lean type
`Prog PTok` (lean/CodeLimit/Spec/ProgTree.lean):

    node := ("leaf", tk) | ("group", op, cl, items) | ("fn", hdr_items, name_idx, gap, op, cl, body_items)

A token `Tk` carries the class the REAL Pygments lexer is known to give its text (`kind`, numbered
as `scan_real.kind_of`: 0 other/number, 1 keyword, 2 name, 3 punctuation, 4 operator, 7 string),
its text, and - after `layout` - the `nl` / `col` of `PTok` (line breaks before the token, blank
columns: after a line break the token starts in column 1 + col, otherwise in column
`previous column + 1 + col`).

The vocabulary is hand-written per language (VOCAB below): the classes were read off the lexers
once and are re-checked on every generated forest by `tree_stream` (a difference is reported as
`lexer_mismatch`, never as a violation).  Statement templates are blank-separated words; `{` and
`}` in a template make a brace GROUP; a word starting with a quote is a string literal (`~` stands
for a blank inside it) and expands to the String tokens the language's lexer produces for it.

The canonical-fragment restrictions of DESIGN.md Appendix A are built in: parameter lists contain
no call-shaped group (`name (`), the item after a function is never a brace group, a bodiless
declaration `name ( ... )` is always terminated by `;` before any `{`.  Literals whose content is a
single `(` or `)` ARE generated (defect F25, found with this generator and repaired: in C, C++ and
Java the lexers split a literal into quote / content / quote String tokens and the header pattern
used to count the content as a parenthesis; tree_stream.REGRESS_F25).

`decorate` (second half of this file) adds COMMENT tokens (kind 5) and suppression markers to a laid-out
forest: own-line and trailing `//` and `/* */` comments anywhere (between statements, inside headers and
their brace groups, in gaps, after `{`, before the first and after the last token), block comments in
the middle of a line, markers (`// nocl`, `/* NOCL */`, `//nocl x`, ...) and decoys (`// not nocl`,
`/// nocl`, ...) on the name lines of a random subset of functions and on other lines.

Every random choice comes from the `random.Random` passed in.
"""
import re

BRACE = ("C", "C++", "C#", "Java", "JavaScript", "TypeScript")
NESTED = {"C": False, "C++": True, "C#": True, "Java": True, "JavaScript": True, "TypeScript": True}
JSLIKE = ("JavaScript", "TypeScript")


class Tk:
    __slots__ = ("kind", "text", "glue", "start", "soft", "nl", "col", "role")

    def __init__(self, kind, text, glue=False):
        self.kind = kind
        self.text = text
        self.glue = glue      # must touch the previous token (pieces of one string literal, `+` `+`)
        self.start = None     # indentation level if the token prefers to begin a line
        self.soft = False     # a natural place for a line break inside a statement / header
        self.nl = 0
        self.col = 0
        self.role = None      # comments added by `decorate`: "marker" | "decoy" | "plain"

    def __repr__(self):
        return "Tk(%d,%r)" % (self.kind, self.text)


# --------------------------------------------------------------------------- vocabulary

def _w(s):
    return set(s.split())


VOCAB = {
    "C": {
        "kw": _w("static int void unsigned long struct const char return if else while for do switch typedef extern break continue"),
        "opw": set(),
        "punct": _w("( ) { } [ ] ; , ."),
        "ops": _w("= + - * < > ! % & | ^ ~"),
        "split_ops": True,
    },
    "C++": {
        "kw": _w("static int void unsigned long struct const char return if else while for do switch typedef extern break continue "
                 "inline virtual class namespace public template typename try catch new delete auto bool"),
        "opw": set(),
        "punct": _w("( ) { } [ ] ; , ."),
        "ops": _w("= + - * < > ! % & | ^ ~"),
        "split_ops": True,
    },
    "C#": {
        "kw": _w("namespace public private internal static class string int void ref var lock this foreach in get set return async "
                 "try catch finally using if else while for do switch new break continue"),
        "opw": set(),
        "punct": _w("( ) { } [ ] ; , . :"),
        "ops": _w("= + - * < > ! % & | ^ ~ ? ++ -- == != <= >= && || += << >> =>"),
        "split_ops": False,
    },
    "Java": {
        "kw": _w("package import public private protected static final class extends interface enum abstract void int return "
                 "synchronized this new throws if else while for do switch try catch finally record break continue throw"),
        "opw": set(),
        "punct": _w("( ) { } ; , . :"),
        "ops": _w("= + - * < > ! % & | ^ ~ ? [ ]"),
        "split_ops": True,
    },
    "JavaScript": {
        "kw": _w("export class extends static async function let var const return try catch finally import from if else for of "
                 "while do switch null true false undefined this throw break continue"),
        "opw": _w("new typeof delete void"),
        "punct": _w("( ) { } [ ] ; , . => ..."),
        "ops": _w("= + - * < > ! % & | ^ ~ ? : ++ -- == != <= >= && || += << >> === !=="),
        "split_ops": False,
    },
    "TypeScript": {
        "kw": _w("export class extends static async function let var const return try catch finally import from if else for of "
                 "while do switch null true false undefined this throw break continue "
                 "number string boolean abstract private declare interface type enum constructor"),
        "opw": _w("new typeof delete void"),
        "punct": _w("( ) { } [ ] ; , . => ..."),
        "ops": _w("= + - * < > ! % & | ^ ~ ? : ++ -- == != <= >= && || += << >> === !=="),
        "split_ops": False,
    },
}

_IDENT = re.compile(r"^@?[A-Za-z_$][A-Za-z0-9_$]*(\.[A-Za-z_][A-Za-z0-9_]*)*$")
_NUM = re.compile(r"^[0-9]+$")
_OPCHARS = set("=+-*/<>!&|?:%^~.")


def string_pieces(lang, w):
    """the String tokens the language's lexer produces for the literal `w` (no escapes, no newline)"""
    w = w.replace("~", " ")
    q = w[0]
    assert w[-1] == q and len(w) >= 3, w
    inner = w[1:-1]
    if lang in ("C", "C++"):
        return [q, inner, q]
    if lang == "Java":
        return [q, inner, q] if q == '"' else [w]
    if lang == "C#":
        return [w]
    if q == "`":
        return [q, inner, q]
    return [w]


def classify(lang, w):
    """word of a template -> list of Tk (more than one for split operators and string literals)"""
    v = VOCAB[lang]
    if w[0] in "\"'`" and len(w) >= 3:
        ps = string_pieces(lang, w)
        return [Tk(7, p, glue=(i > 0)) for i, p in enumerate(ps)]
    if w in v["kw"]:
        return [Tk(1, w)]
    if w in v["opw"]:
        return [Tk(4, w)]
    if _NUM.match(w):
        return [Tk(0, w)]
    if _IDENT.match(w):
        return [Tk(2, w)]
    if w in v["punct"]:
        return [Tk(3, w)]
    if w in v["ops"]:
        return [Tk(4, w)]
    if len(w) > 1 and all(c in v["ops"] or c in v["punct"] for c in w) and (v["split_ops"] or w == "..." or w == "->"):
        # the lexer has one-character operators only: `++` is `+` `+`
        out = []
        for i, c in enumerate(w):
            out.append(Tk(3 if c in v["punct"] else 4, c, glue=(i > 0)))
        return out
    raise ValueError("no class for %r in %s" % (w, lang))


def toks(lang, s):
    out = []
    for w in s.split():
        out += classify(lang, w)
    return out


def items(lang, s, lvl=None):
    """template -> node list; `{` ... `}` make groups; the first token begins a line at level `lvl`"""
    stack = [[]]
    opens = []
    for w in s.split():
        if w == "{":
            opens.append(classify(lang, w)[0])
            stack.append([])
        elif w == "}":
            body = stack.pop()
            stack[-1].append(("group", opens.pop(), classify(lang, w)[0], body))
        else:
            for t in classify(lang, w):
                stack[-1].append(("leaf", t))
    assert len(stack) == 1, s
    res = stack[0]
    if lvl is not None and res:
        first_tok(res[0]).start = lvl
    return res


def first_tok(node):
    if node[0] == "leaf":
        return node[1]
    if node[0] == "group":
        return node[1]
    return first_tok(node[1][0])


def flat(nodes):
    out = []
    for n in nodes:
        if n[0] == "leaf":
            out.append(n[1])
        elif n[0] == "group":
            out.append(n[1]); out += flat(n[3]); out.append(n[2])
        else:
            out += flat(n[1]); out += n[3]; out.append(n[4]); out += flat(n[6]); out.append(n[5])
    return out


def count_fns(nodes, depth=0):
    """(number of function nodes, maximal nesting depth of function nodes)"""
    n, d = 0, depth
    for x in nodes:
        if x[0] == "group":
            a, b = count_fns(x[3], depth)
            n += a; d = max(d, b)
        elif x[0] == "fn":
            a, b = count_fns(x[6], depth + 1)
            n += 1 + a; d = max(d, b)
    return n, d


# --------------------------------------------------------------------------- statements

def simple_stmts(lang):
    common = ["x = 1 ;", "g ( x ) ;", "return x ;", "y = g ( h ( 1 ) ) ;", "x ++ ;", 's = "}{(" ;', "c = '{' ;",
              "a . b ( c ) . d ( ) ;", "y = x + 1 ;", "x = ( y ) ;", "return ;", "x = y > 1 ;", ";", "x = ! y && z ;",
              "x = a [ 1 ] ;", "break ;", 't = "a~b~{" ;', "x += 2 ;", "y = x >= 1 ;",
              "c = '(' ;", 's = ")" ;', "q = g ( '(' , x ) ;", 'y = h ( ")" ) ;']
    if lang == "C":
        return common + ["int z = x + 1 ;", "int a [ ] = { 1 , 2 } ;", "p -> q ( r ) ;", "struct s v = { 1 , { 2 , 3 } } ;",
                         'const char * t = "a~b" ;', "unsigned long n = 10 ;", "* p = 0 ;", "static int k ;"]
    if lang == "C++":
        return common + ["int z = x + 1 ;", "int a [ ] = { 1 , 2 } ;", "p -> q ( r ) ;", "struct s v = { 1 , { 2 , 3 } } ;",
                         "auto v = new K ( ) ;", "delete x ;", "K k { 1 , 2 } ;", "bool b = x < y ;"]
    if lang == "Java":
        return common + ["int z = x + 1 ;", "int [ ] a = { 1 , 2 } ;", 'String t = "a{" ;',
                         "List < String > l = new ArrayList < > ( ) ;", "v = x > 1 ? g ( x ) : y ;", "throw new E ( ) ;",
                         "final int k = 1 ;", "this . x = x ;"]
    if lang == "C#":
        return common + ["int z = x + 1 ;", "int [ ] a = { 1 , 2 } ;", 'var t = "a\\"{" ;', "var l = new List < int > { 1 , 2 } ;",
                         "x = y ? 1 : 2 ;", "this . x = x ;", "var q = new K ( ) ;"]
    js = common + ["let z = x + 1 ;", "var q = [ 1 , 2 ] ;", "o = { a : 1 , b : { c : 2 } } ;", "s = `t{` ;", "x = y ? 1 : 2 ;",
                   "v = x > 1 ? g ( x ) : y ;", "const k = 1 ;", "x = typeof y ;", "x = new K ( ) ;", "delete a . b ;", "throw e ;",
                   "x = null ;", "y = this ;", "w = ok ? a . b ( c ) : d ( e ) ;", "x = y === 1 ;", "f ( ... r ) ;"]
    if lang == "TypeScript":
        js = js + ["let z : number = x + 1 ;", "const v : string = 'a' ;", "let u : any ;", "let m : Map < string , number > ;"]
    return js


def global_stmts(lang):
    if lang == "C":
        return ["int k = 1 ;", "int arr [ ] = { 1 , 2 } ;", "struct s { int a ; } ;", "typedef struct { int a ; } t ;",
                "extern int g ( int a ) ;", "int h ( void ) ;", "static const char * m = \"x{\" ;"]
    if lang == "C++":
        return ["int k = 1 ;", "int arr [ ] = { 1 , 2 } ;", "struct s { int a ; } ;", "extern int g ( int a ) ;", "int h ( ) ;"]
    if lang == "Java":
        return ["import java.util.List ;", "package p ;"]
    if lang == "C#":
        return ["using System ;", "using System.Linq ;"]
    out = ["const k = 1 ;", "let o = { a : 1 } ;", "g ( 1 ) ;", "import x from 'y' ;", "mod . exports = { a , b } ;",
           "if ( x ) { g ( ) ; }", "export const z = [ 1 , 2 ] ;"]
    if lang == "TypeScript":
        out += ["interface I { foo ( ) : string ; bar ( x : number ) : void ; }", "declare function d ( a : number ) : string ;",
                "type T = { f ( ) : void ; g ( x : number ) : string } ;", "const v = ok ? compute ( a ) : other ;",
                "enum E { A , B }"]
    return out


def control_heads(lang):
    heads = ["if ( x > 1 )", "while ( x )", "for ( i = 0 ; i < n ; i ++ )", "switch ( x )", "do", "if ( g ( x ) )", "else",
             "if ( match ( '(' ) )", 'while ( s . eq ( ")" ) )']
    if lang != "C":
        heads += ["try"]
    if lang == "Java":
        heads += ["synchronized ( this )", "for ( String s : l )"]
    if lang == "C#":
        heads += ["lock ( this )", "foreach ( var i in y )", "using ( a )"]
    if lang in JSLIKE:
        heads += ["for ( const i of y )"]
    return heads


class Gen:
    def __init__(self, lang, rnd):
        self.lang = lang
        self.rnd = rnd
        self.counter = 0

    def fresh(self, prefix="fn"):
        self.counter += 1
        return "%s%d" % (prefix, self.counter)

    def it(self, s, lvl=None):
        return items(self.lang, s, lvl)

    def tk(self, w):
        ts = classify(self.lang, w)
        assert len(ts) == 1, w
        return ts[0]

    def braces(self, lvl, own_line_close=True):
        op, cl = self.tk("{"), self.tk("}")
        op.soft = True
        if own_line_close:
            cl.start = lvl
        return op, cl

    # ---- statements of a body / block
    def block(self, lvl, depth, n=None, in_fn=True):
        rnd = self.rnd
        out = []
        for _ in range(rnd.randint(0, 4) if n is None else n):
            out += self.stmt(lvl, depth, out, in_fn)
        return out

    def stmt(self, lvl, depth, before, in_fn):
        rnd, lang = self.rnd, self.lang
        r = rnd.random()
        if r < 0.5 or depth > 6:
            return self.it(rnd.choice(simple_stmts(lang)), lvl)
        if r < 0.68:
            return self.control(lvl, depth)
        if r < 0.74 and lang in JSLIKE:
            return self.callback(lvl, depth)
        if r < 0.78 and lang in ("Java", "C++", "C#"):
            return self.local_class(lvl, depth)
        if r < 0.81:
            # a bare block statement; never directly after a function (`noAdj`)
            if before and before[-1][0] == "fn":
                return self.it(";", lvl)
            op, cl = self.braces(lvl)
            op.start = lvl
            return [("group", op, cl, self.block(lvl + 1, depth + 1, rnd.randint(0, 2)))]
        if r < 0.85 and lang in JSLIKE:
            return self.object_with_methods(lvl, depth)
        if depth < 5:
            return self.func(lvl, depth, "body")
        return self.it("x = 3 ;", lvl)

    def control(self, lvl, depth):
        rnd, lang = self.rnd, self.lang
        head = rnd.choice(control_heads(lang))
        out = self.it(head, lvl)
        op, cl = self.braces(lvl)
        out.append(("group", op, cl, self.block(lvl + 1, depth + 1, rnd.randint(0, 3))))
        if head == "do":
            out += self.it("while ( x ) ;")
        elif head == "try":
            c = {"C++": "catch ( ... )", "Java": "catch ( Exception e )", "C#": "catch ( Exception e )"}.get(lang, "catch ( e )")
            out += self.it(c)
            op, cl = self.braces(lvl)
            out.append(("group", op, cl, self.block(lvl + 1, depth + 1, rnd.randint(0, 2))))
            if lang != "C++" and rnd.random() < 0.3:
                out += self.it("finally")
                op, cl = self.braces(lvl)
                out.append(("group", op, cl, self.block(lvl + 1, depth + 1, 1)))
        elif head.startswith("if") and rnd.random() < 0.3:
            out += self.it("else")
            op, cl = self.braces(lvl)
            out.append(("group", op, cl, self.block(lvl + 1, depth + 1, rnd.randint(0, 2))))
        return out

    def callback(self, lvl, depth):
        """anonymous functions are brace groups: their tokens belong to the enclosing function"""
        rnd = self.rnd
        pre, post = rnd.choice([("g ( function ( )", ") ;"), ("g ( ( a ) =>", ") ;"), ("[ 1 ] . map ( x =>", ") ;"),
                                ("it ( 'x' , async ( ) =>", ") ;"), ("p . then ( function ( r )", ") ;"),
                                ("( function ( )", ") ( ) ;"), ("x = function ( a , b )", ";")])
        out = self.it(pre, lvl)
        op, cl = self.braces(lvl)
        out.append(("group", op, cl, self.block(lvl + 1, depth + 1, rnd.randint(0, 3))))
        return out + self.it(post)

    def object_with_methods(self, lvl, depth):
        out = self.it("o =", lvl)
        op, cl = self.braces(lvl)
        body = []
        for i in range(self.rnd.randint(1, 3)):
            if self.rnd.random() < 0.5:
                body += self.it("k%d : 1 ," % i, lvl + 1)
            else:
                body += self.func(lvl + 1, depth + 1, "object")
                body += self.it(",")
        out.append(("group", op, cl, body))
        return out + self.it(";")

    def local_class(self, lvl, depth):
        rnd, lang = self.rnd, self.lang
        if lang == "Java":
            head, tail = rnd.choice([("Runnable r = new Runnable ( )", ";"), ("class L%d" % rnd.randint(1, 9), ""),
                                     ("Object o = new Object ( )", ";")])
        elif lang == "C#":
            return self.func(lvl, depth, "body")
        else:
            head, tail = "struct L%d" % rnd.randint(1, 9), ";"
        out = self.it(head, lvl)
        op, cl = self.braces(lvl)
        body = []
        for _ in range(rnd.randint(1, 2)):
            if rnd.random() < 0.3:
                body += self.it("int f%d = 1 ;" % rnd.randint(1, 9), lvl + 1)
            else:
                body += self.func(lvl + 1, depth + 1, "class")
        out.append(("group", op, cl, body))
        return out + (self.it(tail) if tail else [])

    # ---- functions
    def params(self):
        rnd, lang = self.rnd, self.lang
        if lang == "C":
            pool = ["int a", "int b", "const char * s", "struct s v = { 1 , 2 }", "int c [ ]", "unsigned long n", "int d = { 1 }"]
            if rnd.random() < 0.1:
                return ["void"]
        elif lang == "C++":
            pool = ["int a", "int b", "const char * s", "struct s v = { 1 , 2 }", "T t", "K & k", "int d = 1", "auto e = { 1 , { 2 } }",
                    "char c = '('", 'const char * u = ")"']
        elif lang == "C#":
            pool = ["int a", "ref int b", "List < string > c", "int [ ] v = { 1 , 2 }", 'string s = "x)"', "K k"]
        elif lang == "Java":
            pool = ["int a", "final int b", "String c", "List < String > l", "int [ ] d", "int ... xs", "@A K k"]
        elif lang == "JavaScript":
            pool = ["a", "b", "{ a , b }", "c = 1", "o = { k : 1 }", "... r", "s = '){'", "[ p , q ]"]
        else:
            pool = ["a : number", "b : string", "{ a , b } : P", "o : { k : number }", "c ? : string", "d : number = 1",
                    "... r : any [ ]", "m : Map < string , number >"]
        k = rnd.choice([0, 1, 1, 2, 2, 3, 4])
        return [rnd.choice(pool) for _ in range(k)]

    def func(self, lvl, depth, where, body_len=None):
        """-> node list: prefix leaves (modifiers, return type: they belong to the PARENT), the `fn` node,
        possibly a trailing `;`"""
        rnd, lang = self.rnd, self.lang
        name = self.fresh()
        pre, head, name_idx, gap, post = "", name, 0, "", ""
        arrow = False
        if lang in ("C", "C++"):
            pre = rnd.choice(["int", "static int", "void", "unsigned long", "struct s *", "const char *"])
            if lang == "C++" and rnd.random() < 0.25:
                pre = rnd.choice(["inline int", "virtual void", "template < typename T > T", "auto"])
        elif lang == "Java":
            pre = rnd.choice(["void", "public int", "private static String", "protected List < String >", "public final int [ ]", ""])
            if rnd.random() < 0.15:
                pre = "@Override " + pre
            gap = rnd.choice(["", "", "", "throws Exception", "throws IOException , E"])
            if rnd.random() < 0.05:
                gap = "throws " + " , ".join("E%d" % i for i in range(rnd.randint(3, 12)))
        elif lang == "C#":
            pre = rnd.choice(["void", "public int", "private static string", "internal List < string >", "public async Task", "static K"])
        else:
            ret = ""
            if lang == "TypeScript" and rnd.random() < 0.45:
                ret = ": " + rnd.choice(["number", "void", "string", "Promise < void >", "Map < string , Array < number > > | undefined",
                                         "K | null", "number [ ]"])
            k = rnd.random()
            if where in ("class", "object"):
                pre = rnd.choice(["", "", "static", "async", "static async"]) if where == "class" else rnd.choice(["", "async"])
                gap = ret
            elif k < 0.55:
                pre = "async" if rnd.random() < 0.25 else ("export" if where == "global" and rnd.random() < 0.2 else "")
                head, name_idx, gap = "function " + name, 1, ret
            else:
                arrow = True
                decl = rnd.choice(["const", "const", "const", "let", "var", ""])
                if not decl and where != "global":
                    decl = "const"
                pre = ("export" if where == "global" and decl and rnd.random() < 0.2 else "")
                if decl == "const":
                    head, name_idx = "const " + name + " =", 1
                else:
                    pre = (pre + " " + decl).strip()
                    head = name + " ="
                if rnd.random() < 0.25:
                    head += " async"
                gap = "=>"
                if rnd.random() < 0.5:
                    post = ";"
        out = self.it(pre, lvl) if pre else []
        hdr = self.it(head)
        if not pre:
            first_tok(hdr[0]).start = lvl
        hdr += self.it("(")
        ps = self.params()
        for i, p in enumerate(ps):
            if i:
                hdr += self.it(",")
            pi = self.it(p)
            if i:
                first_tok(pi[0]).soft = True
            hdr += pi
        hdr += self.it(")")
        gap_toks = toks(lang, gap)
        if gap_toks and rnd.random() < 0.3:
            gap_toks[0].soft = True
        op, cl = self.braces(lvl)
        if body_len is not None:
            body = []
            for i in range(body_len):
                body += self.it("x = %d ;" % i, lvl + 1)
        else:
            body = self.block(lvl + 1, depth + 1, None)
        out.append(("fn", hdr, name_idx, gap_toks, op, cl, body))
        if post:
            out += self.it(post)
        return out

    # ---- classes and files
    def klass(self, lvl, depth=0):
        rnd, lang = self.rnd, self.lang
        name = self.fresh("K")
        tail = ""
        if lang == "C++":
            head = rnd.choice(["class %s", "struct %s", "namespace %s"]) % name
            tail = "" if head.startswith("namespace") else ";"
        elif lang == "Java":
            head = rnd.choice(["public class %s", "class %s extends B", "interface %s", "enum %s", "record %s ( int a )"]) % name
        elif lang == "C#":
            head = rnd.choice(["public class %s", "namespace %s", "class %s : B"]) % name
        else:
            head = rnd.choice(["class %s", "class %s extends B", "export class %s"]) % name
        out = self.it(head, lvl)
        op, cl = self.braces(lvl)
        body = []
        if head.startswith("enum"):
            body += self.it("A , B ;", lvl + 1)
        for _ in range(rnd.randint(0, 4)):
            r = rnd.random()
            if r < 0.2:
                if lang in JSLIKE:
                    body += self.it(rnd.choice(["x = 1 ;", "static y = { a : 1 } ;", "z ;"]), lvl + 1)
                else:
                    body += self.it(rnd.choice(["int x = 1 ;", "static int [ ] y = { 1 , 2 } ;" if lang in ("Java", "C#") else "static int y [ 2 ] ;", "int z ;"]), lvl + 1)
            elif r < 0.3 and lang == "TypeScript":
                body += self.it(rnd.choice(["q ( a : number ) : void ;", "abstract r ( ) : string ;", "s ( x : string ) : Promise < void > ;",
                                            "t ? ( ) : number ;", "private y : number = 1 ;", "constructor ( a : number ) { this . a = a ; }"]), lvl + 1)
            elif r < 0.3 and lang in ("Java", "C#"):
                body += self.it(rnd.choice(["abstract void q ( int a ) ;" if lang == "Java" else "void q ( int a ) ;", "void q ( ) ;",
                                            "int P { get ; set ; }" if lang == "C#" else "int q ( int a ) ;"]), lvl + 1)
            elif r < 0.36 and lang == "Java":
                # static / instance initialiser; an instance initialiser never directly after a method (`noAdj`)
                if rnd.random() < 0.5 or (body and body[-1][0] == "fn"):
                    body += self.it("static", lvl + 1)
                    bop, bcl = self.braces(lvl + 1)
                else:
                    bop, bcl = self.braces(lvl + 1)
                    bop.start = lvl + 1
                body.append(("group", bop, bcl, self.block(lvl + 2, depth + 2, rnd.randint(0, 2))))
            elif r < 0.45 and depth < 2 and lang in ("Java", "C#", "C++"):
                body += self.klass(lvl + 1, depth + 1)
            else:
                body += self.func(lvl + 1, depth + 1, "class")
        out.append(("group", op, cl, body))
        return out + (self.it(tail) if tail else [])

    def program(self, size=None, sweep=None):
        rnd, lang = self.rnd, self.lang
        if sweep is not None:
            if lang in ("Java", "C#"):
                out = self.it("class K", 0)
                op, cl = self.braces(0)
                out.append(("group", op, cl, self.func(1, 1, "class", body_len=sweep)))
                return out
            return self.func(0, 0, "global", body_len=sweep)
        out = []
        for _ in range(size or rnd.randint(1, 4)):
            r = rnd.random()
            if lang in ("Java", "C#"):
                if r < 0.2:
                    out += self.it(rnd.choice(global_stmts(lang)), 0)
                else:
                    out += self.klass(0)
            elif r < 0.25:
                out += self.it(rnd.choice(global_stmts(lang)), 0)
            elif r < 0.45 and lang != "C":
                out += self.klass(0)
            else:
                out += self.func(0, 0, "global")
        return out


# --------------------------------------------------------------------------- layout

def is_word(t):
    return t.kind in (0, 1, 2, 7) or (t.kind == 4 and t.text[0].isalpha())


def can_touch(a, b, lang=None):
    """may token `b` directly follow token `a` without changing what the lexer sees?"""
    if is_word(a) and is_word(b):
        return False
    if a.text == "...":
        return False          # TypeScript reads `...r:` as one Name token
    if lang == "TypeScript" and ((a.text in (".", "?") and is_word(b)) or (b.text in (".", "?") and is_word(a))):
        return False          # the rule `([\w?.$]+)(\s*)(:)(\s*)([\w?.$]+)` would glue them to the word
    if lang == "C#" and a.text in ("using", "namespace"):
        return False          # `using(` is not the keyword for the C# lexer
    if a.text == "." or b.text == ".":
        other = b if a.text == "." else a
        if other.kind != 2 and not (b.text == "." and a.text in (")", "]")):
            return False
        return True
    if a.text[-1] in _OPCHARS and b.text[0] in _OPCHARS:
        return False
    if a.text[-1] in "0123456789" and b.text[0] == ".":
        return False
    if a.kind == 7 or b.kind == 7:
        # string literals keep a blank from words; punctuation may touch them
        return not (is_word(a) and is_word(b))
    return True


class _Plain:
    """no randomness: every choice takes its first alternative, every probability test fails"""
    def choice(self, xs):
        return xs[0]

    def random(self):
        return 0.5

    def randint(self, a, b):
        return a


def layout(rnd, nodes, lang=None, plain=False):
    """choose line breaks and blanks: sets `nl`, `col` of every token (in the sense of `PTok`);
    `plain`: one statement per line, two blanks per level, one blank between tokens"""
    ts = flat(nodes)
    if plain:
        rnd = _Plain()
    unit = rnd.choice([2, 4, 4, 3, 1, 8])
    brace_next = rnd.choice([0.0, 0.0, 0.3, 1.0])       # probability of `{` on its own line
    tight = rnd.choice([0.0, 0.3, 0.7, 1.0])             # probability of omitting an optional blank
    p_blank = rnd.choice([0.0, 0.05, 0.2])
    p_join = rnd.choice([0.0, 0.05, 0.3])                # several statements on one line
    p_wrap = rnd.choice([0.0, 0.02, 0.1])                # line break inside a statement
    cur_lvl = 0
    prev = None
    for i, t in enumerate(ts):
        newline = False
        ind = 0
        if t.glue and prev is not None:
            t.nl, t.col = 0, len(prev.text) - 1
            prev = t
            continue
        if t.start is not None:
            cur_lvl = t.start
            if prev is None:
                newline = rnd.random() < 0.3
            else:
                newline = rnd.random() >= p_join
            ind = cur_lvl * unit
        elif t.text == "{" and t.kind == 3 and t.soft:
            if rnd.random() < brace_next and prev is not None:
                newline = True
                ind = cur_lvl * unit
        elif prev is not None and (t.soft and rnd.random() < 0.4 or rnd.random() < p_wrap):
            newline = True
            ind = cur_lvl * unit + rnd.choice([unit, 2 * unit, 1, 7])
        if rnd.random() < 0.02:
            ind += rnd.randint(0, 5)
        if lang == "C#" and t.text == "[" and prev is not None:
            newline = False   # a `[` at the start of a line begins an attribute for the C# lexer
        if prev is None:
            if newline:
                t.nl, t.col = rnd.randint(1, 3), ind
            else:
                t.nl, t.col = 0, ind
        elif newline:
            t.nl = 1 + (rnd.randint(1, 2) if rnd.random() < p_blank else 0)
            t.col = ind
        else:
            if can_touch(prev, t, lang) and rnd.random() < tight:
                g = 0
            else:
                g = 1 if rnd.random() < 0.93 else rnd.randint(2, 4)
            t.nl, t.col = 0, len(prev.text) - 1 + g
        prev = t
    return ts


def render(ts):
    """(text, [(kind, text, line, col)]) of a laid-out token list: the Python twin of `textOf` / `render`"""
    out = []
    located = []
    line, c0, e = 1, 0, 1
    for t in ts:
        if t.nl == 0:
            col = c0 + 1 + t.col
            assert col >= e, "overlap"
            out.append(" " * (col - e))
        else:
            line += t.nl
            col = 1 + t.col
            out.append("\n" * t.nl + " " * t.col)
        out.append(t.text)
        located.append((t.kind, t.text, line, col))
        c0, e = col, col + len(t.text)
    out.append("\n")
    return "".join(out), located


# --------------------------------------------------------------------------- protocol encoding

def sstr(text):
    return "%d%s" % (len(text), "".join(" %d" % ord(c) for c in text))


def enc_tok(t):
    return "%d %d %d %d %s" % (t.kind, t.kind, t.nl, t.col, sstr(t.text))


def enc_forest(nodes):
    parts = [str(len(nodes))]
    for n in nodes:
        if n[0] == "leaf":
            parts.append("0 " + enc_tok(n[1]))
        elif n[0] == "group":
            parts.append("1 %s %s %s" % (enc_tok(n[1]), enc_tok(n[2]), enc_forest(n[3])))
        else:
            _, hdr, k, gap, op, cl, body = n
            parts.append("2 %s %d %d%s %s %s %s" % (enc_forest(hdr), k, len(gap), "".join(" " + enc_tok(g) for g in gap),
                                                   enc_tok(op), enc_tok(cl), enc_forest(body)))
    return " ".join(parts)


def make_fn(lang, pre, head, name_idx, gap, body, lvl=0):
    """a function from templates: prefix leaves, header (with its parameter list), gap, body"""
    out = items(lang, pre, lvl) if pre else []
    hdr = items(lang, head)
    if not pre:
        first_tok(hdr[0]).start = lvl
    op, cl = classify(lang, "{")[0], classify(lang, "}")[0]
    op.soft = True
    cl.start = lvl
    out.append(("fn", hdr, name_idx, toks(lang, gap), op, cl, items(lang, body, lvl + 1)))
    return out


LANG_INDEX = {"C": 0, "C++": 1, "C#": 2, "Java": 3, "JavaScript": 4, "Python": 5, "TypeScript": 6}


def tree_request(lang, nodes):
    return "tree %d %s" % (LANG_INDEX[lang], enc_forest(nodes))


def mark_request(lang, nodes):
    """request of the driver operation `marktree` (Model/ProgMarkOps.lean): forests with comment tokens"""
    return "marktree %d %s" % (LANG_INDEX[lang], enc_forest(nodes))


def generate(lang, rnd, size=None, sweep=None):
    """-> (nodes, laid-out token list)"""
    g = Gen(lang, rnd)
    nodes = g.program(size, sweep)
    if not nodes:
        nodes = g.it(";", 0)
    ts = layout(rnd, nodes, lang)
    if lang == "TypeScript":
        ts_colon_rule(ts)
    return nodes, ts


_TSWORD = re.compile(r"^[\w?.$]+$")
_TS_EARLIER = _w("abstract implements private protected public readonly enum interface override declare type string boolean number")


def ts_colon_rule(ts):
    r"""the TypeScript lexer's rule `([\w?.$]+)(\s*)(:)(\s*)([\w?.$]+)` -> (Name.Other, Operator, Keyword.Type):
    in `word : word` the left word is a Name and the right word a Keyword, whatever they are
    (`k : 1`, `y ? 1 : 2`, `m : Map`).  Words recognised by an earlier rule of the lexer keep their class."""
    i = 1
    while i + 1 < len(ts):
        x, c, y = ts[i - 1], ts[i], ts[i + 1]
        if c.text == ":" and c.kind == 4 and _TSWORD.match(x.text) and _TSWORD.match(y.text) and x.text not in _TS_EARLIER \
                and x.kind != 7 and y.kind != 7:
            x.kind, y.kind = 2, 1
            i += 2
        else:
            i += 1


# --------------------------------------------------------------------------- comments and suppression markers
#
# Pygments facts the decoration relies on (re-checked on every forest by mark_stream: `lexer_mismatch`):
#  * `/* ... */` is one Comment.Multiline token in all six lexers; `// ...` is one Comment.Single token whose
#    value INCLUDES the terminating newline in C, C++ and C# and excludes it in Java, JavaScript, TypeScript
#    (the forest's comment token never contains the newline: mark_stream compares modulo that newline);
#  * C and C++ (known finding KF2): the lexer matches `type name ( signature ) ... {` with ONE regular
#    expression whose signature part is `\([^;"')]*?\)`; the pieces are then lexed separately, so a comment
#    containing `)` inside a parameter list is cut in two and not lexed as a comment.  Comments placed inside
#    the parentheses of a header therefore never contain `)` in C / C++ (`SPICY_HDR_OK`);
#  * Java: after the keywords `class`, `interface`, `record`, `import`, `package` the lexer is in a state that knows white
#    space and a name only; C#: the same after `class`, `struct`, `namespace`, `using`.  A comment directly after such a
#    keyword is NOT lexed as a comment (`/`, `*`, the words and even braces of the comment become code tokens): an
#    observation about the third-party lexers of the kind of KF2.  `NO_COMMENT_AFTER`: never generated; Java: `record` is
#    a keyword only in `record Name (` / `record Name <` with white space in between, so no comment after that name;
#  * TypeScript: the rule `word : word` needs the three tokens to be separated by white space only; a comment
#    in between switches the rule off (`ts_colon_rule` is applied to the token list WITH the comments).

LINE_PLAIN = ["// c", "//", "// x = 1 ;", "// f ( ) {", "// }", "// {", "// TODO: ( later )", "// don't", '// say "hi', "//// wide",
              "// a /* b */ c", "//\tt"]
BLOCK_PLAIN = ["/* c */", "/**/", "/* { */", "/* } */", "/* f ( ) { */", "/* ; */", "/* ( */", "/* ) */", "/** doc */", "/* it's */",
               '/* " */', "/* // */", "/*x*/"]
LINE_MARK = ["// nocl", "//nocl", "// NOCL", "//nocl x", "// nocl: generated", "//  NoCl", "//\tnocl", "// nocl }", "// nocl {"]
BLOCK_MARK = ["/* nocl */", "/* NOCL */", "/*nocl*/", "/* nocl: why */", "/*  Nocl*/", "/* nocl { */"]
LINE_DECOY = ["// not nocl", "/// nocl", "//! nocl", "// no cl", "// see nocl", "//: nocl", "// n ocl"]
BLOCK_DECOY = ["/* not nocl */", "/** nocl */", "/* see the NOCL docs */", "/* no-cl */", "/*: nocl */"]


NO_COMMENT_AFTER = {"Java": {"class", "interface", "record", "import", "package"},
                    "C#": {"class", "struct", "namespace", "using"}}


def is_marker_text(v):
    """Python twin of `isNoclText` for // and /* */ comments (statistics only: the oracle is the model)"""
    v = v.lower()
    if v.startswith("//") or v.startswith("/*"):
        v = v[2:].strip()
    return v.startswith("nocl")


def is_line_comment(t):
    return t is not None and t.kind == 5 and t.text.startswith("//")


def _slots(nodes, j, out, where, depth_hdr):
    """all places of the forest where a token can be inserted, in flat order:
    (flat index j, list, index in the list, kind 'n' node list / 'g' gap token list, where, inside a header?)"""
    for i, n in enumerate(nodes):
        out.append((j, nodes, i, "n", where, depth_hdr))
        if n[0] == "leaf":
            j += 1
        elif n[0] == "group":
            j = _slots(n[3], j + 1, out, "hdrgroup" if depth_hdr else "group", depth_hdr) + 1
        else:
            j = _slots(n[1], j, out, "hdr", True)
            gap = n[3]
            for gi in range(len(gap) + 1):
                out.append((j + gi, gap, gi, "g", "gap", False))
            j = _slots(n[6], j + len(gap) + 1, out, "body", False) + 1
    out.append((j, nodes, len(nodes), "n", where, depth_hdr))
    return j


def slots(nodes):
    out = []
    _slots(nodes, 0, out, "top", False)
    return out


def _fn_names(nodes, acc):
    """the name TOKEN of every function node (identity survives insertions into the header)"""
    for n in nodes:
        if n[0] == "group":
            _fn_names(n[3], acc)
        elif n[0] == "fn":
            acc[id(n[1])] = flat(n[1])[n[2]]
            _fn_names(n[1], acc)
            _fn_names(n[6], acc)
    return acc


def _renumber(nodes, names):
    """rebuild the forest with the name index of every header re-counted"""
    out = []
    for n in nodes:
        if n[0] == "leaf":
            out.append(n)
        elif n[0] == "group":
            out.append(("group", n[1], n[2], _renumber(n[3], names)))
        else:
            hdr = _renumber(n[1], names)
            name = names[id(n[1])]
            k = next(i for i, t in enumerate(flat(hdr)) if t is name)
            out.append(("fn", hdr, k, n[3], n[4], n[5], _renumber(n[6], names)))
    return out


def name_tokens(nodes):
    """name tokens of all function nodes, preorder"""
    out = []
    for n in nodes:
        if n[0] == "group":
            out += name_tokens(n[3])
        elif n[0] == "fn":
            out.append(flat(n[1])[n[2]])
            out += name_tokens(n[6])
    return out


def _in_c_signature(ts, j):
    """is flat position j (between ts[j-1] and ts[j]) inside an open parenthesis? (C / C++: KF2)"""
    d = 0
    for t in ts[:j]:
        if t.kind == 3 and t.text == "(":
            d += 1
        elif t.kind == 3 and t.text == ")":
            d -= 1
    return d > 0


def _gap_after(rnd, a):
    """blank columns between token `a` and a comment that follows it on the line"""
    if a.kind == 3 and a.text in (";", "{", "}", "(", ")", ",") and rnd.random() < 0.25:
        return 0
    return 1 if rnd.random() < 0.8 else rnd.randint(2, 5)


def _place(rnd, lang, ts, j, x, mode):
    """set nl / col of the comment token `x` inserted between A = ts[j-1] and B = ts[j] (either may be missing)
    and adjust B.  mode: 'trail' (x ends A's line), 'own' (x begins a line), 'inline' (x inside a line).
    -> False if the mode is impossible here"""
    a = ts[j - 1] if j > 0 else None
    b = ts[j] if j < len(ts) else None
    line = x.text.startswith("//")
    if b is not None and b.glue:
        return False
    if a is not None and a.kind == 1 and a.text in NO_COMMENT_AFTER.get(lang, ()):
        return False
    if lang == "Java" and j >= 2 and ts[j - 2].kind == 1 and ts[j - 2].text == "record":
        return False              # `record K /* c */ (`: the lexer then reads `record` as a Name
    if lang == "C#" and b is not None and b.text == "[" and b.nl == 0:
        if line or mode != "inline":
            return False          # a `[` at the start of a line begins an attribute for the C# lexer
    b_abs = b is None or b.nl > 0 or a is None       # B's column does not depend on its predecessor
    ind = rnd.choice([0, 0, 2, 4, 4, 8, 1, 13])
    if mode == "trail":
        if a is None or is_line_comment(a):
            return False
        x.nl, x.col = 0, len(a.text) - 1 + _gap_after(rnd, a)
        if b is not None and b.nl == 0:
            b.nl, b.col = 1 + (1 if rnd.random() < 0.1 else 0), ind    # the rest of the line moves to a new line
        return True
    if mode == "own":
        if a is None:
            x.nl, x.col = (b.nl if b is not None else rnd.randint(0, 2)), ind
        else:
            x.nl, x.col = (b.nl if (b is not None and b.nl > 0 and rnd.random() < 0.7) else rnd.randint(1, 2)), ind
        if b is not None:
            if line or rnd.random() < 0.75:
                bcol = b.col if b_abs else ind
                b.nl, b.col = 1 + (1 if rnd.random() < 0.1 else 0), bcol
            else:
                b.nl, b.col = 0, len(x.text) - 1 + rnd.choice([0, 1, 1, 2])     # `/* c */ code` on one line
        return True
    # inline: a block comment between two tokens of one line (or at the start of B's line)
    if line:
        return False
    if a is None or b is None or is_line_comment(a):
        return False
    if b.nl > 0:
        # x takes B's place at the start of the line, B follows on the same line
        x.nl, x.col = b.nl, b.col
        b.nl, b.col = 0, len(x.text) - 1 + rnd.choice([0, 1, 1, 2])
        return True
    g1 = 0 if (rnd.random() < 0.3 and (is_word(a) or (a.kind == 3 and a.text in ";{}(),[]"))) else 1
    x.nl, x.col = 0, len(a.text) - 1 + g1
    b.nl, b.col = 0, len(x.text) - 1 + rnd.choice([0, 1, 1, 2])
    return True


def _insert(nodes, slot, x):
    (_j, lst, i, kind, _w, _h) = slot
    lst.insert(i, x if kind == "g" else ("leaf", x))


def _pick_text(rnd, lang, role, line, in_sig):
    pool = {("plain", True): LINE_PLAIN, ("plain", False): BLOCK_PLAIN, ("marker", True): LINE_MARK, ("marker", False): BLOCK_MARK,
            ("decoy", True): LINE_DECOY, ("decoy", False): BLOCK_DECOY}[(role, line)]
    if in_sig and lang in ("C", "C++"):
        pool = [c for c in pool if ")" not in c]           # KF2
    return rnd.choice(pool)


def add_comment(rnd, lang, nodes, role="plain", where=None, at=None, mode=None):
    """insert ONE comment token; `at` = flat index (between ts[at-1] and ts[at]) or None for a random place;
    `where` restricts the kind of slot ('hdr', 'hdrgroup', 'gap', 'body', 'group', 'top').  -> the token or None"""
    ts = flat(nodes)
    sl = [s for s in slots(nodes) if (at is None or s[0] == at) and (where is None or s[4] == where)]
    if not sl:
        return None
    for _ in range(6):
        slot = rnd.choice(sl)
        j = slot[0]
        a = ts[j - 1] if j > 0 else None
        b = ts[j] if j < len(ts) else None
        m = mode or rnd.choice(["trail", "trail", "own", "own", "inline"])
        line = rnd.random() < 0.5 and m != "inline"
        x = Tk(5, _pick_text(rnd, lang, role, line, _in_c_signature(ts, j)))
        x.role = role
        if _place(rnd, lang, ts, j, x, m):
            _insert(nodes, slot, x)
            return x
    return None


def line_of(ts):
    """token -> (line, first flat index of its line, last flat index of its line)"""
    out = {}
    line, start = 1, 0
    for i, t in enumerate(ts):
        if t.nl > 0:
            for k in range(start, i):
                out[id(ts[k])] = (line, start, i - 1)
            line += t.nl
            start = i
    for k in range(start, len(ts)):
        out[id(ts[k])] = (line, start, len(ts) - 1)
    return out


def mark_name_line(rnd, lang, nodes, name_tok, role="marker"):
    """put a marker (or decoy) comment on the line of `name_tok`: trailing at the end of that line, or a block
    comment somewhere on the line (in front of the name, too)"""
    ts = flat(nodes)
    (_ln, s, e) = line_of(ts)[id(name_tok)]
    if is_line_comment(ts[e]):
        if rnd.random() < 0.5:
            return None
        j, mode = rnd.randint(s, e), "inline"        # the line already ends with a `//` comment
    elif rnd.random() < 0.6:
        j, mode = e + 1, "trail"
    else:
        j, mode = rnd.randint(s, e), "inline"
        if j == 0:
            j, mode = e + 1, "trail"
    return add_comment(rnd, lang, nodes, role=role, at=j, mode=mode)


def decorate(rnd, lang, nodes, ts=None, p_plain=None, p_mark=None):
    """comments and markers for a LAID-OUT forest (`layout` has run).  -> (new nodes, new token list, info)
    The node lists of `nodes` are modified in place; the returned forest has the name indices re-counted."""
    names = _fn_names(nodes, {})
    fn_names = name_tokens(nodes)
    info = {"comments": 0, "markers": 0, "decoys": 0, "marked_name_lines": 0, "where": {}}
    style = rnd.choice(["none", "few", "few", "many", "markers", "mixed", "mixed"])
    n_plain = {"none": 0, "few": rnd.randint(1, 3), "many": rnd.randint(4, 12), "markers": rnd.randint(0, 2), "mixed": rnd.randint(1, 6)}[style]
    if p_plain is not None:
        n_plain = p_plain
    for _ in range(n_plain):
        role = "plain" if rnd.random() < 0.85 else "decoy"
        where = rnd.choice([None, None, None, "hdr", "gap", "hdrgroup", "body", "top"])
        x = add_comment(rnd, lang, nodes, role=role, where=where) or add_comment(rnd, lang, nodes, role=role)
        if x is not None:
            info["comments"] += 1
    if style in ("markers", "mixed") or p_mark is not None:
        pm = p_mark if p_mark is not None else rnd.choice([0.15, 0.3, 0.6, 1.0])
        for nt in fn_names:
            r = rnd.random()
            if r < pm:
                if mark_name_line(rnd, lang, nodes, nt, "marker") is not None:
                    info["markers"] += 1
            elif r < pm + 0.15:
                if mark_name_line(rnd, lang, nodes, nt, "decoy") is not None:
                    info["decoys"] += 1
        # markers on lines that (probably) carry no name: own-line markers anywhere, trailing ones in bodies
        for _ in range(rnd.choice([0, 0, 1, 1, 2, 3])):
            m = rnd.choice(["own", "own", "trail"])
            if add_comment(rnd, lang, nodes, role="marker", mode=m, where=rnd.choice([None, "body", "top", "hdr"])) is not None:
                info["markers"] += 1
    out = _renumber(nodes, names)
    ts2 = flat(out)
    if lang == "TypeScript":
        ts_colon_rule(ts2)      # on the token list WITH the comments: a comment next to the colon switches the rule off
    # statistics: which functions are named on a marked line
    lo = line_of(ts2)
    marked = {lo[id(t)][0] for t in ts2 if t.kind == 5 and is_marker_text(t.text)}
    info["marked_name_lines"] = sum(1 for t in name_tokens(out) if lo[id(t)][0] in marked)
    info["functions"] = len(fn_names)
    info["style"] = style
    return out, ts2, info


def generate_marked(lang, rnd, size=None):
    """-> (nodes with comments and markers, laid-out token list, info)"""
    g = Gen(lang, rnd)
    nodes = g.program(size)
    if not nodes:
        nodes = g.it(";", 0)
    ts = layout(rnd, nodes, lang)
    return decorate(rnd, lang, nodes, ts)
