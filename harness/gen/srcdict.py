"""Literal dictionary harvested from the CURRENT source of the code under check (a fuzzing dictionary).

Every run parses <repo>/codelimit/**/*.py with `ast` and collects
  * integer literals (constant-folded for + - * ** << of literals), e.g. 4096, 10_000, 1 << 22;
  * string literals (2..60 characters), e.g. "nocl", "urn:", ".gitignore", "codelimit.lock";
  * string literals handed to re.compile/match/search/fullmatch/sub/split/findall (regular expressions).
`baseline.json` (committed next to this file) is the same harvest of the pinned tree; literals that are in the
current tree but not in the baseline are NOVEL.  Streams use the dictionary only to choose inputs:
size ladders get rungs n-1, n, n+1, 2n for every (novel) integer n they can afford, text generators get the
(novel) strings as comment texts / identifiers / file names.  Nothing here raises an alarm by itself: on
the unchanged tree `novel_*()` are empty and only the baseline rungs are used.

    python -m harness.gen.srcdict --write-baseline   # after a fix: commit moved the pinned tree
"""
import ast
import json
import os
import re
import sys
import warnings

HERE = os.path.dirname(os.path.abspath(__file__))
BASELINE = os.path.join(HERE, "srcdict_baseline.json")
_RE_FUNCS = {"compile", "match", "search", "fullmatch", "sub", "subn", "split", "findall", "finditer"}
_cache = {}


def _repo():
    return os.environ.get("VERIF_REPO", "/repo")


def _fold(node):
    """value of an integer expression built from literals, or None"""
    if isinstance(node, ast.Constant) and isinstance(node.value, int) and not isinstance(node.value, bool):
        return node.value
    if isinstance(node, ast.UnaryOp) and isinstance(node.op, ast.USub):
        v = _fold(node.operand)
        return -v if v is not None else None
    if isinstance(node, ast.BinOp):
        a, b = _fold(node.left), _fold(node.right)
        if a is None or b is None:
            return None
        try:
            if isinstance(node.op, ast.Add):
                return a + b
            if isinstance(node.op, ast.Sub):
                return a - b
            if isinstance(node.op, ast.Mult):
                return a * b
            if isinstance(node.op, ast.LShift) and 0 <= b <= 40:
                return a << b
            if isinstance(node.op, ast.Pow) and 0 <= b <= 12 and abs(a) <= 1024:
                return a ** b
        except Exception:
            return None
    return None


def harvest(repo=None):
    repo = repo or _repo()
    if repo in _cache:
        return _cache[repo]
    ints, strs, regexes = {}, {}, {}
    root = os.path.join(repo, "codelimit")
    for dp, dns, fns in os.walk(root):
        dns[:] = sorted(d for d in dns if d != "__pycache__")
        for fn in sorted(fns):
            if not fn.endswith(".py"):
                continue
            p = os.path.join(dp, fn)
            rel = os.path.relpath(p, repo)
            try:
                with warnings.catch_warnings():
                    warnings.simplefilter("ignore")
                    tree = ast.parse(open(p, encoding="utf-8").read())
            except Exception:
                continue
            docstrings = set()
            for n in ast.walk(tree):
                if isinstance(n, (ast.Module, ast.FunctionDef, ast.ClassDef, ast.AsyncFunctionDef)) and n.body and \
                        isinstance(n.body[0], ast.Expr) and isinstance(getattr(n.body[0], "value", None), ast.Constant):
                    docstrings.add(id(n.body[0].value))
            for n in ast.walk(tree):
                if isinstance(n, (ast.BinOp, ast.Constant, ast.UnaryOp)):
                    v = _fold(n)
                    if v is not None and abs(v) >= 2:
                        ints.setdefault(abs(v), rel)
                if isinstance(n, ast.Constant) and isinstance(n.value, str) and id(n) not in docstrings and 2 <= len(n.value) <= 60:
                    strs.setdefault(n.value, rel)
                if isinstance(n, ast.Call) and isinstance(n.func, ast.Attribute) and n.func.attr in _RE_FUNCS and n.args and \
                        isinstance(n.args[0], ast.Constant) and isinstance(n.args[0].value, str):
                    regexes.setdefault(n.args[0].value, rel)
    out = {"ints": ints, "strs": strs, "regexes": regexes}
    _cache[repo] = out
    return out


def _baseline():
    try:
        return json.load(open(BASELINE))
    except Exception:
        return {"ints": [], "strs": [], "regexes": []}


def all_ints():
    return sorted(harvest()["ints"])


def novel_ints():
    b = set(_baseline()["ints"])
    return sorted(v for v in harvest()["ints"] if v not in b)


def all_strs():
    return sorted(harvest()["strs"])


def novel_strs():
    b = set(_baseline()["strs"])
    return sorted(v for v in harvest()["strs"] if v not in b)


def all_regexes():
    return sorted(harvest()["regexes"])


def novel_regexes():
    b = set(_baseline()["regexes"])
    return sorted(v for v in harvest()["regexes"] if v not in b)


def rungs(lo, hi, base=(), novel_only=False):
    """sizes for a ladder: `base` plus n-1, n, n+1 (and 2n, n//2+... no) for every source integer n with lo <= n <= hi.
    Novel integers (not in the pinned tree) always take part; the pinned ones only when novel_only is False."""
    src = novel_ints() if novel_only else sorted(set(all_ints()) | set(novel_ints()))
    out = set(b for b in base if lo <= b <= hi)
    for n in src:
        for v in (n - 1, n, n + 1, 2 * n):
            if lo <= v <= hi:
                out.add(v)
    return sorted(out)


def novel_rungs(lo, hi):
    return rungs(lo, hi, (), True)


def words(novel_only=False, maxlen=40):
    """string literals usable as comment texts / identifiers / file-name parts"""
    src = novel_strs() if novel_only else all_strs()
    return [s for s in src if len(s) <= maxlen and "\n" not in s and "\x00" not in s]


def regex_pumps(rx, reps=(24, 30)):
    """candidate strings that make a backtracking matcher work hard on `rx`: each literal character / class member of the
    expression repeated, followed by a character that makes the match fail.  Heuristic; used under a time limit."""
    chars = []
    for ch in re.findall(r"\\.|[^\\()\[\]{}|*+?^$.]", rx):
        c = ch[-1] if ch.startswith("\\") and ch[1] not in "wWsSdDbB" else ch
        if ch in ("\\w",):
            c = "a"
        elif ch in ("\\W",):
            c = "-"
        elif ch in ("\\s",):
            c = " "
        elif ch in ("\\d",):
            c = "1"
        elif ch.startswith("\\") and ch[1] in "WSDbB":
            continue
        if c not in chars:
            chars.append(c)
    out = []
    for c in chars[:12]:
        for n in reps:
            out.append(c * n)
    return out


def summary():
    h = harvest()
    return {"ints": len(h["ints"]), "strs": len(h["strs"]), "regexes": len(h["regexes"]),
            "novel_ints": novel_ints()[:20], "novel_strs": novel_strs()[:20], "novel_regexes": novel_regexes()[:10]}


if __name__ == "__main__":
    if "--write-baseline" in sys.argv:
        h = harvest()
        json.dump({"ints": sorted(h["ints"]), "strs": sorted(h["strs"]), "regexes": sorted(h["regexes"])},
                  open(BASELINE, "w"), indent=0, ensure_ascii=True)
        print("baseline written:", {k: len(v) for k, v in h.items()})
    else:
        print(json.dumps(summary(), indent=1))
