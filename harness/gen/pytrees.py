"""Random well-formed Python INDENTATION TREES, in the shape of the Lean type `PyProg PTok`
(lean/CodeLimit/Spec/PyTree.lean):

    node := ("line", toks) | ("block", head, suite) | ("defn", pre, kw, name, params, post, suite)

A token `Tk` carries the class the REAL Pygments PythonLexer is known to give its text (`kind`,
numbered as `scan_real.kind_of`: 0 number, 1 keyword, 2 name (also builtins, decorators `@d`,
magic names), 3 punctuation, 4 operator (also the operator words `in is and or not`), 7 string) and
the `nl` / `col` of `PTok`: `nl` = line breaks between the line on which the previous token STARTS
and this token, `col` = blank columns: after a line break the token starts in column 1 + col
(`col` IS the indentation), otherwise in column `previous column + 1 + col`.

What is generated (all inside `PyProg.wf`, checked by the driver for every forest):
module-level statements, classes, `if/elif/else`, `while`, `for`, `with`, `try/except/finally`
suites, functions and methods nested to any depth (functions in classes in functions in ifs ...),
`async def`, decorator lines (also call-shaped and over several lines), headers over several
physical lines with continuation lines at ANY column permitted by `wf` (deeper than the header
line of the innermost ENCLOSING function: also shallower than the `def` itself, `) -> T:` at the
column of `def`), annotations, default values incl. call-shaped `g(1)`, lambdas, nested brackets,
strings whose content is `(` / `)` / `def f(x):`, return annotations, one-line docstrings (one
String.Doc token) and - beyond the task text, because `Model/PyTreeText.lean` covers them -
docstrings over several lines (ONE token with line breaks inside), plain string statements
(three String tokens), statements over several physical lines inside brackets, one-line compound
statements as simple lines (`if x: return`), semicolons, suite indentation widths 1/2/3/4/8 (fixed
per file or mixed per suite), blank lines, tight and wide spacing.
NOT generated: backslash continuation, multi-line string tokens other than docstrings, one-line
`def`, tabs.

Comments (`generate(..., comments=True)`, covered by `C01pytext.analyze_of_pytoks_text` /
`pyToksOp_sound` through `scan_of_pytree_all`): `add_comments` intersperses comment tokens in the
token list of the file - comment lines at any indentation between statements, inside brackets,
before the first and after the last statement, trailing comments at the end of physical lines,
suppression markers `# nocl` on lines of their own - and the forest describes the code tokens.

With probability 0.03 a forest is "exotic" (still `wf`, but not Python): the top-level statements
are indented, or a header has two parameter groups `def f(a)(b):`; those are excluded from the
`ast` cross-check of `pytree_stream`.

Every random choice comes from the `random.Random` passed in.
"""
import re


class Tk:
    __slots__ = ("kind", "text", "glue", "nowrap", "nl", "col")

    def __init__(self, kind, text, glue=False):
        self.kind = kind
        self.text = text
        self.glue = glue        # must touch the previous token (pieces of one literal / of `->`, `**`)
        self.nowrap = False     # must stay on the line of the previous token
        self.nl = 0
        self.col = 0

    def __repr__(self):
        return "Tk(%d,%r,%d,%d)" % (self.kind, self.text, self.nl, self.col)


# --------------------------------------------------------------------------- vocabulary

def _w(s):
    return set(s.split())


KW = _w("def class if elif else for while with as try except finally return pass break continue raise yield await async "
        "lambda global nonlocal assert del import from True False None")
OPW = _w("in is and or not")
PUNCT = set("()[]{}:,;")
OP2 = ("!=", "==", "<<", ">>", ":=")
OPCH = set("-~+/*%=<>&^|.")
_IDENT = re.compile(r"^@?[A-Za-z_][A-Za-z0-9_]*$")
_NUM = re.compile(r"^([0-9]+|0x[0-9A-Fa-f]+|[0-9]+\.[0-9]+)$")
_STR_OK = re.compile(r"^[A-Za-z0-9_ ():,.=\->\[\]}]*$")


def split_op(w):
    """the tokens the lexer's rules `!=|==|<<|>>|:=|[-~+/*%=<>&^|.]` (Operator) and `[]{}:(),;[]`
    (Punctuation) make of a run of operator characters"""
    out = []
    i = 0
    while i < len(w):
        if w[i:i + 2] in OP2:
            out.append(Tk(4, w[i:i + 2], glue=bool(out))); i += 2
        elif w[i] in OPCH:
            out.append(Tk(4, w[i], glue=bool(out))); i += 1
        elif w[i] in PUNCT:
            out.append(Tk(3, w[i], glue=bool(out))); i += 1
        else:
            raise ValueError("no class for %r" % w)
    return out


def classify(w):
    """word of a template -> list of Tk.  `~` is a blank inside a literal, `¶` a line break inside
    a docstring; `§` a form feed, `‖` U+001C, `¤` U+2028, `µ` U+0085 inside a docstring (characters at
    which `str.splitlines` splits but which are no line breaks for the analysis)"""
    if w[0] in "\"'":
        w = w.replace("~", " ").replace("¶", "\n").replace("§", "\x0c").replace("‖", "\x1c").replace("¤", "\u2028").replace("µ", "\x85")
        q = w[0]
        if w[:3] == q * 3:
            assert len(w) >= 6 and w[-3:] == q * 3 and q * 3 not in w[3:-3] and "\\" not in w, w
            return [Tk(7, w)]                       # String.Doc: only generated at the start of a line
        assert len(w) >= 2 and w[-1] == q and _STR_OK.match(w[1:-1]), w
        ps = [q, w[1:-1], q] if len(w) > 2 else [q, q]
        return [Tk(7, p, glue=(i > 0)) for i, p in enumerate(ps)]
    if w in KW:
        return [Tk(1, w)]
    if w in OPW:
        return [Tk(4, w)]
    if _NUM.match(w):
        return [Tk(0, w)]
    if _IDENT.match(w):
        assert w not in ("match", "case"), w        # soft keywords at the start of a line
        return [Tk(2, w)]
    return split_op(w)


def toks(s):
    out = []
    for w in s.split():
        out += classify(w)
    return out


def is_word(t):
    return t.kind in (0, 1, 2, 7) or (t.kind == 4 and t.text[0].isalpha())


_NOTOUCH = OPCH | set(":!@")


def can_touch(a, b):
    """may token `b` directly follow token `a` without changing what the lexer sees?"""
    if is_word(a) and is_word(b):
        return False              # also keeps names away from quotes (`f'..'` is a prefixed literal)
    if a.text[-1] in _NOTOUCH and b.text[0] in _NOTOUCH:
        return False              # `= =` is not `==`, `: =` is not `:=`
    if a.text[-1].isdigit() and b.text[0] == ".":
        return False
    if a.text[-1] == "." and b.text[0].isdigit():
        return False
    return True


# --------------------------------------------------------------------------- tree helpers

def flat(nodes):
    out = []
    for n in nodes:
        if n[0] == "line":
            out += n[1]
        elif n[0] == "block":
            out += n[1]; out += flat(n[2])
        else:
            _, pre, kw, name, params, post, suite = n
            out += pre; out.append(kw); out.append(name); out += params; out += post; out += flat(suite)
    return out


def count_fns(nodes, depth=0):
    """(number of function nodes, maximal nesting depth of function nodes)"""
    n, d = 0, depth
    for x in nodes:
        if x[0] == "block":
            a, b = count_fns(x[2], depth)
            n += a; d = max(d, b)
        elif x[0] == "defn":
            a, b = count_fns(x[6], depth + 1)
            n += 1 + a; d = max(d, b)
    return n, d


def tree_depth(nodes):
    """maximal nesting depth of suites"""
    d = 0
    for x in nodes:
        if x[0] == "block":
            d = max(d, 1 + tree_depth(x[2]))
        elif x[0] == "defn":
            d = max(d, 1 + tree_depth(x[6]))
    return d


# --------------------------------------------------------------------------- templates

SIMPLE = [
    "x = 1", "y = x + 1", "return x", "return", "pass", "x = g ( 1 , 2 )", "self . a = a", "print ( 'a~b' , x )", "x += 1",
    "z = x ** 2", "q = a // b", "r = x if y else z", "lam = lambda q : q + 1", "t = ( 1 , ( 2 , 3 ) )",
    "d = { 'k' : [ 1 , 2 ] , 'm' : ( 3 ) }", "v = [ i for i in range ( 10 ) if i ]", "assert x , 'm'",
    "raise ValueError ( 'bad' )", "raise E from e", "del x", "global g2", "import os", "import os as o", "from a import c",
    "from a import c , d", "x : int = 0", "a , b = b , a", "s = \"(\"", "s = ')'", "s = 'def~f(x):'", "yield x",
    "await g ( )", "x = not y and z or w", "x = a is not None", "x = a [ 1 : 2 ]", "x = a . b . c ( d ) . e", "x = y == 1",
    "x = y != 1", "x = y <= 1", "x = y << 2", "x = - 1", "f ( * args , ** kw )", "x = ...", "x = None", "x = True",
    "( y := 1 )", "x = 0x1F + 1.5", "define = 1", "undef ( def_ )", "x = g ( )", "\"\"\"one~line~doc\"\"\"", "'''doc~(~def~f(x):'''",
    "'plain~string~statement'", "x = 1 ; y = 2", "x = 1 ; return x", "if x : return 1", "for i in y : pass",
    "while x : break", "with a : pass", "class E ( Exception ) : pass", "x = len ( str ( 1 ) )", "x = super ( ) . m ( )",
    "r = h ( g ( 2 ) , ')' , '(' )", "continue", "break", "nonlocal n2", "x = ''", "x = [ ]", "x = { }", "x = ( )",
    "x = a < b > c", "x = a & b | c ^ d", "x = ~ a", "x = a % 2", "x -= 1", "x //= 2", "x = [ 1 , 2 ] [ 0 ]",
    "print ( x , end = '' )", "x = a and ( b or c )", "y = lambda : 0", "x = '~'", "x = g ( '~~' , \"~\" )", "x = g ( lambda q : ( q ) )", "return ( x , y )",
    "return not x", "yield", "x = await y",
]

DOC_MULTI = ["\"\"\"a§b\"\"\"", "'''x‖y¶z¤w'''", "\"\"\"p¶§q~µ~r\"\"\"", "\"\"\"d¶m\"\"\"","\"\"\"first~line¶¶~~~~more~(~text¶~~~~\"\"\"", "'''a¶def~f(x):¶~~b'''", "\"\"\"¶x¶\"\"\""]

HEADS = ["if x :", "if x > 1 and y :", "while x :", "for i in y :", "for i , j in g ( y ) :", "with a as b :", "with open ( f ) as g , h :",
         "if ( x and y ) :", "if g ( x , ( 1 ) ) :", "async for i in y :", "async with a as b :", "while not ( x ) :",
         "if __name__ == '__main__' :", "if s == '(' :", "with a :"]

DECOS = ["@d", "@property", "@staticmethod", "@a . b", "@g ( 1 )", "@g ( 1 , x = ( 2 ) )", "@app . route ( '(' )", "@d2 ( lambda q : q )"]

P_PLAIN = ["a", "b", "self", "cls", "a : int", "b : str", "u : List [ int ]", "v : Dict [ str , ( int ) ]", "w : 'K'"]
P_DEF = ["c = 1", "d = g ( 1 )", "e = ( 1 , 2 )", "k = lambda q : q", "m = { 'k' : ( 1 ) }", "s = '('", "t = \")\"",
         "u : List [ int ] = None", "v = h ( g ( 2 ) , 3 )", "w = [ ]", "n = - 1", "z = x . y ( )", "y = 'def~f(x):'", "b : str = 'x'",
         "o = ( ( ) )", "p = g ( ) ( )", "r = not ( a )"]
POSTS = [":", ":", ":", ":", "-> int :", "-> List [ int ] :", "-> 'K' :", "-> Dict [ str , ( int ) ] :", "-> None :", "-> ( int ) :",
         "-> g ( 1 ) :", "-> \"(\" :"]
CLASS_HEADS = ["class %s :", "class %s ( B ) :", "class %s ( B , metaclass = M ) :", "class %s ( ) :", "class %s ( g ( 1 ) ) :"]
FN_NAMES = ["__init__", "__str__", "print", "define", "run", "get_x", "m", "f", "_p", "test_it", "visit_Name", "x1"]


class _Plain:
    """no randomness: every choice takes its first alternative, every probability test fails"""
    def choice(self, xs):
        return xs[0]

    def random(self):
        return 0.5

    def randint(self, a, b):
        return a


class PyGen:
    def __init__(self, rnd, plain=False):
        self.rnd = _Plain() if plain else rnd
        rnd = self.rnd
        self.counter = 0
        self.prev = None
        self.unit = rnd.choice([4, 4, 2, 8, 3, 1])
        self.mixed = rnd.random() < 0.3                    # a different width for every suite
        self.tight = rnd.choice([0.0, 0.3, 0.7, 1.0])      # probability of omitting an optional blank
        self.p_blank = rnd.choice([0.0, 0.05, 0.2, 0.4])    # blank lines between statements
        self.p_wrap = rnd.choice([0.0, 0.0, 0.05, 0.2, 0.5])  # line break inside brackets
        self.p_doc = rnd.choice([0.0, 0.2, 0.6])
        self.exotic = rnd.random() < 0.03
        self.top = rnd.choice([1, 2, 5]) if self.exotic and rnd.random() < 0.5 else 0
        self.budget = rnd.choice([40, 100, 100, 250, 250, 600, 1500])   # statements: beyond it only simple ones
        self.nstmt = 0
        self.features = set()

    def fresh(self, prefix="fn"):
        self.counter += 1
        if prefix == "fn" and self.rnd.random() < 0.25:
            return self.rnd.choice(FN_NAMES)
        return "%s%d" % (prefix, self.counter)

    def width(self):
        if self.mixed:
            return self.rnd.choice([1, 2, 3, 4, 8])
        return self.unit

    # ---- layout of one statement / head line / header
    def emit(self, ts, c, lim):
        """set `nl` / `col` of the tokens of one statement that starts a physical line indented by `c`;
        inside brackets a token may begin a continuation line indented by at least `lim`"""
        rnd = self.rnd
        depth = 0
        for i, t in enumerate(ts):
            prev = self.prev
            pk = prev.text.count("\n") if prev is not None else 0
            if i == 0:
                extra = rnd.randint(1, 2) if rnd.random() < self.p_blank else 0
                t.nl, t.col = pk + 1 + extra, c
            elif t.glue:
                assert pk == 0
                t.nl, t.col = 0, len(prev.text) - 1
            elif depth > 0 and not t.nowrap and rnd.random() < self.p_wrap:
                extra = 1 if rnd.random() < 0.05 else 0
                t.nl = pk + 1 + extra
                t.col = lim + rnd.choice([0, 0, 1, 2, 4, 4, 8, 12, max(0, c - lim), max(0, c - lim) + 4, max(0, c - lim) + 8])
                self.features.add("wrap")
            else:
                assert pk == 0
                if can_touch(prev, t) and rnd.random() < self.tight:
                    g = 0
                else:
                    g = 1 if rnd.random() < 0.93 else rnd.randint(2, 4)
                t.nl, t.col = 0, len(prev.text) - 1 + g
            if t.kind == 3 and t.text in "([{":
                depth += 1
            elif t.kind == 3 and t.text in ")]}":
                depth -= 1
            self.prev = t
        assert depth == 0, [x.text for x in ts]
        return ts

    def line(self, s, c, lim):
        return ("line", self.emit(toks(s), c, lim))

    # ---- suites
    def suite(self, c, lim, depth, n=None, where="body"):
        rnd = self.rnd
        out = []
        if where in ("body", "class") and rnd.random() < self.p_doc:
            if rnd.random() < 0.4:
                out.append(self.line(rnd.choice(DOC_MULTI), c, lim)); self.features.add("multiline_docstring")
            else:
                out.append(self.line("\"\"\"doc~of~(%d\"\"\"" % self.counter, c, lim))
        k = rnd.choice([1, 1, 2, 2, 3, 4]) if n is None else n
        for _ in range(k):
            out += self.stmt(c, lim, depth, where)
        return out

    def stmt(self, c, lim, depth, where):
        rnd = self.rnd
        r = rnd.random()
        self.nstmt += 1
        if depth > 9 or self.nstmt > self.budget or r < 0.45 + 0.04 * depth:
            if rnd.random() < 0.04:
                self.features.add("multiline_docstring")
                return [self.line(rnd.choice(DOC_MULTI), c, lim)]
            return [self.line(rnd.choice(SIMPLE), c, lim)]
        r = rnd.random()
        if r < 0.4:
            return self.compound(c, lim, depth)
        if r < 0.55:
            return self.klass(c, lim, depth)
        return self.func(c, lim, depth, where)

    def block(self, head, c, lim, depth, n=None, where="block"):
        hd = self.emit(toks(head), c, lim)
        c2 = c + self.width()
        return ("block", hd, self.suite(c2, lim, depth + 1, n, where))

    def compound(self, c, lim, depth):
        rnd = self.rnd
        r = rnd.random()
        if r < 0.2:
            out = [self.block("try :", c, lim, depth)]
            if rnd.random() < 0.8:
                for _ in range(rnd.randint(1, 2)):
                    out.append(self.block(rnd.choice(["except E as e :", "except ( A , B ) :", "except :", "except ValueError :"]), c, lim, depth))
                if rnd.random() < 0.3:
                    out.append(self.block("else :", c, lim, depth))
                if rnd.random() < 0.3:
                    out.append(self.block("finally :", c, lim, depth))
            else:
                out.append(self.block("finally :", c, lim, depth))
            return out
        head = rnd.choice(HEADS)
        out = [self.block(head, c, lim, depth)]
        if head.startswith("if"):
            for _ in range(rnd.choice([0, 0, 0, 1, 2])):
                out.append(self.block(rnd.choice(["elif y :", "elif g ( y ) :", "elif ( y or z ) :"]), c, lim, depth))
            k = rnd.random()
            if k < 0.3:
                out.append(self.block("else :", c, lim, depth))
            elif k < 0.4:
                out.append(self.line("else : pass", c, lim))
        elif (head.startswith("while") or head.startswith("for")) and rnd.random() < 0.2:
            out.append(self.block("else :", c, lim, depth))
        return out

    def klass(self, c, lim, depth):
        rnd = self.rnd
        out = []
        if rnd.random() < 0.1:
            out.append(self.line(rnd.choice(DECOS), c, lim))
        out.append(self.block(rnd.choice(CLASS_HEADS) % self.fresh("K"), c, lim, depth, where="class"))
        return out

    def params(self):
        rnd = self.rnd
        k = rnd.choice([0, 1, 1, 2, 2, 3, 4, 6])
        parts = []
        n_plain = rnd.randint(0, k)
        idx = [0]

        def uniq(p):
            # give the parameter a unique name (the first word of the template)
            ws = p.split()
            if ws[0] in ("self", "cls"):
                if idx[0] > 0:
                    ws[0] = "a"
                else:
                    idx[0] += 1
                    return p
            idx[0] += 1
            ws[0] = "%s%d" % (ws[0], idx[0])
            return " ".join(ws)
        for _ in range(n_plain):
            parts.append(uniq(rnd.choice(P_PLAIN)))
        if n_plain >= 2 and rnd.random() < 0.1:
            parts.insert(rnd.randint(1, n_plain), "/")
        for _ in range(k - n_plain):
            parts.append(uniq(rnd.choice(P_DEF)))
        r = rnd.random()
        if r < 0.15:
            parts.append("* args")
            if rnd.random() < 0.4:
                parts.append(uniq(rnd.choice(P_DEF + P_PLAIN)))
        elif r < 0.22:
            parts.append("*")
            parts.append(uniq(rnd.choice(P_DEF + P_PLAIN)))
        if rnd.random() < 0.12:
            parts.append("** kw")
        trailing = bool(parts) and parts[-1] not in ("* args", "** kw") and rnd.random() < 0.15
        return "( " + " , ".join(parts) + (" , )" if trailing else " )")

    def func(self, c, lim, depth, where, body_len=None):
        """-> node list: decorator lines (simple statements in front of the function), the `defn` node"""
        rnd = self.rnd
        out = []
        if body_len is None:
            for _ in range(rnd.choice([0, 0, 0, 0, 1, 1, 2])):
                out.append(self.line(rnd.choice(DECOS), c, lim)); self.features.add("decorator")
        pre = toks("async") if rnd.random() < 0.2 else []
        if pre:
            self.features.add("async")
        kw = classify("def")[0]
        name = classify(self.fresh())[0]
        ptxt = self.params()
        if self.exotic and rnd.random() < 0.5:
            ptxt += " ( b )"
        params = toks(ptxt)
        post = toks(rnd.choice(POSTS))
        for t in pre + [kw, name] + post:
            t.nowrap = True
        if len(post) > 1:
            self.features.add("return_annotation")
        hdr = self.emit(pre + [kw, name] + params + post, c, lim)
        if any(t.nl for t in hdr[1:]):
            self.features.add("multiline_header")
        c2 = c + self.width()
        if body_len is not None:
            suite = [self.line("x = %d" % i, c2, c + 1) for i in range(body_len)]
        else:
            suite = self.suite(c2, c + 1, depth + 1, None, "body")
        out.append(("defn", pre, kw, name, params, post, suite))
        return out

    def program(self, size=None, sweep=None, sweep_in_class=False):
        rnd = self.rnd
        c = self.top
        if sweep is not None:
            if sweep_in_class:
                hd = self.emit(toks("class K :"), c, 0)
                c2 = c + self.width()
                return [("block", hd, self.func(c2, 0, 1, "class", body_len=sweep))]
            return self.func(c, 0, 0, "global", body_len=sweep)
        out = []
        if rnd.random() < self.p_doc * 0.5:
            out.append(self.line("\"\"\"module~doc\"\"\"", c, 0))
        for _ in range(size or rnd.randint(1, 4)):
            r = rnd.random()
            if r < 0.2:
                out.append(self.line(rnd.choice(SIMPLE), c, 0))
            elif r < 0.32:
                out += self.compound(c, 0, 0)
            elif r < 0.55:
                out += self.klass(c, 0, 0)
            else:
                out += self.func(c, 0, 0, "global")
        return out


# --------------------------------------------------------------------------- rendering

def render(ts, offsets=False):
    """(text, [(kind, text, line, col)]) of a laid-out token list: the Python twin of `pyTextOf` /
    `pyRender` (a token's text may contain line breaks); with `offsets` also the list of the tokens'
    offsets in the text"""
    out = []
    located = []
    offs = []
    pos = 0
    line, c0, e, k = 0, 0, 1, 1       # after a virtual token at (0, 0) whose text is one line break
    for t in ts:
        if t.nl <= k:
            assert t.nl == k, "token starts above the end of its predecessor"
            col = c0 + 1 + t.col if t.nl == 0 else 1 + t.col
            assert col >= e, "overlap"
            gap = " " * (col - e)
        else:
            col = 1 + t.col
            gap = "\n" * (t.nl - k) + " " * t.col
        line += t.nl
        out.append(gap)
        out.append(t.text)
        offs.append(pos + len(gap))
        pos += len(gap) + len(t.text)
        located.append((t.kind, t.text, line, col))
        k = t.text.count("\n")
        e = col + len(t.text) if k == 0 else len(t.text.rsplit("\n", 1)[1]) + 1
        c0 = col
    out.append("\n")
    if offsets:
        return "".join(out), located, offs
    return "".join(out), located


# --------------------------------------------------------------------------- comments

COMMENTS = ["# c", "#", "#c", "# def f(x):", "# (", "## x ##", "#: type", "# TODO: x ) (", "#!/usr/bin/env python", "# no cl",
            "# \"\"\"", "# '", "#)", "# class K:", "#\tx"]
NOCL = ["# nocl", "#nocl", "# NOCL because", "#  NoCl"]     # suppression markers: only on lines of their own


def add_comments(rnd, ts):
    """-> the token list of the file WITH comment tokens (kind 5) interspersed: comment lines of their own at
    any indentation (also inside brackets, before the first and after the last statement; some are
    suppression markers `# nocl`, which never share a line with a function name) and trailing comments at
    the end of physical lines.  The tokens of `ts` (which belong to the forest) get the layout relative to
    the previous CODE token; the returned list holds copies laid out relative to the previous token of
    the file."""
    p_own = rnd.choice([0.05, 0.2, 0.5])
    p_trail = rnd.choice([0.0, 0.1, 0.4])
    out = []

    def copy(t, nl, col):
        u = Tk(t.kind, t.text, t.glue)
        u.nl, u.col = nl, col
        out.append(u)
        return u

    def own_lines(cur, maxcol):
        """comment lines after the token `cur` (None: start of the file); -> the last token written"""
        n = 0
        while rnd.random() < p_own and n < 3:
            ck = 1 if cur is None else cur.text.count("\n")
            extra = 1 if rnd.random() < 0.15 else 0
            txt = rnd.choice(NOCL) if rnd.random() < 0.15 else rnd.choice(COMMENTS)
            cur = copy(Tk(5, txt), (0 if cur is None else 1) + ck + extra, rnd.choice([0, 0, maxcol, rnd.randint(0, maxcol + 8)]))
            n += 1
        return cur, n

    def trailing(cur):
        if cur is not None and cur.kind != 5 and "\n" not in cur.text and rnd.random() < p_trail:
            g = rnd.choice([0, 1, 2, 2, 5])
            return copy(Tk(5, rnd.choice(COMMENTS)), 0, len(cur.text) - 1 + g)
        return cur

    cur = None
    for t in ts:
        pk = 1 if cur is None else cur.text.count("\n")
        if cur is None or t.nl > pk:
            # `t` begins a physical line
            before = cur
            cur = trailing(cur)
            cur, n = own_lines(cur, t.col)
            if n:
                nl = 1 + (rnd.randint(1, 2) if rnd.random() < 0.1 else 0)
            else:
                nl = t.nl           # a trailing comment starts on the line on which `before` starts (one-line token)
            cur = copy(t, nl, t.col)
        else:
            cur = copy(t, t.nl, t.col)
    cur = trailing(cur)
    own_lines(cur, 4)
    # the forest's layout: relative to the previous code token
    _text, located = render(out)
    code = [x for x in located if x[0] != 5]
    assert len(code) == len(ts)
    pl, pc = 0, 0
    for t, (_k, _v, line, col) in zip(ts, code):
        t.nl = line - pl
        t.col = col - pc - 1 if t.nl == 0 else col - 1
        pl, pc = line, col
    return out


# --------------------------------------------------------------------------- protocol encoding

def sstr(text):
    return "%d%s" % (len(text), "".join(" %d" % ord(c) for c in text))


def enc_tok(t):
    return "%d %d %d %d %s" % (t.kind, t.kind, t.nl, t.col, sstr(t.text))


def enc_toks(ts):
    return "%d%s" % (len(ts), "".join(" " + enc_tok(t) for t in ts))


def enc_forest(nodes):
    parts = [str(len(nodes))]
    for n in nodes:
        if n[0] == "line":
            parts.append("0 " + enc_toks(n[1]))
        elif n[0] == "block":
            parts.append("1 %s %s" % (enc_toks(n[1]), enc_forest(n[2])))
        else:
            _, pre, kw, name, params, post, suite = n
            parts.append("2 %s %s %s %s %s %s" % (enc_toks(pre), enc_tok(kw), enc_tok(name), enc_toks(params), enc_toks(post),
                                                  enc_forest(suite)))
    return " ".join(parts)


def tree_request(nodes):
    return "pytree " + enc_forest(nodes)


def toks_request(all_toks, nodes):
    return "pytoks %s %s" % (enc_toks(all_toks), enc_forest(nodes))


def generate(rnd, size=None, sweep=None, sweep_in_class=False, plain=False, comments=False):
    """-> (nodes, laid-out token list of the file, generator); with `comments` the token list of the file
    contains comment tokens and `nodes` describes its code tokens"""
    g = PyGen(rnd, plain)
    nodes = g.program(size, sweep, sweep_in_class)
    ts = flat(nodes)
    g.comments = comments
    if comments:
        ts = add_comments(rnd, ts)
        g.features.add("comments")
    return nodes, ts, g
