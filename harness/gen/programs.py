"""Canonical-fragment program generator for the 7 languages, with expectations computed per
token from the program tree (not from the analysis): for every function its name, the
position of its header's first token, the position just past its body's last token, and
the set of lines on which one of its own code tokens begins.

A program is rendered as lines of segments (text, owner, is_code); `owner` is the id of the
innermost function the segment's tokens belong to (None = global / class level).
Every random choice comes from the `rnd` passed in.
"""

BRACE = ("C", "C++", "C#", "Java", "JavaScript", "TypeScript")
NESTING = {"C": False, "C++": True, "C#": True, "Java": True, "JavaScript": True, "TypeScript": True, "Python": True}


class Func:
    def __init__(self, fid, name, parent):
        self.id = fid
        self.name = name
        self.parent = parent
        self.start = None     # (line, col) 1-based
        self.end = None       # (line, col) just past the last token
        self.lines = set()
        self.marked = False   # carries a suppression marker
        self.nested_in_marked = False
        self.markable = None  # line number of the name token (a marker comment goes at its end)
        self.extra_lines = []  # other lines of the header (continuation lines, the line of the opening brace)


class Out:
    def __init__(self, lang, rnd):
        self.lang = lang
        self.rnd = rnd
        self.lines = []       # list of list of (text, owner, is_code)
        self.funcs = []
        self.counter = 0
        self.last_code = None  # (line, col_end) of the last code token emitted
        self.cls = []          # names of the enclosing classes that can have constructors (None: anonymous / namespace / interface)
        self.after_spec = False
        self.names = None      # pool of function names (drawn WITH replacement: duplicates, overloads, words that are keywords elsewhere)
        self.name_share = 0.0
        self.extras = False    # continuation lines at any indentation (Python), multi-line macros (C / C++)

    def func_name(self):
        """name of the next function: fresh (`fn<k>`, unique) or, for a share, drawn with replacement from the pool"""
        name = self.fresh()
        if self.names and self.rnd.random() < self.name_share:
            return self.rnd.choice(self.names)
        return name

    def fresh(self, prefix="fn"):
        self.counter += 1
        return "%s%d" % (prefix, self.counter)

    def line(self, *segs):
        """append a line; returns its 1-based number. seg = (text, owner, is_code)"""
        segs2 = []
        for (text, owner, code) in segs:
            segs2.append((str(text), owner, code))
            if isinstance(text, Trail) and text.tail:
                segs2.append((text.tail, None, False))
        segs = segs2
        self.lines.append(list(segs))
        ln = len(self.lines)
        col = 1
        for (text, owner, code) in segs:
            if code and (text.strip() or code == 2):    # code == 2: a token begins here although the text is blank
                stripped_end = col + len(text.rstrip())
                self.last_code = (ln, stripped_end)
                if owner is not None:
                    self.funcs[owner].lines.add(ln)
            col += len(text)
        return ln

    def text(self, trailing_newline=True):
        s = "\n".join("".join(seg[0] for seg in ln) for ln in self.lines)
        return s + ("\n" if trailing_newline else "")

    def expected(self, nesting=True):
        res = []
        for f in self.funcs:
            if f.marked or f.start is None:
                continue
            if not nesting and f.parent is not None:
                continue
            res.append((f.name, f.start[0], f.start[1], f.end[0], f.end[1], len(f.lines)))
        res.sort(key=lambda t: (t[1], t[2]))
        return res


# --------------------------------------------------------------------------- comments

def line_comment(lang, rnd):
    if lang == "Python":
        return rnd.choice(["# a comment", "# def x():", "#(", "# {", "# not nocl here", "#: note"])
    return rnd.choice(["// a comment", "/* block */", "// f() {", "/* { */", "// }", "// later nocl", "/* int g() { */"])


def noise(out, ind, owner, p_blank=0.08, p_comment=0.10):
    r = out.rnd.random()
    if r < p_blank:
        out.line(("", None, False))
    elif r < p_blank + p_comment:
        pad = " " * out.rnd.choice([0, ind, ind + 4]) if out.lang != "Python" else " " * out.rnd.choice([0, ind, ind + 4])
        out.line((pad + line_comment(out.lang, out.rnd), None, False))
    elif r < p_blank + p_comment + 0.03 and out.lang != "Python":
        pad = " " * ind
        out.line((pad + "/* a block", None, False))
        out.line((pad + "   comment { ( */", None, False))


class Trail(str):
    """code text that may be followed by a trailing comment / trailing blanks (kept apart so
    that the end of the code is known)"""
    tail = ""


def maybe_trailing(out, text):
    t = Trail(text)
    r = out.rnd.random()
    if r < 0.12:
        t.tail = " " * out.rnd.randint(1, 3) + line_comment(out.lang, out.rnd)
    elif r < 0.16:
        t.tail = " " * out.rnd.randint(1, 3)
    return t


# --------------------------------------------------------------------------- brace family

def simple_stmts(lang):
    if lang in ("JavaScript", "TypeScript"):
        return ["x = 1;", "g(x);", 's = "}{(";', "return x;", "y = g(h(1));", "c = '{';", "let z = x + 1;",
                "o = {a: 1, b: {c: 2}};", "a.b(c).d();", "s = `t{`;", "x = y ? 1 : 2;", "var q = [1, 2];",
                "v = x > 1 ? g(x) : y;", "w = ok ? a.b(c) : d(e);"]
    if lang == "Java":
        return ["x = 1;", "g(x);", 's = "}{(";', "return x;", "y = g(h(1));", "c = '{';", "int z = x + 1;",
                "int[] a = {1, 2};", "a.b(c).d();", "String t = \"a\\\"{\";", "x++;", "v = x > 1 ? g(x) : y;"]
    if lang == "C#":
        return ["x = 1;", "g(x);", 's = "}{(";', "return x;", "y = g(h(1));", "c = '{';", "int z = x + 1;",
                "int[] a = {1, 2};", "a.b(c).d();", "var t = \"a\\\"{\";", "x++;"]
    return ["x = 1;", "g(x);", 's = "}{(";', "return x;", "y = g(h(1));", "c = '{';", "int z = x + 1;",
            "int a[] = {1, 2};", "p->q(r);", "x++;", "struct s v = {1, {2, 3}};"]


PAREN_LITERALS = {
    "C": ["c = '(';", "if (m == ')') x = 1;", 's = "(";', "q = g('(', x);"],
    "C++": ["c = '(';", "if (m == ')') x = 1;", 's = ")";', "q = g('(', x);"],
    "C#": ["c = '(';", 's = ")";', "q = g('(', x);"],
    "Java": ["c = '(';", 'if (s.equals("(")) x = 1;', 's = ")";'],
    "JavaScript": ["c = '(';", 's = ")";', "t = `(`;", "q = g('(', x);"],
    "TypeScript": ["c = '(';", 's = ")";', "t = `)`;", "q = g('(', x);"],
}


def control_heads(lang):
    heads = ["if (x > 1)", "while (x)", "for (i = 0; i < n; i++)", "switch (x)", "do"]
    if lang in ("C", "C++", "C#", "Java"):
        heads += ["if (m == '(')", "while (c != ')')"]
    if lang in ("Java", "C#", "JavaScript", "TypeScript"):
        heads += ['if (s.equals("("))' if lang == "Java" else 'if (s == "(")']
    if lang != "C":
        heads += ["try"]
    if lang in ("Java", "C#"):
        heads += ["synchronized (this)" if lang == "Java" else "lock (this)"]
    return heads


def gen_body(out, owner, ind, depth, budget):
    """statements of a function body (owner = function id)"""
    lang = out.lang
    rnd = out.rnd
    n = rnd.randint(1, 4) if budget is None else budget
    for _ in range(n):
        noise(out, ind, owner)
        r = rnd.random()
        pad = " " * ind
        if r < 0.05:
            out.line((pad, None, False), (rnd.choice(PAREN_LITERALS[lang]), owner, True))
        elif r < 0.55 or depth > 5:
            out.line((pad, None, False), (maybe_trailing(out, rnd.choice(simple_stmts(lang))), owner, True))
        elif r < 0.62:
            # multi-line statement
            out.line((pad, None, False), ("y = g(a,", owner, True))
            out.line((pad + "      ", None, False), ("b);", owner, True))
        elif r < 0.78:
            gen_control(out, owner, ind, depth)
        elif r < 0.84 and lang in ("JavaScript", "TypeScript"):
            gen_callback(out, owner, ind, depth)
        elif r < 0.88 and lang in ("Java", "C#", "C++"):
            gen_local_class(out, owner, ind, depth)
        elif NESTING[lang] and depth < 4:
            gen_func(out, owner, ind, depth, where="body")
        else:
            out.line((pad, None, False), (rnd.choice(simple_stmts(lang)), owner, True))


def gen_control(out, owner, ind, depth):
    rnd = out.rnd
    pad = " " * ind
    head = rnd.choice(control_heads(out.lang))
    if rnd.random() < 0.6:
        out.line((pad, None, False), (maybe_trailing(out, head + " {"), owner, True))
    else:
        out.line((pad, None, False), (head, owner, True))
        out.line((pad, None, False), ("{", owner, True))
    for _ in range(rnd.randint(1, 3)):
        noise(out, ind + 2, owner)
        r = rnd.random()
        if r < 0.75 or depth > 4:
            out.line((" " * (ind + 2), None, False), (rnd.choice(simple_stmts(out.lang)), owner, True))
        elif r < 0.9:
            gen_control(out, owner, ind + 2, depth + 1)
        elif NESTING[out.lang] and out.lang in ("JavaScript", "TypeScript", "C#") and depth < 4:
            gen_func(out, owner, ind + 2, depth + 1, where="body")
        else:
            out.line((" " * (ind + 2), None, False), ("x = 2;", owner, True))
    tail = "}"
    if head == "do":
        tail = "} while (x);"
    elif head == "try":
        out.line((pad, None, False), ("} catch (e) {" if out.lang in ("JavaScript", "TypeScript") else "} catch (Exception e) {" if out.lang != "C++" else "} catch (...) {", owner, True))
        out.line((" " * (ind + 2), None, False), ("x = 3;", owner, True))
    out.line((pad, None, False), (maybe_trailing(out, tail), owner, True))


def gen_callback(out, owner, ind, depth):
    """anonymous functions are not reported: their lines belong to the enclosing function"""
    rnd = out.rnd
    pad = " " * ind
    head = rnd.choice(["g(function () {", "g((a) => {", "[1].map(x => {", "it('x', async () => {", "p.then(function (r) {"])
    out.line((pad, None, False), (head, owner, True))
    for _ in range(rnd.randint(1, 3)):
        r = rnd.random()
        if r < 0.8 or depth > 3:
            out.line((" " * (ind + 2), None, False), (rnd.choice(simple_stmts(out.lang)), owner, True))
        else:
            gen_func(out, owner, ind + 2, depth + 1, where="body")
    out.line((pad, None, False), ("});", owner, True))


def gen_local_class(out, owner, ind, depth):
    """a class inside a function body whose methods are nested functions"""
    rnd = out.rnd
    pad = " " * ind
    lang = out.lang
    if lang == "Java":
        head = rnd.choice(["Runnable r = new Runnable() {", "class L%d {" % rnd.randint(1, 9), "Object o = new Object() {"])
        tail = "}" if head.startswith("class") else "};"
    elif lang == "C#":
        return gen_func(out, owner, ind, depth, where="body")
    else:
        head = "struct L%d {" % rnd.randint(1, 9)
        tail = "};"
    out.line((pad, None, False), (head, owner, True))
    words = head.split()
    out.cls.append(words[1] if words[0] in ("class", "struct") else None)
    for _ in range(rnd.randint(1, 2)):
        access_specifier(out, ind, owner)
        if rnd.random() < 0.3:
            out.after_spec = False
            out.line((" " * (ind + 2), None, False), ("int f%d = 1;" % rnd.randint(1, 9), owner, True))
        else:
            gen_func(out, owner, ind + 2, depth + 1, where="class")
    out.cls.pop()
    out.after_spec = False
    out.line((pad, None, False), (tail, owner, True))


def access_specifier(out, ind, owner):
    """C++: `public:` ... on a line of its own inside a class / struct body (tokens of the enclosing function, if any)"""
    if out.lang != "C++" or not out.cls or out.cls[-1] is None or out.rnd.random() >= 0.35:
        return
    out.line((" " * out.rnd.choice([ind, ind + 1, ind + 2]), None, False), (maybe_trailing(out, out.rnd.choice(SPECIFIERS)), owner, True))
    out.after_spec = True


def params_for(out, where):
    lang = out.lang
    rnd = out.rnd
    names = rnd.choice([[], ["a"], ["a", "b"], ["a", "b", "c"]])
    if lang in ("JavaScript",):
        ps = list(names)
        if ps and rnd.random() < 0.25:
            ps[0] = "{a, b}"
        if ps and rnd.random() < 0.2:
            ps[-1] = ps[-1] + " = 1"
        if ps and rnd.random() < 0.1:
            ps[-1] = "o = {k: 1}"
        return ps
    if lang == "TypeScript":
        ps = [n + ": number" for n in names]
        if ps and rnd.random() < 0.2:
            ps[0] = "{a, b}: P"
        if ps and rnd.random() < 0.15:
            ps[-1] = "o: {k: number}"
        return ps
    if lang in ("C", "C++"):
        ps = ["int " + n for n in names]
        if ps and rnd.random() < 0.2:
            ps[-1] = "struct s v = {1, 2}"
        if ps and rnd.random() < 0.15:
            ps[0] = "const char *s"
        if lang == "C++" and ps and rnd.random() < 0.1:
            ps[-1] = rnd.choice(["char c = '('", "char d = ')'"])
        return ps
    if lang == "Java":
        ps = [rnd.choice(["int ", "String ", "List<String> ", "final int ", "int[] "]) + n for n in names]
        return ps
    ps = [rnd.choice(["int ", "string ", "List<string> ", "ref int ", "int[] "]) + n for n in names]
    if ps and rnd.random() < 0.15:
        ps[-1] = "int[] v = {1, 2}"
    return ps


TS_TYPES = ["number", "void", "string", "Promise<Map<string, Array<Map<string, number>>>>",
            "Record<string, Array<[number, string, Map<string, Set<number>>]>> | undefined | null",
            "A.B.C<D.E, F.G<H>, I> | J<K, L<M, N<O, P>>> | Q"]


SPECIFIERS = ["public:", "private:", "protected:", "public slots:", "protected :", "private slots:"]


def special_member(out, where):
    """constructor / destructor of the innermost enclosing class (C++, Java, C#): a member WITHOUT a return type whose
    name is the class name; after a C++ access specifier (`public:`) it is the first token behind the ':'"""
    lang = out.lang
    cls = out.cls[-1] if getattr(out, "cls", None) else None
    if where != "class" or cls is None or lang not in ("C++", "Java", "C#"):
        return None
    p = 0.5 if getattr(out, "after_spec", False) else 0.22
    out.after_spec = False
    if out.rnd.random() >= p:
        return None
    return "ctor" if lang == "Java" or out.rnd.random() < 0.65 else "dtor"


def header_for(out, name, where, special=None):
    """-> (prefix tokens owned by the parent, header text without params, suffix after params)"""
    lang = out.lang
    rnd = out.rnd
    if special == "ctor":
        pre = rnd.choice({"C++": ["", "", "", "explicit ", "inline "], "Java": ["", "public ", "protected ", "private "],
                          "C#": ["", "public ", "internal ", "static ", "protected "]}[lang])
        suf = rnd.choice(["", "", " throws Exception"]) if lang == "Java" else ""
        return pre, name, suf
    if special == "dtor":
        return rnd.choice(["~", "~", "virtual ~"] if lang == "C++" else ["~"]), name, ""
    if lang in ("C", "C++"):
        pre = rnd.choice(["int ", "static int ", "void ", "unsigned long ", "struct s *", "const char *"])
        if lang == "C++" and rnd.random() < 0.2:
            pre = rnd.choice(["inline int ", "virtual void ", "template <typename T> T ", "std::vector<int> "])
        return pre, name, ""
    if lang == "Java":
        pre = rnd.choice(["void ", "public int ", "private static String ", "protected List<String> ", "public final int[] "])
        if rnd.random() < 0.15:
            pre = "@Override " + pre
        suf = rnd.choice(["", "", "", " throws Exception", " throws IOException, E"])
        if rnd.random() < 0.08:
            # the follow-up test `throws ... {` has no length bound (seeded change C01-3)
            suf = " throws " + ", ".join(rnd.choice(["E%d" % i, "java.io.IOException", "a.b.c.E%d" % i]) for i in range(rnd.randint(3, 14)))
        return pre, name, suf
    if lang == "C#":
        pre = rnd.choice(["void ", "public int ", "private static string ", "internal List<string> ", "public async Task "])
        return pre, name, ""
    # JavaScript / TypeScript
    if where == "class":
        pre = rnd.choice(["", "", "static ", "async "])
        suf = ""
        if lang == "TypeScript" and rnd.random() < 0.4:
            suf = ": " + rnd.choice(TS_TYPES)
        return pre, name, suf
    k = rnd.random()
    if k < 0.55:
        pre = "async " if rnd.random() < 0.25 else ("export " if where == "global" and rnd.random() < 0.2 else "")
        suf = ""
        if lang == "TypeScript" and rnd.random() < 0.4:
            suf = ": " + rnd.choice(TS_TYPES)
        return pre, "function " + name, suf
    pre = "export " if where == "global" and rnd.random() < 0.2 else ""
    kw = "const " if rnd.random() < 0.7 else ""
    if not kw and where != "global":
        kw = "const "
    if not kw:
        pre = ""
    return pre, kw + name + " = " + ("async " if rnd.random() < 0.25 else ""), " =>"


def gen_func(out, parent, ind, depth, where, body_len=None, style=None):
    lang = out.lang
    rnd = out.rnd
    name = out.func_name()
    special = special_member(out, where)
    if special:
        name = out.cls[-1]
    elif lang == "C#" and name.startswith("fn") and name[2:].isdigit() and rnd.random() < 0.08:
        name = "@" + rnd.choice(["event", "class", "fn"]) + name[2:]    # verbatim identifier: ONE Name token `@event1`
    f = Func(len(out.funcs), name, parent)
    out.funcs.append(f)
    pad = " " * ind
    pre, head, suf = header_for(out, name, where, special)
    ps = params_for(out, where)
    arrow = suf == " =>"
    style = style or rnd.choice(["same", "same", "next", "multi"])
    if arrow and style == "next":
        style = "same"
    if lang in ("JavaScript", "TypeScript") and style == "next":
        style = "same"   # a newline before '{' is fine for the lexer but keep JS idiomatic
    open_paren = "(" if not arrow else "("
    segs = [(pad, None, False)]
    if pre:
        segs.append((pre, parent, True))
    col = len(pad) + len(pre) + 1
    if style == "multi" and len(ps) >= 2:
        first = head + open_paren + ps[0] + ","
        segs.append((first, f.id, True))
        ln = out.line(*segs)
        f.start = (ln, col)
        rest = ", ".join(ps[1:]) + ")" + suf
        if rnd.random() < 0.5 and not arrow:
            f.extra_lines.append(out.line((pad + "    ", None, False), (rest, f.id, True)))
            ln2 = out.line((pad, None, False), ("{", f.id, True))
        else:
            ln2 = out.line((pad + "    ", None, False), (maybe_trailing(out, rest + " {"), f.id, True))
        f.extra_lines.append(ln2)
        f.markable = ln
    else:
        text = head + open_paren + ", ".join(ps) + ")" + suf
        if style == "next" and not arrow:
            segs.append((text, f.id, True))
            ln = out.line(*segs)
            f.start = (ln, col)
            noise(out, ind, None, 0.0, 0.15)
            f.extra_lines.append(out.line((pad, None, False), ("{", f.id, True)))
        else:
            segs.append((maybe_trailing(out, text + " {"), f.id, True))
            ln = out.line(*segs)
            f.start = (ln, col)
        f.markable = ln
    if body_len is not None:
        for i in range(body_len):
            out.line((" " * (ind + 2), None, False), (("x = %d;" % i), f.id, True))
            if rnd.random() < 0.1:
                noise(out, ind + 2, f.id, 0.5, 0.5)
    else:
        gen_body(out, f.id, ind + 2, depth + 1, None)
    noise(out, ind + 2, f.id)
    tail = "}"
    close_ln = out.line((pad, None, False), (tail, f.id, True))
    f.end = (close_ln, len(pad) + 2)
    if arrow and rnd.random() < 0.5:
        # `};` - the semicolon belongs to the parent
        out.lines[-1].append((";", parent, True))
        if parent is not None:
            out.funcs[parent].lines.add(close_ln)
    return f


def gen_class(out, ind, depth=0):
    lang = out.lang
    rnd = out.rnd
    pad = " " * ind
    name = out.fresh("K")
    if lang == "C++":
        head = rnd.choice(["class %s {" % name, "struct %s {" % name, "namespace %s {" % name, "class %s : public B {" % name])
        tail = "}" if head.startswith("namespace") else "};"
    elif lang == "Java":
        head = rnd.choice(["public class %s {" % name, "class %s extends B {" % name, "interface %s {" % name, "enum %s {" % name])
        tail = "}"
    elif lang == "C#":
        head = rnd.choice(["public class %s {" % name, "namespace %s {" % name, "class %s : B {" % name])
        tail = "}"
    else:
        head = rnd.choice(["class %s {" % name, "class %s extends B {" % name, "export class %s {" % name])
        tail = "}"
    if rnd.random() < 0.3 and lang not in ("JavaScript", "TypeScript"):
        out.line((pad, None, False), (head[:-2], None, True))
        out.line((pad, None, False), ("{", None, True))
    else:
        out.line((pad, None, False), (head, None, True))
    if head.startswith("enum"):
        out.line((" " * (ind + 2), None, False), ("A, B;", None, True))
    words = head.split()
    kw = words[1] if words[0] in ("public", "export") else words[0]
    out.cls.append(name if kw in ("class", "struct", "enum") else None)
    for _ in range(rnd.randint(1, 4)):
        access_specifier(out, ind, None)
        noise(out, ind + 2, None)
        r = rnd.random()
        is_func = False
        if r < 0.2:
            if lang in ("JavaScript", "TypeScript"):
                # fields, and members whose name is not an identifier (every other shape a member name admits: string, number,
                # computed from literals) with no named parameter: not NAMED functions
                out.line((" " * (ind + 2), None, False), (rnd.choice(["x = 1;", "static y = {a: 1};", "z;", "['on-click']() { g(1); }", "[0]() { return 1; }",
                                                                        "static ['k' + 1]() {}", "'a-b'() { g(2); }", "42() {}", "[`item`]() { g(3); }"]), None, True))
            else:
                out.line((" " * (ind + 2), None, False), (rnd.choice(["int x = 1;", "static int[] y = {1, 2};", "int z;"]), None, True))
        elif r < 0.3 and lang == "TypeScript":
            # bodiless declarations (overloads, abstract methods) are not function definitions
            out.line((" " * (ind + 2), None, False), (rnd.choice(["q(a: number): void;", "abstract r(): string;", "s(x: string): Promise<void>;", "t?(): number;"]), None, True))
        elif r < 0.3 and lang in ("Java", "C#"):
            out.line((" " * (ind + 2), None, False), (rnd.choice(["abstract void q(int a);", "void q();", "int P { get; set; }" if lang == "C#" else "int q(int a);"]), None, True))
        elif r < 0.4 and depth < 2 and lang in ("Java", "C#", "C++"):
            out.after_spec = False
            gen_class(out, ind + 2, depth + 1)
        else:
            is_func = True
            gen_func(out, None, ind + 2, 0, where="class")
        if not is_func:
            out.after_spec = False     # only a function directly behind the specifier gets the raised constructor share
    out.cls.pop()
    out.after_spec = False
    out.line((pad, None, False), (tail, None, True))


def global_stmt(lang, rnd):
    if lang == "TypeScript" and rnd.random() < 0.3:
        return rnd.choice(["interface I { foo(): string; bar(x: number): void; }", "declare function d(a: number): string;",
                           "type T = { f(): void; g(x: number): string };", "const v = ok ? compute(a) : other;"])
    if lang in ("JavaScript", "TypeScript"):
        return rnd.choice(["const k = 1;", "let o = {a: 1};", "g(1);", "import x from 'y';", "module.exports = {a, b};", "if (x) { g(); }"])
    if lang == "Java":
        return rnd.choice(["import java.util.List;", "package p;"])
    if lang == "C#":
        return rnd.choice(["using System;", "using System.Linq;"])
    return rnd.choice(["#include <stdio.h>", "int k = 1;", "int arr[] = {1, 2};", "struct s { int a; };", "#define M(x) ((x) + 1)",
                       "typedef struct { int a; } t;", "extern int g(int a);", "int h(void);"])


MACROS = [
    ["#define SWAP(a, b) \\", "  do { \\", "    int t = (a); (a) = (b); (b) = t; \\", "  } while (0)"],
    ["#define DEFINE_GETTER(field) \\", "  static int get_##field(struct s *p) { \\", "    return p->field; \\", "  }"],
    ["#define HANDLER(name) \\", "  void name(int a) \\", "  { \\", "    g(a); \\", "  }"],
    ["#define CHECK(x) \\", "  if (!(x)) { \\", "    fail(#x); \\", "  }"],
    ["#define LONG_LIST \\", "  1, 2, \\", "  3"],
    ["#if defined(A) && \\", "    defined(B)", "#endif"],
]


def gen_macro(out):
    """a preprocessor directive continued over several lines with backslashes (C / C++, global code): the lexers make
    ONE preprocessor token of it, whatever it contains - braces, `name(...) {` shapes - so nothing of it is code"""
    for text in out.rnd.choice(MACROS):
        out.line((text, None, False))


def gen_linkage_block(out):
    """a brace block at file scope that is neither a function nor a class: the linkage guard `extern "C" { ... }` of C and
    C++ sources (with or without the `#ifdef __cplusplus` lines around its two brace lines); the definitions inside are
    ordinary top-level functions and global code, indented or not"""
    rnd = out.rnd
    guard = rnd.random() < 0.6
    if guard:
        out.line(("#ifdef __cplusplus", None, False))
    out.line((rnd.choice(['extern "C" {', 'extern "C" {', 'extern "C"  {']), None, True))
    if guard:
        out.line(("#endif", None, False))
    ind = rnd.choice([0, 0, 2])
    for _ in range(rnd.randint(1, 3)):
        if rnd.random() < 0.25:
            out.line((" " * ind, None, False), (global_stmt(out.lang, rnd), None, True))
        else:
            gen_func(out, None, ind, 0, where="global")
    if guard:
        out.line(("#ifdef __cplusplus", None, False))
    out.line(("}", None, True))
    if guard:
        out.line(("#endif", None, False))


def gen_brace_program(lang, rnd, size=None, sweep=None, min_lines=None, count=1, names=None, name_share=0.5, extras=False):
    out = Out(lang, rnd)
    out.names, out.name_share, out.extras = names, name_share, extras
    if sweep is not None:
        # `count` functions (one unless asked otherwise) of exactly `sweep` body statements each, in random styles
        if lang in ("Java", "C#"):
            out.line(("class K {", None, True))
            out.cls.append("K")
            for _ in range(count):
                gen_func(out, None, 2, 0, where="class", body_len=sweep)
            out.cls.pop()
            out.line(("}", None, True))
        else:
            for _ in range(count):
                gen_func(out, None, 0, 0, where="global", body_len=sweep)
        return out
    n = size or rnd.randint(1, 5)
    made = 0
    while made < n or (min_lines is not None and len(out.lines) < min_lines):
        made += 1
        noise(out, 0, None)
        if out.extras and lang in ("C", "C++") and rnd.random() < 0.25:
            gen_macro(out)
        if out.extras and lang in ("C", "C++") and rnd.random() < 0.15:
            gen_linkage_block(out)
            continue
        r = rnd.random()
        if lang in ("Java", "C#"):
            if r < 0.2:
                out.line((global_stmt(lang, rnd), None, True))
            else:
                gen_class(out, 0)
        elif r < 0.25:
            out.line((global_stmt(lang, rnd), None, True))
        elif r < 0.45 and lang != "C":
            gen_class(out, 0)
        else:
            gen_func(out, None, 0, 0, where="global")
    return out


# --------------------------------------------------------------------------- Python

def py_stmts():
    return ["p = '('", 'q = ")"', "x = g('(', 1)", "x = 1", "g(x)", 'x = "):{(def"', "return x", "y = [1, 2]", "z = {1: 2}", "pass", "x = g(h(1))",
            "x += 1", "s = 'def f():'", "a, b = b, a", "assert x", "lam = lambda q: q + 1", "print(f'{x}')"]


def cont_pad(out, pad):
    """indentation of the line behind a backslash continuation: explicit line joining ignores it, so with `extras` it is
    anything from column 1 (left of every enclosing header) to deeper than the statement"""
    if not out.extras:
        return pad + "    "
    return out.rnd.choice(["", " ", pad[:len(pad) // 2], pad, pad + "    ", pad + "        "])


def gen_py_continuation(out, owner, pad):
    """a statement continued over 2-3 physical lines with backslashes; every line carries code tokens of `owner`"""
    rnd = out.rnd
    k = rnd.random()
    if k < 0.5:
        out.line((pad, None, False), ("v = 1 + \\", owner, True))
        out.line((cont_pad(out, pad), None, False), (maybe_trailing(out, "2"), owner, True))
    elif k < 0.8:
        out.line((pad, None, False), ("w = g(1) \\", owner, True))
        out.line((cont_pad(out, pad), None, False), ("+ h(2) \\", owner, True))
        out.line((cont_pad(out, pad), None, False), (maybe_trailing(out, "+ 3"), owner, True))
    else:
        out.line((pad, None, False), ("assert x, \\", owner, True))
        out.line((cont_pad(out, pad), None, False), ("'def f(): {'", owner, True))


def gen_py_block(out, owner, ind, depth, in_func, allow_defs=True, n=None):
    rnd = out.rnd
    made = 0
    for _ in range(n or rnd.randint(1, 4)):
        noise(out, ind, owner)
        if out.extras and rnd.random() < 0.12:
            gen_py_continuation(out, owner, " " * ind)
            made += 1
            continue
        if getattr(out, "stubs", False) and rnd.random() < 0.15:
            # a one-line def (Protocol stub, trivial accessor): a header WITHOUT a suite. Outside the canonical
            # fragment of C01 (no expectation is derived for it), used by the metamorphic streams only
            out.line((" " * ind, None, False), (rnd.choice(["def %s(self) -> None: ...", "def %s(): pass", "async def %s(a, b=1): return a"]) % out.fresh("stub"), owner, True))
        r = rnd.random()
        pad = " " * ind
        if r < 0.5 or depth > 5:
            st = rnd.choice(py_stmts())
            if not in_func and st.startswith("return"):
                st = "x = 2"
            out.line((pad, None, False), (maybe_trailing(out, st), owner, True))
        elif r < 0.56:
            out.line((pad, None, False), ("y = g(a,", owner, True))
            out.line((pad + "      ", None, False), ("b)", owner, True))
        elif r < 0.60:
            # the Pygments Python lexer splits a non-docstring multi-line string into one or
            # more tokens per line, so each of its lines carries code tokens
            out.line((pad, None, False), ("t = '''multi", owner, True))
            out.line((pad + "  ", None, False), ("line (", owner, True))
            out.line((pad + "    ", None, False), ("'''", owner, True))
        elif r < 0.62:
            out.line((pad, None, False), ("v = 1 + \\", owner, True))
            out.line((cont_pad(out, pad), None, False), ("2", owner, True))
        elif r < 0.63:
            # a line holding only the continuation backslash (its Text token is not blank: a code line)
            out.line((pad, None, False), ("v = 1 + \\", owner, True))
            out.line((cont_pad(out, pad), None, False), ("\\", owner, True))
            out.line((cont_pad(out, pad), None, False), ("2", owner, True))
        elif r < 0.64:
            # an EMPTY line inside a non-docstring multi-line string: the lexer emits a String token "\n"
            # at column 1 of that line (a code line), and the logical line continues
            out.line((pad, None, False), ("t = '''multi", owner, True))
            out.line(("", owner, 2))
            out.line(("  line (", owner, True))
            out.line((pad + "    ", None, False), ("'''", owner, True))
        elif r < 0.76:
            head = rnd.choice(["if x:", "while x:", "for i in y:", "with a as b:", "try:", "else:" if False else "if x and (y or z):"])
            out.line((pad, None, False), (maybe_trailing(out, head), owner, True))
            gen_py_block(out, owner, ind + 4, depth + 1, in_func, allow_defs and rnd.random() < 0.3)
            if head == "try:":
                out.line((pad, None, False), ("except Exception:", owner, True))
                out.line((pad + "    ", None, False), ("pass", owner, True))
        elif r < 0.84 and not in_func:
            out.line((pad, None, False), (rnd.choice(["class %s:", "class %s(Base):", "class %s(A, B):"]) % out.fresh("K"), owner, True))
            if rnd.random() < 0.3:
                out.line((pad + "    ", None, False), ('"""doc"""', owner, True))
            gen_py_block(out, owner, ind + 4, depth + 1, False, True)
        elif allow_defs and depth < 5:
            gen_py_func(out, owner, ind, depth)
        else:
            out.line((pad, None, False), ("x = 3", owner, True))
        made += 1


def gen_py_func(out, parent, ind, depth, body_len=None):
    rnd = out.rnd
    name = out.func_name()
    f = Func(len(out.funcs), name, parent)
    out.funcs.append(f)
    pad = " " * ind
    if rnd.random() < 0.2:
        out.line((pad, None, False), (rnd.choice(["@dec", "@dec(1)", "@a.b", "@staticmethod"]), parent, True))
    pre = "async " if rnd.random() < 0.25 else ""
    params = rnd.choice([[], ["a"], ["a", "b=1"], ["a: int", 'b: str = "x)"'], ["self", "*args", "**kw"], ["a", "b={1: 2}"]])
    ret = rnd.choice(["", "", " -> int", " -> 'T'"])
    segs = [(pad, None, False)]
    if pre:
        segs.append((pre, parent, True))
    col = len(pad) + len(pre) + 1
    if len(params) >= 2 and rnd.random() < 0.3:
        segs.append(("def %s(%s," % (name, params[0]), f.id, True))
        ln = out.line(*segs)
        if rnd.random() < 0.5:
            f.extra_lines.append(out.line((pad + "        ", None, False), (maybe_trailing(out, ", ".join(params[1:]) + ")" + ret + ":"), f.id, True)))
        else:
            f.extra_lines.append(out.line((pad + "        ", None, False), (", ".join(params[1:]), f.id, True)))
            f.extra_lines.append(out.line((pad, None, False), (")" + ret + ":", f.id, True)))
    else:
        segs.append((maybe_trailing(out, "def %s(%s)%s:" % (name, ", ".join(params), ret)), f.id, True))
        ln = out.line(*segs)
    f.start = (ln, col)
    f.markable = ln
    body_ind = ind + rnd.choice([4, 4, 4, 2, 8])
    bpad = " " * body_ind
    r = rnd.random()
    if body_len is not None:
        for i in range(body_len):
            out.line((bpad, None, False), ("x = %d" % i, f.id, True))
            if rnd.random() < 0.1:
                noise(out, body_ind, f.id, 0.5, 0.5)
    else:
        doc_only = False
        if r < 0.15:
            out.line((bpad, None, False), ('"""one line doc"""', f.id, True))
        elif r < 0.3:
            out.line((bpad, None, False), ('"""multi-line doc', f.id, True))
            out.line((bpad + "more (text", None, False))
            out.line((bpad, None, False), ('"""', None, False))
            out.last_code = (len(out.lines), body_ind + 3 + 1)
            doc_only = rnd.random() < 0.3
        if not doc_only:
            gen_py_block(out, f.id, body_ind, depth + 1, True, True)
    f.end = out.last_code
    return f


def gen_python_program(rnd, size=None, sweep=None, stubs=False, min_lines=None, count=1, names=None, name_share=0.5, extras=False):
    out = Out("Python", rnd)
    out.stubs = stubs
    out.names, out.name_share, out.extras = names, name_share, extras
    if sweep is not None:
        for _ in range(count):
            gen_py_func(out, None, 0, 0, body_len=sweep)
        return out
    gen_py_block(out, None, 0, 0, False, True, n=size or rnd.randint(1, 5))
    while min_lines is not None and len(out.lines) < min_lines:
        gen_py_block(out, None, 0, 0, False, True, n=5)
    return out


def generate(lang, rnd, size=None, sweep=None, stubs=False, min_lines=None, count=1, names=None, name_share=0.5, extras=False):
    """`sweep`: one function (`count` functions) of exactly that many body statements; `min_lines`: keep adding top-level
    items (functions, classes, global code) until the program has at least that many lines (size ladder over the number of
    functions); `names`: pool of function names drawn WITH replacement for `name_share` of the functions (duplicate
    names, overloads, words that are keywords in another language); `extras`: Python backslash continuations whose
    following line is indented anyhow (also left of the enclosing header), C / C++ multi-line macros as global code and
    `extern "C" { ... }` linkage blocks around top-level definitions"""
    if lang == "Python":
        return gen_python_program(rnd, size, sweep, stubs, min_lines, count, names, name_share, extras)
    return gen_brace_program(lang, rnd, size, sweep, min_lines, count, names, name_share, extras)


# ------------------------------------------------------------------------------------------------------------------
# round 7: member positions. Programs WITHOUT expectations (for the totality / well-formedness streams, which judge the
# real output by direct oracles): every kind of body a brace language has (type bodies, enum bodies, object literals,
# namespaces, initialiser lists), with header-shaped members in every POSITION such a body admits - directly after the
# opening brace, after a comma, after a semicolon, after a closing brace - with and without modifiers / return types:
# modifier-less constructors as first member, enum constants with arguments and class bodies, object-literal methods.
# ------------------------------------------------------------------------------------------------------------------

MEMBER_CONTAINERS = {
    "C": ["struct %s {", "enum %s {", "static struct ops %s = {", 'extern "C" {', "union %s {"],
    "C++": ["class %s {", "struct %s {", "namespace %s {", "enum class %s {", 'extern "C" {', "auto %s = [] {"],
    "C#": ["class %s {", "struct %s {", "interface %s {", "namespace %s {", "enum %s {", "var %s = new T {"],
    "Java": ["class %s {", "public enum %s {", "interface %s {", "record %s(int a) {", "@interface %s {", "Object %s = new Object() {"],
    "JavaScript": ["class %s {", "const %s = {", "export default {", "module.exports = {", "%s({"],
    "TypeScript": ["class %s {", "const %s = {", "interface %s {", "enum %s {", "namespace %s {", "declare module %s {"],
}
_MEMBER_PARAMS = {"C": "int a, int b", "C++": "int a, int b", "C#": "int a, string b", "Java": "int a, String b", "JavaScript": "a, b", "TypeScript": "a: number, b: string"}
_MEMBER_TYPED = {"C": "static int %s(%s) {", "C++": "virtual int %s(%s) {", "C#": "public int %s(%s) {", "Java": "double %s(%s) {", "JavaScript": "static %s(%s) {", "TypeScript": "private %s(%s): number {"}
_MEMBER_ARGS = ['"+"', "1", "1, 2", "", '"{"', "'('"]


def member_program(lang, rnd, kinds=None):
    """-> text; see the section comment. Every container kind of the language (`kinds`: that many of them) once, in a random order; in each: a first
    member directly after `{`, further members behind one separator kind (`,` / `;` / none) of the body"""
    k = [0]

    def name(prefix):
        k[0] += 1
        return "%s%d" % (prefix, k[0])
    params = _MEMBER_PARAMS[lang]

    def body(ind):
        return ind + "  " + rnd.choice(["return a;", "this.a = a;", "x = a + b;", "if (a) { b = 1; }"]) + "\n"

    def member(ind, cname, depth=0):
        """one header-shaped member (text without the separator)"""
        kind = rnd.choice(["bare", "bare", "constant", "constant", "typed", "ctor"])
        if kind == "typed":
            head = _MEMBER_TYPED[lang] % (name("m"), params)
        elif kind == "ctor":
            head = "%s(%s) {" % (cname, params)
        elif kind == "constant":
            head = "%s(%s) {" % (name("CONST").upper(), rnd.choice(_MEMBER_ARGS))
        else:
            head = "%s(%s) {" % (name("f"), params)
        text = ind + head + "\n"
        if kind == "constant" and depth < 2:
            text += member(ind + "  ", cname, depth + 1) + "\n"      # the class body of an enum constant
        else:
            text += body(ind)
        return text + ind + "}"
    parts = []
    containers = list(MEMBER_CONTAINERS[lang])
    rnd.shuffle(containers)
    for c in containers[:kinds]:
        cname = name("K")
        sep = rnd.choice([",", ",", ";", ""])
        text = (c % cname if "%s" in c else c) + rnd.choice(["\n", "\n", " "])
        n = rnd.randint(2, 3)
        for i in range(n):
            if i == 0 and rnd.random() < 0.25:
                text += "  " + rnd.choice(["A", "A(1)", "int a", "a: 1"]) + (sep or ";") + "\n"       # a plain constant / field first
            text += member("  ", cname).lstrip(" ") if text.endswith(" ") else member("  ", cname)
            text += (sep if i < n - 1 else rnd.choice([sep, ";", ""])) + "\n"
        text += rnd.choice(["}", "};", "});"]) + "\n"
        parts.append(text)
    return "".join(parts)
