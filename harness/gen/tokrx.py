"""Reference semantics for patterns over TOKEN predicates with stateful leaves (parenthesis groups) at ANY position.

A pattern is an rx syntax tree (see gen/rx.py) whose leaves ("a", code) stand for token predicates:
  code = 1..4            a stateless predicate (which one is the caller's business)
  code = ("g", G)        OneOrMore(G), G a predicate tree that contains a depth counter (Balanced): a GROUP leaf
The language of the tree is the ordinary one (sequence / alternation / repetition of the leaves' languages), the
language of a group leaf being: every non-empty sequence all of whose tokens G accepts when it is run from its
initial state, counting as it goes (so a group, once open, takes every token until its nesting is back at zero and may
open again; it is prefix closed).  Nothing here looks at the code under test: the tree is turned into its position
automaton (rx.glushkov) and run as a set of THREADS (position, private counters of that position); a thread that enters
a group leaf starts with new counters, a thread that stays in it (the leaf's own loop) carries them.

The ordinary semantics is silent about three situations; an attempt in which one occurs is FLAGGED and the caller
does not judge the input (it counts them):
  ambiguous  two leaves that are different predicates accept the same token (the matcher under test is specified to
             raise for those: property C15 is about the shipped patterns never getting there);
  mixed      one group predicate would have to be in two counter states at once (entered anew while already open);
  stale      the attempt goes on after a group predicate was asked about a token, said no, and is left with counters
             that are not the initial ones (a closing token at depth zero counts down before it is refused): what a
             later use of that predicate in the same attempt means is not defined by the language."""
from gen import rx


def is_group(code):
    return isinstance(code, (tuple, list)) and len(code) == 2 and code[0] == "g"


def leaves(r, out=None):
    out = [] if out is None else out
    if r[0] == "a":
        out.append(r[1])
    else:
        for x in r[1:]:
            leaves(x, out)
    return out


def nonzero(st):
    return bool(st) and any(v != 0 for v in st.values())


class Attempt:
    __slots__ = ("start", "finish", "acc", "open", "flags", "cut")

    def __init__(self, start):
        self.start = start
        self.finish = start      # the attempt consumed w[start:finish] and is stuck (or the input ended, or cut)
        self.acc = []            # ends e (> start) with w[start:e] a word of the language, ascending
        self.open = {}           # e in acc -> some live thread has a counter that is not zero
        self.flags = set()
        self.cut = False         # stopped by the step limit, not by the input

    @property
    def ok(self):
        """the greedy attempt succeeds: it is stuck (or at the end of input) right after a word"""
        return bool(self.acc) and self.acc[-1] == self.finish and not self.cut

    @property
    def longest(self):
        return self.acc[-1] if self.acc else None


class TokRef:
    def __init__(self, r, accept, cls=None):
        """accept(code, counters or None, token) -> bool, may change `counters` (a dict) in place, also when it says no;
        cls(code) -> what makes two leaves the SAME predicate (default: the code itself)"""
        self.null, self.first, self.last, follow, self.pos = rx.glushkov(r)
        n = len(self.pos)
        self.follow = [set(follow.get(p, ())) for p in range(n)]
        self.group = [is_group(c) for c in self.pos]
        for p in range(n):
            if self.group[p]:
                self.follow[p].add(p)
        self.accept = accept
        self.cls = [repr(cls(c) if cls else c) for c in self.pos]

    def step(self, threads, a, flags):
        """threads: None (nothing consumed yet) or {position: counters}; -> the threads after token a ({} = stuck)"""
        cands = {}
        if threads is None:
            for q in self.first:
                cands[q] = {} if self.group[q] else None
        else:
            for p, st in threads.items():        # a thread that stays in its group keeps its counters
                if self.group[p]:
                    cands[p] = st
            for p, st in threads.items():
                for q in self.follow[p]:
                    if q == p and self.group[p]:
                        continue
                    if q in cands:
                        if self.group[q] and nonzero(cands[q]):
                            flags.add("mixed")
                        continue
                    cands[q] = {} if self.group[q] else None
        new, pre, dirty = {}, {}, False
        for q, st in cands.items():
            st2 = dict(st) if st is not None else None
            pre.setdefault(self.cls[q], []).append(st)
            if self.accept(self.pos[q], st2, a):
                new[q] = st2
            elif st2 is not None and nonzero(st2):
                dirty = True
        if new:
            if len(set(self.cls[q] for q in new)) > 1:
                flags.add("ambiguous")
            if any(s != ss[0] for ss in pre.values() for s in ss[1:]):
                flags.add("mixed")       # leaves that are ONE predicate for the matcher, asked in two counter states
            if dirty:
                flags.add("stale")
        return new

    def attempt(self, w, s, limit=None):
        at = Attempt(s)
        threads = None
        k = s
        end = len(w) if limit is None else min(len(w), s + limit)
        while k < end:
            new = self.step(threads, w[k], at.flags)
            if not new:
                return at
            threads = new
            k += 1
            at.finish = k
            if any(q in self.last for q in threads):
                at.acc.append(k)
                at.open[k] = any(nonzero(st) for st in threads.values())
        at.cut = end < len(w)
        return at


def biased_tokens(rnd, ref, alpha, n, p_good=0.85):
    """a token sequence of length n made of chunks the pattern can follow (several words in a row) and noise"""
    out, threads = [], None
    for _ in range(n):
        pick = None
        if rnd.random() < p_good:
            for a in rnd.sample(alpha, len(alpha)):
                new = ref.step(threads, a, set())
                if new:
                    pick, nxt = a, new
                    break
        if pick is None:
            pick = rnd.choice(alpha)
            nxt = ref.step(threads, pick, set())
        out.append(pick)
        threads = nxt if nxt else None
        if threads is not None and rnd.random() < 0.12:
            threads = None
    return out
