"""File-name pools for tree generators, derived from Pygments and Unicode data rather than from a fixed word list.

* `language_file_names()`: for every language Code Limit supports, the concrete file names Pygments maps to that
  language's lexer - every extension of the lexer's `filenames` patterns (`*.h`, `*.hh`, `*.cxx`, `*.mjs`, ...) and
  every whole-name pattern (`BUILD`, `SConstruct`, `BUCK`, ...) - with the other lexers that claim the same pattern.
* `sibling_names(name)`: names with the SAME suffix that Pygments gives to another (or no) lexer (`LICENSE`, `Makefile`
  next to `BUILD`), for order / memoisation probes.
* `unicode_twins()`: pairs of distinct file names that are canonically equivalent (NFC vs NFD spelling), legal and
  distinct on Linux file systems.
* `awkward_names()`: names with characters that need escaping in JSON / shells / patterns (backslash, quote, tab, ...).
"""
import fnmatch
import os
import unicodedata


def supported_lexer_names():
    try:
        from codelimit.languages import Languages
        return [lang.name for lang in Languages.all] if hasattr(Languages, "all") else \
            [v.name for k, v in vars(Languages).items() if hasattr(v, "name") and not k.startswith("_")]
    except Exception:
        return ["C", "C++", "C#", "Java", "JavaScript", "Python", "TypeScript"]


def _all_lexers():
    from pygments.lexers import get_all_lexers
    return list(get_all_lexers())


_LFN = {}


def language_file_names(stem="unit"):
    """[(file name, language name, [other lexer names claiming the same pattern])]"""
    if stem not in _LFN:
        _LFN[stem] = _language_file_names(stem)
    return list(_LFN[stem])


def _language_file_names(stem):
    names = set(supported_lexer_names())
    lexers = _all_lexers()
    out = []
    for (lname, aliases, patterns, mimes) in lexers:
        if lname not in names:
            continue
        for pat in patterns:
            if pat.startswith("*.") and not any(c in pat[2:] for c in "*?["):
                fn = stem + pat[1:]
            elif not any(c in pat for c in "*?["):
                fn = pat
            else:
                continue
            others = sorted(l2 for (l2, a2, p2, m2) in lexers if l2 != lname and any(fnmatch.fnmatch(fn, q) for q in p2))
            out.append((fn, lname, others))
    return sorted(set((a, b, tuple(c)) for a, b, c in out))


def resolves_to(fn, code=None):
    """name of the lexer Pygments picks for the file name (None if none)"""
    from pygments.lexers import get_lexer_for_filename
    from pygments.util import ClassNotFound
    try:
        return get_lexer_for_filename(fn, code).name if code is not None else get_lexer_for_filename(fn).name
    except ClassNotFound:
        return None


def sibling_names(fn):
    """other file names with the same os.path suffix that Pygments does NOT map to a supported language"""
    suffix = os.path.splitext(fn)[1]
    pool = ["LICENSE", "AUTHORS", "Makefile", "README", "NOTICE", "Dockerfile", "CHANGES", "notes" + suffix, "data" + suffix] if not suffix \
        else ["other" + suffix, "x" + suffix]
    sup = set(supported_lexer_names())
    return [n for n in pool if n != fn and os.path.splitext(n)[1] == suffix and resolves_to(n) not in sup]


_DECOMPOSABLE = ["é", "ü", "ă", "ñ", "ệ", "가", "Å", "ǖ"]


def unicode_twins(ext=".py", stems=("caf", "m", "x")):
    """[(nfc name, nfd name)] - different byte strings, same text after normalisation"""
    out = []
    for i, ch in enumerate(_DECOMPOSABLE):
        nfc = stems[i % len(stems)] + ch + ext
        nfd = unicodedata.normalize("NFD", nfc)
        if nfd != nfc:
            out.append((nfc, nfd))
    return out


def awkward_names(ext=".py"):
    return ["legacy\\new" + ext, "a\"b" + ext, "tab\there" + ext, "semi;colon" + ext, "sp ace" + ext, "do$lar" + ext,
            "star*" + ext, "que?" + ext, "br[ack]" + ext, "ex!cl" + ext, "hash#" + ext, "per%cent" + ext, "back`tick" + ext,
            " ls" + ext, "-dash" + ext, "~tilde" + ext, "ć" + ext]


if __name__ == "__main__":
    for row in language_file_names():
        print(row)
    print(unicode_twins())
