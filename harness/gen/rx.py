"""Regular-expression ASTs over small alphabets: exhaustive enumeration by size, random
generation, serialisation for the model driver, construction of the real expression objects,
and an independent reference semantics (Brzozowski derivatives) used as the oracle."""
import functools
import itertools

UN = ("o", "s", "p")   # Optional, ZeroOrMore, OneOrMore
BIN = ("c", "u")       # sequence, Union


@functools.lru_cache(maxsize=None)
def of_size(n, atoms):
    """all ASTs with exactly n nodes; AST = ('a', k) | (op, r) | (op, r1, r2)"""
    if n == 1:
        return tuple(("a", k) for k in atoms)
    out = []
    for op in UN:
        for r in of_size(n - 1, atoms):
            out.append((op, r))
    for op in BIN:
        for k in range(1, n - 1):
            for r1 in of_size(k, atoms):
                for r2 in of_size(n - 1 - k, atoms):
                    out.append((op, r1, r2))
    return tuple(out)


def up_to(n, atoms=(1, 2, 3)):
    return [r for k in range(1, n + 1) for r in of_size(k, tuple(atoms))]


def random_rx(rnd, size, atoms=(1, 2, 3)):
    if size <= 1:
        return ("a", rnd.choice(atoms))
    if size == 2 or rnd.random() < 0.4:
        return (rnd.choice(UN), random_rx(rnd, size - 1, atoms))
    k = rnd.randint(1, size - 2)
    return (rnd.choice(BIN), random_rx(rnd, k, atoms), random_rx(rnd, size - 1 - k, atoms))


def words(alphabet, max_len):
    for n in range(max_len + 1):
        for w in itertools.product(alphabet, repeat=n):
            yield list(w)


def ser(r):
    if r[0] == "a":
        return "a %d" % r[1]
    return r[0] + " " + " ".join(ser(x) for x in r[1:])


def show(r):
    if r[0] == "a":
        return "abcdefgh"[r[1] - 1]
    if r[0] == "c":
        return "[%s, %s]" % (show(r[1]), show(r[2]))
    name = {"u": "Union", "o": "Optional", "s": "ZeroOrMore", "p": "OneOrMore"}[r[0]]
    return "%s(%s)" % (name, ", ".join(show(x) for x in r[1:]))


def letter(k):
    return "abcdefgh"[k - 1] if k <= 8 else "x%d" % k


def to_expr(r):
    """the real expression object (a list for sequences, operators otherwise)"""
    from codelimit.common.gsm.operator.OneOrMore import OneOrMore
    from codelimit.common.gsm.operator.Optional import Optional
    from codelimit.common.gsm.operator.Union import Union
    from codelimit.common.gsm.operator.ZeroOrMore import ZeroOrMore

    def seq(r):  # flatten left-nested sequences into the Python list form
        if r[0] == "c":
            return seq(r[1]) + seq(r[2])
        return [one(r)]

    def one(r):
        if r[0] == "a":
            return letter(r[1])
        if r[0] == "c":
            # a sequence in operand position: Python has no sequence operator, a list is only
            # legal as a whole expression or as an operator argument; wrap via a 1-ary Union-free
            # trick is impossible, so callers only build 'c' at list level (see to_expr_top).
            raise ValueError("nested sequence")
        if r[0] == "u":
            return Union(arg(r[1]), arg(r[2]))
        return {"o": Optional, "s": ZeroOrMore, "p": OneOrMore}[r[0]](arg(r[1]))

    def arg(r):
        return seq(r)

    return seq(r)


# ---- reference semantics ---------------------------------------------------------------

def nullable(r):
    t = r[0]
    if t == "0":
        return False
    if t == "1":
        return True
    if t == "a":
        return False
    if t == "c":
        return nullable(r[1]) and nullable(r[2])
    if t == "u":
        return nullable(r[1]) or nullable(r[2])
    if t in ("o", "s"):
        return True
    return nullable(r[1])  # plus


EMPTY = ("0",)
EPS = ("1",)


def _cat(a, b):
    if a == EMPTY or b == EMPTY:
        return EMPTY
    if a == EPS:
        return b
    if b == EPS:
        return a
    return ("c", a, b)


def _alt(a, b):
    if a == EMPTY:
        return b
    if b == EMPTY:
        return a
    if a == b:
        return a
    return ("u", a, b)


def _nullable(r):
    if r == EMPTY:
        return False
    if r == EPS:
        return True
    return nullable(r)


def deriv(r, x):
    t = r[0]
    if t in ("0", "1"):
        return EMPTY
    if t == "a":
        return EPS if r[1] == x else EMPTY
    if t == "c":
        d = _cat(deriv(r[1], x), r[2])
        return _alt(d, deriv(r[2], x)) if _nullable(r[1]) else d
    if t == "u":
        return _alt(deriv(r[1], x), deriv(r[2], x))
    if t == "o":
        return deriv(r[1], x)
    if t == "s":
        return _cat(deriv(r[1], x), r)
    if t == "p":
        return _cat(deriv(r[1], x), ("s", r[1]))
    raise ValueError(t)


def in_lang(r, w):
    for x in w:
        r = deriv(r, x)
        if r == EMPTY:
            return False
    return _nullable(r)


def shortest_prefix(r, w):
    """least k >= 1 with w[:k] in L(r), or None"""
    for k, x in enumerate(w):
        r = deriv(r, x)
        if r == EMPTY:
            return None
        if _nullable(r):
            return k + 1
    return None


def longest_from(r, w, s):
    """greatest e > s with w[s:e] in L(r), or None"""
    best = None
    for k in range(s, len(w)):
        r = deriv(r, w[k])
        if r == EMPTY:
            break
        if _nullable(r):
            best = k + 1
    return best
