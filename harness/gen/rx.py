"""Regular-expression ASTs over small alphabets: exhaustive enumeration by size, random
generation, serialisation for the model driver, construction of the real expression objects,
and an independent reference semantics (Brzozowski derivatives) used as the oracle."""
import functools
import itertools

UN = ("o", "s", "p")   # Optional, ZeroOrMore, OneOrMore
BIN = ("c", "u")       # sequence, Union


@functools.lru_cache(maxsize=None)
def of_size(n, atoms):
    """all ASTs with exactly n nodes; AST = ('a', k) | (op, r) | (op, r1, r2)"""
    if n == 1:
        return tuple(("a", k) for k in atoms)
    out = []
    for op in UN:
        for r in of_size(n - 1, atoms):
            out.append((op, r))
    for op in BIN:
        for k in range(1, n - 1):
            for r1 in of_size(k, atoms):
                for r2 in of_size(n - 1 - k, atoms):
                    out.append((op, r1, r2))
    return tuple(out)


def up_to(n, atoms=(1, 2, 3)):
    return [r for k in range(1, n + 1) for r in of_size(k, tuple(atoms))]


def random_rx(rnd, size, atoms=(1, 2, 3)):
    if size <= 1:
        return ("a", rnd.choice(atoms))
    if size == 2 or rnd.random() < 0.4:
        return (rnd.choice(UN), random_rx(rnd, size - 1, atoms))
    k = rnd.randint(1, size - 2)
    return (rnd.choice(BIN), random_rx(rnd, k, atoms), random_rx(rnd, size - 1 - k, atoms))


def words(alphabet, max_len):
    for n in range(max_len + 1):
        for w in itertools.product(alphabet, repeat=n):
            yield list(w)


def ser(r):
    if r[0] == "a":
        return "a %d" % r[1]
    return r[0] + " " + " ".join(ser(x) for x in r[1:])


def show(r):
    if r[0] == "a":
        return "abcdefgh"[r[1] - 1]
    if r[0] == "c":
        return "[%s, %s]" % (show(r[1]), show(r[2]))
    name = {"u": "Union", "o": "Optional", "s": "ZeroOrMore", "p": "OneOrMore"}[r[0]]
    return "%s(%s)" % (name, ", ".join(show(x) for x in r[1:]))


def letter(k):
    return "abcdefgh"[k - 1] if k <= 8 else "x%d" % k


def to_expr(r):
    """the real expression object (a list for sequences, operators otherwise)"""
    from codelimit.common.gsm.operator.OneOrMore import OneOrMore
    from codelimit.common.gsm.operator.Optional import Optional
    from codelimit.common.gsm.operator.Union import Union
    from codelimit.common.gsm.operator.ZeroOrMore import ZeroOrMore

    def seq(r):  # flatten left-nested sequences into the Python list form
        if r[0] == "c":
            return seq(r[1]) + seq(r[2])
        return [one(r)]

    def one(r):
        if r[0] == "a":
            return letter(r[1])
        if r[0] == "c":
            # a sequence in operand position: Python has no sequence operator, a list is only
            # legal as a whole expression or as an operator argument; wrap via a 1-ary Union-free
            # trick is impossible, so callers only build 'c' at list level (see to_expr_top).
            raise ValueError("nested sequence")
        if r[0] == "u":
            return Union(arg(r[1]), arg(r[2]))
        return {"o": Optional, "s": ZeroOrMore, "p": OneOrMore}[r[0]](arg(r[1]))

    def arg(r):
        return seq(r)

    return seq(r)


# ---- reference semantics ---------------------------------------------------------------

def nullable(r):
    t = r[0]
    if t == "0":
        return False
    if t == "1":
        return True
    if t == "a":
        return False
    if t == "c":
        return nullable(r[1]) and nullable(r[2])
    if t == "u":
        return nullable(r[1]) or nullable(r[2])
    if t in ("o", "s"):
        return True
    return nullable(r[1])  # plus


EMPTY = ("0",)
EPS = ("1",)


def _cat(a, b):
    if a == EMPTY or b == EMPTY:
        return EMPTY
    if a == EPS:
        return b
    if b == EPS:
        return a
    return ("c", a, b)


def _alt(a, b):
    if a == EMPTY:
        return b
    if b == EMPTY:
        return a
    if a == b:
        return a
    return ("u", a, b)


def _nullable(r):
    if r == EMPTY:
        return False
    if r == EPS:
        return True
    return nullable(r)


def deriv(r, x):
    t = r[0]
    if t in ("0", "1"):
        return EMPTY
    if t == "a":
        return EPS if r[1] == x else EMPTY
    if t == "c":
        d = _cat(deriv(r[1], x), r[2])
        return _alt(d, deriv(r[2], x)) if _nullable(r[1]) else d
    if t == "u":
        return _alt(deriv(r[1], x), deriv(r[2], x))
    if t == "o":
        return deriv(r[1], x)
    if t == "s":
        return _cat(deriv(r[1], x), r)
    if t == "p":
        return _cat(deriv(r[1], x), ("s", r[1]))
    raise ValueError(t)


def in_lang(r, w):
    for x in w:
        r = deriv(r, x)
        if r == EMPTY:
            return False
    return _nullable(r)


def shortest_prefix(r, w):
    """least k >= 1 with w[:k] in L(r), or None"""
    for k, x in enumerate(w):
        r = deriv(r, x)
        if r == EMPTY:
            return None
        if _nullable(r):
            return k + 1
    return None


def longest_from(r, w, s):
    """greatest e > s with w[s:e] in L(r), or None"""
    best = None
    for k in range(s, len(w)):
        r = deriv(r, w[k])
        if r == EMPTY:
            break
        if _nullable(r):
            best = k + 1
    return best


# ---- patterns as Python OBJECTS ----------------------------------------------------------
# The property quantifies over syntax trees.  One tree can be written as many different Python
# values: over any alphabet of (hashable, pairwise different) items, with a one-item operand
# written bare (`Optional('def')`) or as a list (`Optional(['def'])`), and with structurally equal
# sub-trees being ONE operator object used at several places (within a pattern, or in several
# patterns of a session).  None of this may matter; the streams built on `build_expr` check that.

ALPHABETS = {
    # atom number 1..4 -> item (atoms 1..3 occur in patterns, 4 is the noise item of the sequences)
    "letters": ["a", "b", "c", "x"],
    "ints": [1, 2, 3, 4],
    # items that are themselves Python sequences of length 0, 1, 2, 3
    "words": ["def", "", "()", "name"],
    "pairs": [("Keyword", "def"), ("a",), (), ("Name", "f")],
    "values": [b"ab", frozenset((1, 2)), range(2), None],
    # items that are themselves CALLABLE: an atom is any value compared with ==, also a type, a function, a method
    # descriptor or an instance with __call__ (signatures [int, OneOrMore(str)], handler chains, ...)
    "types": [str, bool, int, float],
    "callables": [len, str.isdigit, None, repr],      # None is replaced below by a callable instance (needs the class)
    # DIFFERENT items that print alike: str() / repr() / hash() may collide, == decides
    "alike": [1, "1", "None", None],
    "floats": [0.0, "0.0", 1e300, float("inf")],
    "tokens": None,                                  # Tok('id', 'x') / Tok('kw', 'x'): same str and hash, unequal
    "twins": None,                                   # four unequal instances with ONE str, ONE repr and ONE hash
}


class Handler:
    """a callable instance used as an ITEM (it says yes to everything when called)"""

    def __init__(self, name):
        self.name = name

    def __call__(self, *args):
        return True

    def __eq__(self, other):        # by value: the engine deep-copies its predicates, and the items in them
        return isinstance(other, Handler) and self.name == other.name

    def __hash__(self):
        return hash(self.name)

    def __repr__(self):
        return "Handler(%r)" % self.name


class Tok:
    """a small hashable token: prints as its text, hashes by its text, equal when kind AND text are equal"""

    def __init__(self, kind, text):
        self.kind, self.text = kind, text

    def __eq__(self, other):
        return isinstance(other, Tok) and (self.kind, self.text) == (other.kind, other.text)

    def __hash__(self):
        return hash(self.text)

    def __str__(self):
        return self.text

    def __repr__(self):
        return "Tok(%r, %r)" % (self.kind, self.text)


class Twin:
    """instances that cannot be told apart by str / repr / hash, only by =="""

    def __init__(self, n):
        self.n = n

    def __eq__(self, other):
        return isinstance(other, Twin) and self.n == other.n

    def __hash__(self):
        return 7

    def __repr__(self):
        return "twin"


ALPHABETS["callables"][2] = Handler("h")
ALPHABETS["tokens"] = [Tok("id", "x"), Tok("kw", "x"), Tok("id", "y"), Tok("kw", "y")]
ALPHABETS["twins"] = [Twin(1), Twin(2), Twin(3), Twin(4)]
SPELLINGS = ("list", "bare")
SHARINGS = ("none", "pattern", "history")


# ---- wide MIXED alphabets: "mixed/<n>/<seed>/<pct>" ---------------------------------------------
# n pairwise disjoint atoms of which about pct % are user-defined Predicate OBJECTS (an interval of integers, the strings
# with a prefix, the tuples with a tag: each accepts MANY items) and the others plain values (strings, integers, tuples:
# the engine wraps them in Identity).  The property allows any pairwise-disjoint predicates; how the engine finds the
# applicable edge among many (scan, index, sort) must not matter.  The item the sequences use for atom k is one of the
# items atom k accepts (for a Predicate atom it differs with the seed), atom n+1.. is foreign to every atom.
# These names are understood by sym_of / leaf_of / unsym only: they are NOT members of ALPHABETS (the streams that draw
# from ALPHABETS keep their meaning).

_PRED_CLASSES = {}


def _pred_classes():
    if not _PRED_CLASSES:
        from codelimit.common.gsm.predicate.Predicate import Predicate

        class Span(Predicate):
            """the integers lo <= i < hi"""

            def __init__(self, lo, hi):
                self.lo, self.hi = lo, hi

            def accept(self, item):
                return type(item) is int and self.lo <= item < self.hi

            def __eq__(self, other):
                return isinstance(other, Span) and (self.lo, self.hi) == (other.lo, other.hi)

            def __hash__(self):
                return hash((self.lo, self.hi))

            def __repr__(self):
                return "Span(%d, %d)" % (self.lo, self.hi)

        class Prefixed(Predicate):
            """the strings that start with the prefix"""

            def __init__(self, prefix):
                self.prefix = prefix

            def accept(self, item):
                return isinstance(item, str) and item.startswith(self.prefix)

            def __eq__(self, other):
                return isinstance(other, Prefixed) and self.prefix == other.prefix

            def __hash__(self):
                return hash(self.prefix)

            def __repr__(self):
                return "Prefixed(%r)" % self.prefix

        class Tagged(Predicate):
            """the tuples whose first component is the tag"""

            def __init__(self, tag):
                self.tag = tag

            def accept(self, item):
                return isinstance(item, tuple) and len(item) > 0 and item[0] == self.tag

            def __eq__(self, other):
                return isinstance(other, Tagged) and self.tag == other.tag

            def __hash__(self):
                return hash(("Tagged", self.tag))

            def __repr__(self):
                return "Tagged(%r)" % (self.tag,)

        _PRED_CLASSES.update(Span=Span, Prefixed=Prefixed, Tagged=Tagged)
    return _PRED_CLASSES


def is_mixed(alphabet):
    return isinstance(alphabet, str) and alphabet.startswith("mixed/")


@functools.lru_cache(maxsize=64)
def _mixed_plan(alphabet):
    """-> {atom k: (kind, item of the sequences)}; kind in lit-str / lit-int / lit-tuple / span / prefixed / tagged"""
    import random
    _, n, seed, pct = alphabet.split("/")
    n, pct = int(n), int(pct)
    rnd = random.Random("mixed/%s" % seed)
    ks = list(range(1, n + 1))
    npred = 0 if pct == 0 else n if pct >= 100 else max(1, min(n - 1, round(n * pct / 100.0)))
    preds = set(rnd.sample(ks, npred))
    plan = {}
    for k in ks:
        if k in preds:
            kind = rnd.choice(("span", "prefixed", "tagged"))
            j = rnd.randrange(50)
            item = {"span": -100 * k - 50 + j, "prefixed": "p%d_%d" % (k, j), "tagged": ("t%d" % k, j)}[kind]
        else:
            kind = rnd.choice(("lit-str", "lit-str", "lit-int", "lit-tuple"))
            item = {"lit-str": "w%d" % k, "lit-int": k, "lit-tuple": ("v", k)}[kind]
        plan[k] = (kind, item)
    return plan


def mixed_leaf(alphabet):
    """atom number -> the value written in the PATTERN (a plain value or a Predicate object, a new one per use)"""
    plan = _mixed_plan(alphabet)

    def leaf(k):
        kind, item = plan[k]
        if kind == "span":
            return _pred_classes()["Span"](-100 * k - 50, -100 * k)
        if kind == "prefixed":
            return _pred_classes()["Prefixed"]("p%d_" % k)
        if kind == "tagged":
            return _pred_classes()["Tagged"]("t%d" % k)
        return item
    return leaf


def leaf_of(alphabet):
    return mixed_leaf(alphabet) if is_mixed(alphabet) else sym_of(alphabet)


def sym_of(alphabet):
    if is_mixed(alphabet):
        plan = _mixed_plan(alphabet)
        return lambda k: plan[k][1] if k in plan else ("item", k)
    items = ALPHABETS[alphabet]
    return lambda k: items[k - 1] if k <= len(items) else ("item", k)


def unsym(alphabet, item):
    """the atom number of an item of the alphabet (inverse of sym_of)"""
    if is_mixed(alphabet):
        for k, (kind, x) in _mixed_plan(alphabet).items():
            if type(x) is type(item) and x == item:
                return k
        if isinstance(item, tuple) and len(item) == 2 and item[0] == "item":
            return item[1]
        raise ValueError("not an item of alphabet %s: %r" % (alphabet, item))
    items = ALPHABETS[alphabet]
    for i, x in enumerate(items):
        if type(x) is type(item) and x == item:
            return i + 1
    if isinstance(item, tuple) and len(item) == 2 and item[0] == "item":
        return item[1]
    raise ValueError("not an item of alphabet %s: %r" % (alphabet, item))


def build_expr(r, alphabet="letters", spelling="list", cache=None, leaf=None):
    """the real expression (a Python list) for the tree r.
    cache: None = a new operator object per node; a dict = one operator object per distinct
    sub-tree (the dict may live longer than one pattern: objects shared between patterns).
    leaf: code -> the Python value of the leaf ("a", code) (default: the item of `alphabet`); this is how trees whose
    leaves are token predicates / parenthesis groups are built (gen/tokrx.py)."""
    from codelimit.common.gsm.operator.OneOrMore import OneOrMore
    from codelimit.common.gsm.operator.Optional import Optional
    from codelimit.common.gsm.operator.Union import Union
    from codelimit.common.gsm.operator.ZeroOrMore import ZeroOrMore
    sym = leaf or leaf_of(alphabet)
    bare = spelling == "bare"

    def seq(r):
        if r[0] == "c":
            return seq(r[1]) + seq(r[2])
        return [one(r)]

    def operand(r):
        if bare and r[0] != "c":
            return one(r)          # Optional('def'), Optional(Union(..)): a single item, not wrapped
        return seq(r)

    def one(r):
        if r[0] == "a":
            return sym(r[1])
        if cache is not None and r in cache:
            return cache[r]
        if r[0] == "u":
            e = Union(operand(r[1]), operand(r[2]))
        else:
            e = {"o": Optional, "s": ZeroOrMore, "p": OneOrMore}[r[0]](operand(r[1]))
        if cache is not None:
            cache[r] = e
        return e

    return seq(r)


def show_expr(r, alphabet="letters", spelling="list", leaf=None):
    """Python source of what build_expr makes (leaf: code -> source text of the leaf)"""
    sym = leaf_of(alphabet)
    bare = spelling == "bare"

    def items(r):
        if r[0] == "c":
            return items(r[1]) + items(r[2])
        return [one(r)]

    def operand(r):
        if bare and r[0] != "c":
            return one(r)
        return "[" + ", ".join(items(r)) + "]"

    def one(r):
        if r[0] == "a":
            return leaf(r[1]) if leaf else repr(sym(r[1]))
        name = {"u": "Union", "o": "Optional", "s": "ZeroOrMore", "p": "OneOrMore"}[r[0]]
        return "%s(%s)" % (name, ", ".join(operand(x) for x in r[1:]))

    return "[" + ", ".join(items(r)) + "]"


def subtrees(r, out=None):
    """the operator sub-trees of r (the keys a shared-object cache would use)"""
    out = set() if out is None else out
    if r[0] != "a":
        if r[0] != "c":
            out.add(r)
        for x in r[1:]:
            subtrees(x, out)
    return out


def random_dag(rnd, size, atoms=(1, 2, 3), reuse=0.45):
    """a random tree in which sub-trees repeat on purpose (so that a shared-object build has
    operator objects with several parents)"""
    pool = []

    def gen(size):
        if size <= 1:
            return ("a", rnd.choice(atoms))
        fit = [p for p in pool if node_count(p) <= size]
        if fit and rnd.random() < reuse:
            return rnd.choice(fit)
        if size == 2 or rnd.random() < 0.35:
            r = (rnd.choice(UN), gen(size - 1))
        else:
            k = rnd.randint(1, size - 2)
            r = (rnd.choice(BIN), gen(k), gen(size - 1 - k))
        if r[0] != "c":
            pool.append(r)
        return r

    return gen(size)


def node_count(r):
    return 1 if r[0] == "a" else 1 + sum(node_count(x) for x in r[1:])


def cat_all(rs):
    """the sequence of the trees rs as a BALANCED 'c' tree (depth log n)"""
    rs = list(rs)
    if len(rs) == 1:
        return rs[0]
    m = len(rs) // 2
    return ("c", cat_all(rs[:m]), cat_all(rs[m:]))


def nest(r, op, depth):
    for _ in range(depth):
        r = (op, r)
    return r


# ---- second, independent reference: position automaton (Glushkov), linear in the word ------
# used for the long rungs of the size ladders, where derivatives may grow

def glushkov(r):
    """-> (nullable, first, last, follow, symbol-of-position)"""
    pos = []

    def go(r):
        t = r[0]
        if t == "a":
            pos.append(r[1])
            p = len(pos) - 1
            return False, {p}, {p}
        if t == "c":
            n1, f1, l1 = go(r[1])
            n2, f2, l2 = go(r[2])
            for p in l1:
                follow.setdefault(p, set()).update(f2)
            return n1 and n2, f1 | (f2 if n1 else set()), l2 | (l1 if n2 else set())
        if t == "u":
            n1, f1, l1 = go(r[1])
            n2, f2, l2 = go(r[2])
            return n1 or n2, f1 | f2, l1 | l2
        n1, f1, l1 = go(r[1])
        if t in ("s", "p"):
            for p in l1:
                follow.setdefault(p, set()).update(f1)
        return (n1 if t == "p" else True), f1, l1

    follow = {}
    n, f, l = go(r)
    return n, f, l, follow, pos


class PosRef:
    def __init__(self, r):
        self.null, self.first, self.last, self.follow, self.pos = glushkov(r)

    def run(self, w, s=0):
        """yields after each consumed item k (from s): (k + 1, alive?, accepting?)"""
        cur = None
        for k in range(s, len(w)):
            cand = self.first if cur is None else set().union(*[self.follow.get(p, ()) for p in cur]) if cur else set()
            cur = {p for p in cand if self.pos[p] == w[k]}
            yield k + 1, bool(cur), bool(cur & self.last)
            if not cur:
                return

    def in_lang(self, w):
        if not w:
            return self.null
        last = (0, False, False)
        for last in self.run(w):
            pass
        return last[0] == len(w) and last[2]

    def shortest_prefix(self, w):
        for k, alive, acc in self.run(w):
            if acc:
                return k
        return None

    def longest_from(self, w, s):
        best = None
        for k, alive, acc in self.run(w, s):
            if acc:
                best = k
        return best

    def greedy_finish(self, w, p):
        k_end, ok = p, False
        for k, alive, acc in self.run(w, p):
            if not alive:
                break
            k_end, ok = k, acc
        return k_end, ok


# ---- pattern families whose determinisation is exponential ------------------------------------
# "the k+1-th item from the end is x": the subset construction needs about 2^(k+1) states from a tree of about 4k nodes,
# while the position automaton (PosRef, the reference) has 3k positions and runs in time linear in the word.

BLOWUP_FAMILIES = ("star", "plus", "tail")


def blowup(family, k):
    """star: (a|b)* a (a|b)^k      plus: (b|c)+ c (b|c)^k      tail: (a|b)* a (a|b)^k c?      -> (tree, letters, marker)"""
    if family == "plus":
        x, y, rep = 3, 2, "p"
    else:
        x, y, rep = 1, 2, "s"
    any_ = ("u", ("a", x), ("a", y))
    items = [(rep, any_), ("a", x)] + [any_] * k
    if family == "tail":
        items.append(("o", ("a", 3)))
    r = items[0]
    for it in items[1:]:        # left-nested, as a Python list is
        r = ("c", r, it)
    return r, (x, y), x


def blowup_words(rnd, family, k, n):
    """sequences around the boundary of the language: for random w over the two letters also w cut at the shortest
    matching prefix (the prefix IS the whole sequence), one item before it, and one foreign item after it"""
    r, (x, y), marker = blowup(family, k)
    P = PosRef(r)
    lead = [y] if family == "plus" else []
    out = [lead + [marker] + [y] * k, lead + [marker] * (k + 1), lead + [y] * (k + 1)]
    for _ in range(n):
        w = lead + [rnd.choice((x, y)) for _ in range(rnd.randint(k + 1, 2 * k + 3))]
        if rnd.random() < 0.5:
            w[len(lead)] = marker
        out.append(w)
        sp = P.shortest_prefix(w)
        if sp is not None:
            out.append(w[:sp])
            if sp > 1:
                out.append(w[:sp - 1])
            out.append(w[:sp] + [4])
    seen, uniq = set(), []
    for w in out:
        if tuple(w) not in seen:
            seen.add(tuple(w))
            uniq.append(w)
    return r, uniq


# ---- wide patterns over wide alphabets ----------------------------------------------------------

def union_all(rs, balanced=True):
    rs = list(rs)
    if len(rs) == 1:
        return rs[0]
    if balanced:
        m = len(rs) // 2
        return ("u", union_all(rs[:m], True), union_all(rs[m:], True))
    r = rs[0]
    for x in rs[1:]:
        r = ("u", r, x)
    return r


def wide_rx(rnd, n, m, flat=False):
    """a small random tree whose leaves are atoms of 1..n, some of them replaced by a union of m different atoms of 1..n
    (left-nested up to 64 wide, balanced beyond: the engine's construction recurses over the nesting); flat: no repetition
    operator (the engine's subset construction takes seconds for a repetition of a union of 100 atoms)"""
    shape = random_rx(rnd, rnd.randint(1, 5))
    while flat and any(t[0] in ("s", "p") for t in subtrees(shape)):
        shape = random_rx(rnd, rnd.randint(1, 3))
    wide = [0]

    def go(r):
        if r[0] == "a":
            if rnd.random() < 0.6 or not wide[0]:
                wide[0] += 1
                ks = rnd.sample(range(1, n + 1), min(n, rnd.choice((m, m, max(2, m // 2)))))
                return union_all([("a", k) for k in ks], balanced=len(ks) > 64 or rnd.random() < 0.5)
            return ("a", rnd.randint(1, n))
        return (r[0],) + tuple(go(x) for x in r[1:])
    return go(shape)


def walk_word(rnd, P, n, foreign, noise=0.0):
    """a sequence of at most n items that stays inside the language of the position automaton P as long as it can"""
    w = []
    cur = None
    while len(w) < n:
        cand = P.first if cur is None else set().union(*[P.follow.get(p, ()) for p in cur])
        syms = sorted({P.pos[p] for p in cand})
        if not syms:
            break
        x = foreign if noise and rnd.random() < noise else rnd.choice(syms)
        w.append(x)
        cur = {p for p in cand if P.pos[p] == x}
        if not cur:
            break
    return w
