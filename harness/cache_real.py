"""Shared helper of the checks C09 and C10: drives the REAL `codelimit.commands.scan.scan_command`
on temporary directories through histories of operations, records which files were analysed
(`Scanner._analyze_file` is wrapped from outside), abstracts what is on disk to the vocabulary of
the Lean model `Model/Cache.lean` (paths, contents, checksums and entries as small numbers) and
evaluates the direct oracles of the properties on the real outputs.

A history is {"init": [[pathId, contentId]...], "excl": k, "ops": [op...]}; an op is a JSON list:
  ["w",p,c] write   ["d",p] delete   ["r",a,b] rename   ["t",p] touch   ["x",a,b] swap contents
  ["e",k] exclusions := EXCL[k]      ["s"] scan
  ["cm"] remove the cache file       ["cj",0,variant] junk bytes   ["cj",1] ill-typed document
  ["ca",v,p,hm,de] current cache with version VERS[v], the entry of path p altered (loc and first
        measurement + de; checksum := md5(content hm-1) if hm>0)
  ["cr",p] current cache without the entry of p   ["fmt"] same document re-serialised differently
  ["dup",p,last] the entry of p twice under one key, an altered copy first (last=0) or last (last=1)
  ["co",i] restore the cache file
        written by the i-th scan     ["k",1] cut trailing whitespace   ["k",0,r] cut at r mod (len-1)
  ["D"] remove the cache directory   ["M"] remove the marker files
  faults whose abstract effect is computed by the abstraction function `abstract_cache`:
  ["trunc",n] keep n bytes  ["bytes",text] put latin-1 text there  ["jdel",path] remove a key
  ["jset",path,value] replace a value in the cache document   ["jraw",path,text] the same with a value given
        as JSON text (1e400, NaN, Infinity, -0: literals json.dumps does not write)
  operations that are other ways of doing a modelled operation (same model words):
  ["wb",p,c,k] write with the modification time set back 10^k seconds (cp -p, tar x, rsync -t) = w
  ["ln",p,c] the path becomes a symbolic link to an OLD file with content c (re-pointing a link) = w
  ["R",a,b] directory DIRS[a] is renamed over DIRS[b] (rm -r b; mv a b) = d for every file of b, r for
        every file of a (the files keep inode, mtime and ctime)
  operations the model does not see (no words): ["cfg",k] Configuration as the CLI sets it, bit 0
        verbose (-v), bit 1 repository (configure_github_repository)   ["ent",k] the observation point of the following scans (0
        scan_command in this process, 1 the CLI entry function `codelimit.__main__.scan` in a forked child, 2
        `python -m codelimit scan` in a fresh interpreter; a history may carry "entry": k)   ["xf",name,kind] an extra file
        (lock / temp / backup name) in the cache directory   ["cold",k,sign] every file of the cache
        directory gets an mtime 10^k seconds in the past (sign 0) / future (sign 1)
  ["cmv"] the cache directory is renamed away (= D; the renamed directory stays in the tree)
  ["ks",mode,n] a scan in a forked child process that is stopped hard: mode 0 RLIMIT_FSIZE = n with
        SIGXFSZ at its default action (the kernel kills the process when a file it writes reaches n
        bytes), mode 1 the same limit with SIGXFSZ ignored (the write fails with EFBIG = disk full),
        mode 2 SIGKILL immediately before its n-th modification of the file system.  What it leaves on
        disk is abstracted like any other fault (a replaceCache of what `abstract_cache` sees).  An
        interrupted FIRST scan that got as far as both marker files is, for the model, a scan (its
        observation is a placeholder that is not compared) followed by that fault; a state of the
        cache directory the model has no word for (one marker file only) makes the rest of the
        history oracle-only (`oracle_only`, counted in the evidence).  A child that is not stopped
        counts as an ordinary scan.  The scan that was stopped is not judged, the later ones are.
  A history may carry "cfg": k, the configuration it starts in, and "entry": k, the observation point (see "ent").

After every scan the direct oracles are evaluated (`judge_scan`): the scan completes; the report equals the
from-scratch scan of a copy of the tree; the document left behind equals, FIELD BY FIELD, the document that
from-scratch scan writes (`full_shape` / `shape_diff`: same keys at every level, same JSON types, same values,
identifier and time stamp of the writer's shape); the cache is usable; files are reused only when the cache on
disk, parsed independently, has the current version and an entry for that path with the md5 of the current bytes.
Whether a history is outside the property because a forged current-version document was put in place is decided
when a scan is about to read the cache file, not when the fault is made (two faults in a row).

A second kind of history ({"named": 1, ...}, class NamedWorld below) works on trees with ARBITRARY file names and is
judged by these oracles alone, without the model.
"""
import contextlib
import hashlib
import io
import json
import os
import resource
import shutil
import signal
import tempfile
import time

import common  # noqa: F401  (puts VERIF_REPO or /repo first on sys.path)

PATHS = ["a.py", "pkg/b.py", "pkg/c.js", "d.c", "notes.txt", "alt/b.py", "alt/c.js"]
UNSUPPORTED = [4]
DIRS = ["pkg", "alt"]
DIR_FILES = [[1, 2], [5, 6]]          # same base names in the same order
# contents: 0-3 plain, 4-5 several functions with the SAME name starting on one line, 6-9 a size
# ladder (10^3 .. 10^6 bytes; the plain ones are ~10^2), functions in the middle of the filler
NCONTENT = 10
PLAIN = [0, 1, 2, 3]
DENSE = [4, 5]
SIZED = {6: 10 ** 3, 7: 10 ** 4, 8: 10 ** 5, 9: 10 ** 6}
EXCL = [[], ["a.py"], ["pkg"], ["*.js"], ["*.js", "!alt/c.js"]]
EXCL_IDS = [[], [0], [1, 2], [2, 6], [2]]
CFGS = 4                              # bit 0 verbose, bit 1 repository
ALIEN_H = 900
ALIEN_E = 100000
JUNK = [b"", b"   \n", b"not json", b"{", b"[]", b"{}", b"null", b"5", b'"s"', b"[1]", b"true",
        b"\xff\xfe\x00", b'{"version": "0.18.1"}', b'{"version": "0.18.1", "uuid": "u", "root": "/", "codebase": {}}',
        b'{"version": "0.18.1", "uuid": "u", "root": "/", "codebase": {"files": []}}']
# names a crashed or concurrent run (of this or another tool) could leave in the cache directory:
# every stem x every suffix; what killed scans really leave behind is added by C10 (`leftovers`)
EXTRA_STEMS = ["codelimit", "codelimit.json", ".codelimit", "cache", ""]
EXTRA_SUFFIXES = [".lock", ".tmp", ".new", ".bak", ".part", ".pid", "~", ".swp", ".old", ".1"]
EXTRA_NAMES = [a + b for a in EXTRA_STEMS for b in EXTRA_SUFFIXES if a + b not in ("~",)]

_CONTENT = {}


def _plain(k):
    py = "def f%d():\n" % k + "".join("    x%d = %d\n" % (i, i) for i in range(k + 1))
    js = "function g%d() {\n" % k + "".join("  x%d = %d;\n" % (i, i) for i in range(k + 2)) + "}\n"
    c = "int h%d(int a) {\n" % k + "".join("  a = %d;\n" % i for i in range(k + 3)) + "  return a;\n}\n"
    return py + "\n" + js + "\n" + c


def _dense(k):
    """k-2 functions of one name on one line (overloads / a minified bundle), a different name on the
    same line, the same name again on another line"""
    n = k - 2
    py = "def f%d():\n" % k + "".join("    x%d = %d\n" % (i, i) for i in range(k + 1))
    js = " ".join("function g(a) { return a + %d; }" % i for i in range(n)) + " function q(a) { return a; }\n"
    js += "function g(a) {\n" + "".join("  a = %d;\n" % i for i in range(k)) + "  return a;\n}\n"
    c = " ".join("int h(int a) { return a + %d; }" % i for i in range(n)) + " int r(int a) { return a; }\n"
    c += "int h(long a) {\n" + "".join("  a = %d;\n" % i for i in range(k)) + "  return a;\n}\n"
    return py + "\n" + js + "\n" + c


def _filler(n):
    line = "// " + "x" * 996 + "\n"
    m = n % 1000
    return line * (n // 1000) + ("// " + "y" * (m - 4) + "\n" if m >= 4 else "\n" * m)


def content(k):
    if k not in _CONTENT:
        if k == 3:
            # the same text as content 2 behind two blank lines: every function sits two lines lower, so
            # a checksum that ignores surrounding whitespace (seeded change C09-4) reuses stale locations
            b = b"\n\n" + content(2)
        elif k in DENSE:
            b = _dense(k).encode()
        elif k in SIZED:
            # functions in the middle of filler lines (<= 1000 bytes each) that every lexer used here
            # reads as one or three tokens; the size is exact
            rest = max(0, SIZED[k] - len(_plain(k)))
            b = (_filler(rest // 2) + _plain(k) + _filler(rest - rest // 2)).encode()
        else:
            b = _plain(k).encode()
        _CONTENT[k] = b
    return _CONTENT[k]


def md5(b):
    return hashlib.md5(b).hexdigest()


MD5 = [md5(content(k)) for k in range(NCONTENT)]


def pair(p, c):
    return (p + c) * (p + c + 1) // 2 + c


UNPAIR = {pair(p, c): (p, c) for p in range(len(PATHS)) for c in range(NCONTENT)}

# ------------------------------------------------------------------ the real program

_cl = {}


def cl():
    """lazy imports of the program under test"""
    if not _cl:
        from pathlib import Path
        import typer
        from codelimit.commands import scan as scanmod
        from codelimit.commands.report import report_command
        from codelimit.commands.findings import findings_command
        from codelimit.common import Scanner
        from codelimit.common.Configuration import Configuration
        from codelimit.common.report.ReportFormat import ReportFormat
        from codelimit.common.report.Report import Report
        from codelimit.common.GithubRepository import GithubRepository
        _cl.update(GithubRepository=GithubRepository,Path=Path, typer=typer, scanmod=scanmod, report_command=report_command,
                   findings_command=findings_command, Scanner=Scanner, Configuration=Configuration,
                   ReportFormat=ReportFormat, CUR=Report.VERSION)
        import logging
        logging.getLogger().addHandler(logging.NullHandler())   # logging.info must not call basicConfig
        orig = Scanner._analyze_file

        def recording(path, rel_path, checksum, lexer):
            LOG.append(str(rel_path))
            return orig(path, rel_path, checksum, lexer)
        Scanner._analyze_file = recording
    return _cl


LOG = []


@contextlib.contextmanager
def quiet():
    """rich rendering is most of the cost of a scan and not part of these properties"""
    import rich.console
    import rich.live
    C, L = rich.console.Console, rich.live.Live
    saved = (C.print, L.refresh, L.start, L.stop)
    C.print = lambda self, *a, **k: None
    L.refresh = lambda self: None
    L.start = lambda self, refresh=False: None
    L.stop = lambda self: None
    try:
        with contextlib.redirect_stdout(io.StringIO()):
            yield
    finally:
        C.print, L.refresh, L.start, L.stop = saved


ENTRIES = 3     # 0 scan_command in this process, 1 the CLI entry function in a forked child, 2 `codelimit scan` in a fresh process


def _patterns(excl):
    return list(EXCL[excl]) if isinstance(excl, int) else list(excl)


SPELLINGS = 7
SPELLING_NAMES = ["absolute", "absolute through a symbolic link", "absolute with `..`", "`.` with cwd = the root",
                  "relative name with cwd = the parent", "`../name` with cwd = the root",
                  "relative through a symbolic link with cwd = the parent"]


def spell_root(root, k):
    """the root of a scan as a user may name it -> (argument, working directory or None): 0 the absolute,
    symlink-free path; 1 an absolute path through a symbolic link (a sibling `<root>.lnk`, made on demand); 2 an
    absolute path with a `..` component; 3 `.` with the root as working directory (plain `codelimit scan`);
    4 the relative name from the parent directory; 5 `../name` from inside the root; 6 a relative path through the
    symbolic link from the parent directory"""
    k %= SPELLINGS
    root = root.rstrip("/")
    parent, name = os.path.dirname(root), os.path.basename(root)
    if k in (1, 6):
        link = root + ".lnk"
        if not os.path.islink(link):
            os.symlink(name, link)
    if k == 0:
        return root, None
    if k == 1:
        return root + ".lnk", None
    if k == 2:
        return os.path.join(root, "..", name), None
    if k == 3:
        return ".", root
    if k == 4:
        return name, parent
    if k == 5:
        return os.path.join("..", name), root
    return name + ".lnk", parent


def unspell_root(root):
    with contextlib.suppress(OSError):
        os.unlink(root.rstrip("/") + ".lnk")


@contextlib.contextmanager
def working_directory(cwd):
    if cwd is None:
        yield
        return
    old = os.getcwd()
    os.chdir(cwd)
    try:
        yield
    finally:
        os.chdir(old)


def real_scan(root, excl_k, cfg=0, entry=0, spelling=0):
    """-> (exception text or None, analysed relative paths); spelling: how the root is named (`spell_root`); cfg: Configuration as `codelimit scan`
    sets it up: bit 0 = -v / `verbose: true` (Configuration.verbose and the root logger at INFO, as
    setup_logging does), bit 1 = a GitHub checkout (Configuration.repository).  excl_k: an index into
    EXCL or a list of patterns.  entry: the observation point - 0 `scan_command(root)` in this process,
    1 the function typer calls for `codelimit scan` (`codelimit.__main__.scan(path, exclude, verbose)`:
    Configuration.load, setup_logging, configure_github_repository, whatever else the command line layer
    does, then scan_command) in a forked child, 2 the typer object itself in a fresh interpreter
    (`python -m codelimit scan [-v] root`, exclusions in <root>/.codelimit.yml; see cache_cli_worker.py).  The repository of
    entries 1 and 2 is what the command finds out itself (none: the trees are no git checkouts)."""
    arg, cwd = spell_root(root, spelling)
    if entry == 1:
        return cli_scan_fork(arg, _patterns(excl_k), bool(cfg & 1), cwd)
    if entry == 2:
        return cli_scan_process(arg, _patterns(excl_k), bool(cfg & 1), cwd, root)
    import logging
    m = cl()
    C = m["Configuration"]
    C.exclude = _patterns(excl_k)
    C.verbose = bool(cfg & 1)
    C.repository = m["GithubRepository"]("owner", "name", "main") if cfg & 2 else None
    root_logger = logging.getLogger()
    level = root_logger.level
    if cfg & 1:
        root_logger.setLevel(logging.INFO)
    del LOG[:]
    err = None
    try:
        with quiet(), working_directory(cwd):
            m["scanmod"].scan_command(m["Path"](arg))
    except BaseException as e:  # noqa: BLE001 - typer.Exit, SystemExit included: a scan must complete
        if isinstance(e, KeyboardInterrupt):
            raise
        err = "%s: %s" % (type(e).__name__, str(e)[:200])
    finally:
        C.exclude = []
        C.verbose = False
        C.repository = None
        root_logger.setLevel(level)
    return err, list(LOG)


def _in_child(fn):
    """fn() in a forked child -> its (JSON) result, or None when the child died without an answer"""
    r, w = os.pipe()
    pid = os.fork()
    if pid == 0:
        code = 0
        try:
            os.close(r)
            os.write(w, json.dumps(fn()).encode())
        except BaseException:  # noqa: BLE001
            code = 3
        finally:
            os._exit(code)
    os.close(w)
    data = b""
    while True:
        chunk = os.read(r, 65536)
        if not chunk:
            break
        data += chunk
    os.close(r)
    os.waitpid(pid, 0)
    return json.loads(data.decode()) if data else None


def _exit_text(e):
    """None for an orderly exit with status 0, a text otherwise"""
    code = getattr(e, "exit_code", getattr(e, "code", None))
    if isinstance(e, SystemExit) or hasattr(e, "exit_code"):
        return None if code in (0, None) else "exit status %s" % (code,)
    return "%s: %s" % (type(e).__name__, str(e)[:200])


def cli_scan_fork(root, patterns, verbose, cwd=None):
    """entry 1: `codelimit.__main__.scan` - the function behind `codelimit scan` - in a forked child (the
    command line layer changes Configuration, logging handlers, ... of its process)"""
    m = cl()

    def child():
        import codelimit.__main__ as em
        C = m["Configuration"]
        C.exclude, C.verbose, C.repository = [], False, None
        for v in ("GITHUB_REF", "GITHUB_HEAD_REF"):
            os.environ.pop(v, None)
        del LOG[:]
        err = None
        try:
            if cwd is not None:
                os.chdir(cwd)
            with quiet():
                em.scan(m["Path"](root), list(patterns) or None, verbose)
        except BaseException as e:  # noqa: BLE001
            err = _exit_text(e)
        return [err, list(LOG)]
    out = _in_child(child)
    if out is None:
        return "the process of the scan died", []
    return out[0], out[1]


def cli_scan_process(root, patterns, verbose, cwd=None, real_root=None):
    """entry 2: a fresh interpreter runs the module `codelimit` as a program (cache_cli_worker.py)"""
    import subprocess
    import sys
    # exclusions go through <root>/.codelimit.yml, which only the command line layer reads (with the typer / click
    # of this sandbox every `--exclude` ends in a TypeError of typer's usage formatter); removed after the scan
    args = ["scan"] + (["-v"] if verbose else []) + [root]
    yml = os.path.join(real_root or root, ".codelimit.yml")
    if patterns:
        with open(yml, "w") as f:
            f.write("exclude: %s\n" % json.dumps(list(patterns)))
    fd, res = tempfile.mkstemp(prefix="clcli_", suffix=".json")
    os.close(fd)
    env = dict(os.environ, VERIF_REPO=common.REPO, CACHE_CLI_RESULT=res, COLUMNS="200")
    for v in ("GITHUB_REF", "GITHUB_HEAD_REF"):
        env.pop(v, None)
    worker = os.path.join(os.path.dirname(os.path.abspath(__file__)), "cache_cli_worker.py")
    try:
        p = subprocess.run([sys.executable, worker] + args, env=env, stdout=subprocess.DEVNULL, stderr=subprocess.PIPE,
                           cwd=cwd or tempfile.gettempdir(), timeout=300)
        try:
            out = json.load(open(res))
        except (OSError, ValueError):
            out = None
    except subprocess.TimeoutExpired:
        return "the process of the scan did not finish within 300 s", []
    finally:
        with contextlib.suppress(OSError):
            os.unlink(res)
        if patterns:
            with contextlib.suppress(OSError):
                os.unlink(yml)
    if out is None:
        return "the process of the scan ended with status %s: %s" % (p.returncode, p.stderr.decode("utf-8", "replace")[-200:]), []
    return out["error"], out["analysed"]


_MUTATING = ("os.mkdir", "os.remove", "os.rename", "os.rmdir", "os.truncate", "os.link", "os.symlink",
             "os.chmod", "os.utime", "os.chown", "shutil.move", "shutil.rmtree", "shutil.copyfile",
             "tempfile.mkstemp", "tempfile.mkdtemp")


def _mutation_hook(root, n, counter):
    """audit hook: SIGKILL to the own process immediately before the n-th event that modifies the file
    system below root (open for writing, mkdir, remove, rename, ...); counter[0] counts them"""
    wr = os.O_WRONLY | os.O_RDWR | os.O_CREAT | os.O_TRUNC | os.O_APPEND

    def hook(event, args):
        if event == "open":
            path, mode, flags = (list(args) + [None, None, None])[:3]
            if not ((isinstance(mode, str) and any(ch in mode for ch in "wax+")) or (isinstance(flags, int) and flags & wr)):
                return
        elif event not in _MUTATING:
            return
        else:
            path = args[0] if args else None
        try:
            where = os.fspath(path)
            if isinstance(where, bytes):
                where = where.decode("utf-8", "replace")
        except TypeError:
            return
        if not os.path.abspath(where).startswith(root):
            return
        if counter[0] == n:
            os.kill(os.getpid(), signal.SIGKILL)
        counter[0] += 1
    return hook


def interrupted_scan(root, excl_k, cfg, mode, n, spelling=0):
    """a scan in a forked child that is stopped hard (see the module text, op "ks")
    -> (status, exception text, analysed paths, mutations counted), status 'killed' | 'completed' | 'raised'"""
    import sys
    cl()
    r, w = os.pipe()
    pid = os.fork()
    if pid == 0:
        code = 0
        try:
            os.close(r)
            counter = [0]
            if mode in (0, 1):
                signal.signal(signal.SIGXFSZ, signal.SIG_DFL if mode == 0 else signal.SIG_IGN)
                resource.setrlimit(resource.RLIMIT_FSIZE, (n, n))
            else:
                sys.addaudithook(_mutation_hook(os.path.abspath(root), n, counter))
            err, log = real_scan(root, excl_k, cfg, 0, spelling)
            os.write(w, json.dumps([err, log, counter[0]]).encode())
        except BaseException:  # noqa: BLE001
            code = 3
        finally:
            os._exit(code)
    os.close(w)
    data = b""
    while True:
        chunk = os.read(r, 65536)
        if not chunk:
            break
        data += chunk
    os.close(r)
    _, status = os.waitpid(pid, 0)
    if os.WIFSIGNALED(status) or not data:
        return ("killed", None, [], None)
    err, log, count = json.loads(data.decode())
    return ("raised" if err else "completed", err, log, count)


def cache_paths(root):
    d = os.path.join(root, ".codelimit_cache")
    return d, os.path.join(d, "codelimit.json")


def canon(doc):
    """a report document up to uuid / timestamp / root, with dict-order artefacts removed"""
    cb = doc["codebase"]
    return {"version": doc.get("version"), "repository": doc.get("repository"),
            "totals": cb["totals"],
            "tree": {k: {"entries": sorted(v["entries"]), "profile": v["profile"]} for k, v in cb["tree"].items()},
            "files": cb["files"]}


def entry_data(e):
    if e is None:
        return None
    return json.dumps([e["language"], e["loc"], e["measurements"]], sort_keys=True)


_FRESH = {}
_SHAPE = {}
_PRE = {}

# what a report document is allowed to differ in from the document a from-scratch scan of a copy of the tree
# writes: identifier and time stamp (the property's own words) and the root (the copy lives elsewhere)
MASKED = ("uuid", "timestamp")


def jtype(v):
    if v is None:
        return "null"
    if isinstance(v, bool):
        return "bool"
    if isinstance(v, (int, float)):
        return "number"
    if isinstance(v, str):
        return "string"
    return "array" if isinstance(v, list) else "object"


def skeleton(v):
    """the shape of a masked value: its JSON type and, for a string, its characters with every digit and lower
    case hexadecimal letter replaced by 'h' (upper case: 'H'); two identifiers / time stamps the writer produces
    have the same skeleton"""
    if not isinstance(v, str):
        return {"json type": jtype(v)}
    return "shape:" + "".join("h" if ch in "0123456789abcdef" else "H" if ch in "ABCDEF" else ch for ch in v)


def full_shape(doc):
    """a whole report document for the field-by-field comparison: everything as it is, except the masked values
    (their skeleton), the root (its JSON type) and the order of the entries of a folder"""
    if not isinstance(doc, dict):
        return doc
    d = json.loads(json.dumps(doc))
    for k in MASKED:
        if k in d:
            d[k] = skeleton(d[k])
    if "root" in d:
        d["root"] = {"json type": jtype(d["root"])}
    try:
        for v in d["codebase"]["tree"].values():
            if all(isinstance(x, str) for x in v["entries"]):
                v["entries"] = sorted(v["entries"])
    except (KeyError, TypeError, AttributeError):
        pass
    return d


def shape_diff(a, b, path="", out=None):
    """where two JSON values differ (keys, JSON types, values; true is not 1, 1 is not 1.0) -> list of texts"""
    out = [] if out is None else out
    if len(out) >= 8:
        return out
    if isinstance(a, dict) and isinstance(b, dict):
        for k in a:
            if k not in b:
                out.append("%s/%s: not in a from-scratch cache" % (path, k))
        for k in b:
            if k not in a:
                out.append("%s/%s: missing" % (path, k))
        for k in a:
            if k in b:
                shape_diff(a[k], b[k], "%s/%s" % (path, k), out)
    elif isinstance(a, list) and isinstance(b, list):
        if len(a) != len(b):
            out.append("%s: %d elements, from scratch %d" % (path, len(a), len(b)))
        else:
            for i, (x, y) in enumerate(zip(a, b)):
                shape_diff(x, y, "%s/%d" % (path, i), out)
    elif type(a) is not type(b) or a != b:
        out.append("%s: %s, from scratch %s" % (path, json.dumps(a)[:80], json.dumps(b)[:80]))
    return out


def fresh_report(files, excl_k, cfg=0):
    """the oracle: a from-scratch scan of a copy of the tree made of regular files (memoised per tree,
    exclusions and repository setting; verbose is not supposed to change a report and is left off)"""
    cfg &= 2
    key = (tuple(sorted(files.items())), excl_k, cfg)
    if key not in _FRESH:
        d = tempfile.mkdtemp(prefix="clfresh_")
        try:
            for p, c in files.items():
                fp = os.path.join(d, PATHS[p])
                os.makedirs(os.path.dirname(fp), exist_ok=True)
                with open(fp, "wb") as f:
                    f.write(content(c))
            err, _ = real_scan(d, excl_k, cfg)
            if err:
                _FRESH[key] = {"error": err}
            else:
                doc = json.load(open(cache_paths(d)[1]))
                _FRESH[key] = canon(doc)
                _SHAPE[key] = full_shape(doc)
        finally:
            shutil.rmtree(d, ignore_errors=True)
    return _FRESH[key]


def fresh_shape(files, excl_k, cfg=0):
    """the complete document of that from-scratch scan, masked (`full_shape`); None if it failed"""
    fresh_report(files, excl_k, cfg)
    return _SHAPE.get((tuple(sorted(files.items())), excl_k, cfg & 2))


# old files with every content, outside every scanned tree: targets of symbolic links. Created once
# (before the pool forks), so their ctime is older than every cache file written later.
_STORE = {}


def store_path(c):
    if not _STORE:
        import atexit
        d = tempfile.mkdtemp(prefix="clstore_")
        for k in range(NCONTENT):
            with open(os.path.join(d, "content%d" % k), "wb") as f:
                f.write(content(k))
            old = time.time() - 10 ** 6 - k
            os.utime(os.path.join(d, "content%d" % k), (old, old))
        _STORE.update(dir=d, pid=os.getpid())
        atexit.register(lambda: os.getpid() == _STORE.get("pid") and shutil.rmtree(d, ignore_errors=True))
    return os.path.join(_STORE["dir"], "content%d" % c)


def pre():
    """real entry data for every (path, content) pair, from fresh scans"""
    if not _PRE:
        store_path(0)
        for c in range(NCONTENT):
            rep = fresh_report({p: c for p in range(len(PATHS))}, 0)
            for p, name in enumerate(PATHS):
                if name in rep["files"]:
                    _PRE[(p, c)] = entry_data(rep["files"][name])
        per_path = {}
        inv = {}
        for (p, c), d in _PRE.items():
            per_path.setdefault(p, set()).add(d)
            inv.setdefault(d, []).append((p, c))
        _PRE["distinct"] = all(len(s) == NCONTENT for s in per_path.values())
        _PRE["inv"] = inv
    return _PRE


# ------------------------------------------------------------------ abstraction of the cache file

class Aliens:
    """numbers for checksums / entries that are not the analysis of any (path, content)"""

    def __init__(self):
        self.h, self.e = [], []

    def hid(self, checksum):
        if checksum in MD5:
            return MD5.index(checksum)
        if checksum not in self.h:
            self.h.append(checksum)
        return ALIEN_H + self.h.index(checksum)

    def eid(self, pid, e):
        """pair(p, c) when the entry is the real analysis of (p, c) (own path first); pair + 1000 j when
        it is such an analysis altered by ["ca", .., de = 1000 j]; a fresh number otherwise"""
        inv = pre()["inv"]
        for j in range(0, 4):
            data = entry_data(unshift(e, 1000 * j))
            if data is None:
                break
            hits = inv.get(data)
            if hits:
                own = [k for k in hits if k[0] == pid]
                return pair(*(own[0] if own else hits[0])) + 1000 * j
        data = entry_data(e)
        if data not in self.e:
            self.e.append(data)
        return ALIEN_E + self.e.index(data)


def shift(e, de):
    """the alteration of ["ca", ...]: loc and the first measurement grow by de"""
    e = json.loads(json.dumps(e))
    e["loc"] += de
    if e["measurements"]:
        e["measurements"][0]["value"] += de
    return e


def unshift(e, de):
    if de == 0:
        return e
    if e["loc"] < de or (e["measurements"] and e["measurements"][0]["value"] < de):
        return None
    return shift(e, -de)


def _isint(x):
    return isinstance(x, int) and not isinstance(x, bool)


class PairsDict(dict):
    """a JSON object that remembers repeated keys (json.loads keeps the last value)"""

    def __init__(self, pairs):
        super().__init__(pairs)
        self.pairs = pairs


def _entry_ok(e):
    try:
        if not isinstance(e, dict):
            return False
        if not (isinstance(e["checksum"], str) and isinstance(e["language"], str) and _isint(e["loc"])
                and isinstance(e["measurements"], list)):
            return False
        for m in e["measurements"]:
            if not (isinstance(m, dict) and isinstance(m["unit_name"], str) and _isint(m["value"])
                    and isinstance(m["start"], dict) and isinstance(m["end"], dict)
                    and _isint(m["start"]["line"]) and _isint(m["start"]["column"])
                    and _isint(m["end"]["line"]) and _isint(m["end"]["column"])):
                return False
    except (KeyError, TypeError):
        return False
    return True


def abstract_cache(data, aliens, cur):
    """What a cache file IS for a scan, written from the documented format of a report and
    independently of ReportReader: ("m",) missing | ("j",) not a usable document |
    ("d", v, rows) a document with version class v (1 current, 0 absent/null, 2 other) and rows
    (pathId, checksumId, entryId) in document order (a repeated key gives several rows; the last
    one is the one a JSON reader keeps; a shadowed value that is not an entry is not a row)."""
    if data is None:
        return ("m",)
    try:
        d = json.loads(data.decode("utf-8"), object_pairs_hook=PairsDict)
    except (ValueError, RecursionError):
        return ("j",)
    try:
        if not isinstance(d, dict) or "uuid" not in d or "root" not in d:
            return ("j",)
        if "repository" in d:
            r = d["repository"]
            # a GithubRepository: owner and name, optionally branch and tag (as Model/CacheDoc.lean)
            if not isinstance(r, dict) or not {"owner", "name"} <= set(r) <= {"owner", "name", "branch", "tag"}:
                return ("j",)
        files = d["codebase"]["files"]
        if not isinstance(d["codebase"], dict) or not isinstance(files, dict):
            return ("j",)
        rows = []
        for name, e in getattr(files, "pairs", list(files.items())):
            if not _entry_ok(e):
                if files[name] is e:
                    return ("j",)
                continue
            pid = PATHS.index(name) if name in PATHS else 50
            rows.append((pid, aliens.hid(e["checksum"]), aliens.eid(pid, e)))
    except (KeyError, TypeError):
        return ("j",)
    v = d.get("version")
    return ("d", 1 if v == cur else 0 if v is None else 2, rows)


def cache_words(a):
    if a[0] == "m":
        return ["cm"]
    if a[0] == "j":
        return ["cj", "0"]
    return ["cd", str(a[1]), str(len(a[2]))] + [str(x) for r in a[2] for x in r]


VERS = {0: None, 1: "CUR", 2: "0.0.1", 3: "CUR+", 4: 1}


def set_version(doc, v, cur):
    if v == 0:
        doc.pop("version", None)
    elif v == 1:
        doc["version"] = cur
    elif v == 3:
        doc["version"] = cur + ".post1"
    elif v == 4:
        doc["version"] = 1
    else:
        doc["version"] = "0.0.1"


RAW_SENTINEL = "@@RAW-JSON-TEXT@@"


def jget(doc, path):
    for k in path:
        doc = doc[k]
    return doc


# ------------------------------------------------------------------ the world

class World:
    def __init__(self, init, excl_k, cfg=0, entry=0):
        self.cur = cl()["CUR"]
        self.entry = entry
        self.spelling = 0
        self.root = tempfile.mkdtemp(prefix="clw_")
        self.files = {}
        self.excl = excl_k
        self.cfg = cfg
        self.oracle_only = False   # set when the disk is in a state the model has no word for
        self.moved = 0
        self.snaps = []
        self.aliens = Aliens()
        self.words = []     # the model's view of the history so far
        self.contract_fails = []
        self.forged = False
        for p, c in init:
            self._write(p, c)
        self.init = [(p, c) for p, c in init]
        pre()

    def close(self):
        unspell_root(self.root)
        shutil.rmtree(self.root, ignore_errors=True)

    # -- files
    def _fp(self, p):
        return os.path.join(self.root, PATHS[p])

    def _write(self, p, c):
        fp = self._fp(p)
        os.makedirs(os.path.dirname(fp), exist_ok=True)
        if os.path.islink(fp):
            os.unlink(fp)          # never write through a link into the store of old files
        with open(fp, "wb") as f:
            f.write(content(c))
        self.files[p] = c

    def _delete(self, p):
        if p in self.files:
            os.unlink(self._fp(p))
            del self.files[p]

    def _touch(self, p, delta):
        fp = self._fp(p)
        if os.path.islink(fp):     # keep the store's times: the link becomes a regular file first
            self._write(p, self.files[p])
        st = os.stat(fp)
        os.utime(fp, (st.st_atime + delta, st.st_mtime + delta))

    # -- cache
    def cache_bytes(self):
        try:
            with open(cache_paths(self.root)[1], "rb") as f:
                return f.read()
        except OSError:
            return None

    def put_cache(self, data):
        d, f = cache_paths(self.root)
        if data is None:
            if os.path.exists(f):
                os.unlink(f)
            return
        os.makedirs(d, exist_ok=True)
        with open(f, "wb") as fh:
            fh.write(data)

    def dir_state(self):
        d, _ = cache_paths(self.root)
        if not os.path.isdir(d):
            return 0
        tags = [os.path.exists(os.path.join(d, n)) for n in ("CACHEDIR.TAG", ".gitignore")]
        return 2 if all(tags) else 1 if not any(tags) else 3

    def _edit_doc(self, fn, raw=None):
        """apply fn to the parsed cache document; no effect when there is no parseable object.  raw: JSON text
        that takes the place of the value RAW_SENTINEL in the new document (literals that json.dumps does not
        produce: 1e400, -0, NaN spelled out, ...)"""
        data = self.cache_bytes()
        if data is None:
            return False
        try:
            doc = json.loads(data.decode("utf-8"))
        except ValueError:
            return False
        if not isinstance(doc, dict):
            return False
        try:
            fn(doc)
        except (KeyError, TypeError, IndexError, AttributeError):
            return False
        text = json.dumps(doc, indent=1)
        if raw is not None:
            text = text.replace(json.dumps(RAW_SENTINEL), raw)
        self.put_cache(text.encode())
        return True

    def abstract(self):
        return abstract_cache(self.cache_bytes(), self.aliens, self.cur)

    # -- snapshots for the exhaustive search
    def snapshot(self):
        d, _ = cache_paths(self.root)
        cd = None
        if os.path.isdir(d):
            cd = {n: open(os.path.join(d, n), "rb").read() for n in os.listdir(d)}
        return (dict(self.files), self.excl, cd, len(self.snaps), len(self.words), self.forged, self.cfg, self.oracle_only, self.entry, self.spelling)

    def restore(self, snap):
        files, excl, cd, nsn, nw, self.forged, self.cfg, self.oracle_only, self.entry, self.spelling = snap
        for p in list(self.files):
            if files.get(p) != self.files[p]:
                self._delete(p)
        for p, c in files.items():
            if self.files.get(p) != c:
                self._write(p, c)
        self.excl = excl
        d, _ = cache_paths(self.root)
        shutil.rmtree(d, ignore_errors=True)
        if cd is not None:
            os.makedirs(d)
            for n, b in cd.items():
                with open(os.path.join(d, n), "wb") as f:
                    f.write(b)
        del self.snaps[nsn:]
        del self.words[nw:]

    # -- operations
    def apply(self, op):
        """performs op on the real tree, appends the model's words; returns the observation of a scan"""
        k = op[0]
        w = None
        if k == "w":
            self._write(op[1], op[2])
        elif k == "d":
            self._delete(op[1])
        elif k == "r":
            a, b = op[1], op[2]
            if a in self.files and a != b:
                os.makedirs(os.path.dirname(self._fp(b)), exist_ok=True)
                os.replace(self._fp(a), self._fp(b))
                self.files[b] = self.files.pop(a)
        elif k == "t":
            if op[1] in self.files:
                self._touch(op[1], 100)
        elif k == "wb":
            self._write(op[1], op[2])
            old = time.time() - 10 ** op[3]
            os.utime(self._fp(op[1]), (old, old))
            w = ["w", str(op[1]), str(op[2])]
        elif k == "ln":
            fp = self._fp(op[1])
            os.makedirs(os.path.dirname(fp), exist_ok=True)
            os.symlink(store_path(op[2]), fp + ".lnk")
            os.replace(fp + ".lnk", fp)
            self.files[op[1]] = op[2]
            w = ["w", str(op[1]), str(op[2])]
        elif k == "R":
            a, b = op[1], op[2]
            da, db = os.path.join(self.root, DIRS[a]), os.path.join(self.root, DIRS[b])
            w = []
            if a != b and os.path.isdir(da):
                for pb in DIR_FILES[b]:
                    if pb in self.files:
                        del self.files[pb]
                        w += ["d", str(pb)]
                shutil.rmtree(db, ignore_errors=True)
                os.rename(da, db)
                for pa, pb in zip(DIR_FILES[a], DIR_FILES[b]):
                    if pa in self.files:
                        self.files[pb] = self.files.pop(pa)
                        w += ["r", str(pa), str(pb)]
        elif k == "cfg":
            self.cfg = op[1] % CFGS
            w = []
        elif k == "ent":
            self.entry = op[1] % ENTRIES
            w = []
        elif k == "root":
            self.spelling = op[1] % SPELLINGS
            w = []
        elif k == "xf":
            d, _ = cache_paths(self.root)
            w = []
            name = os.path.basename(str(op[1]))
            if os.path.isdir(d) and name and name not in ("codelimit.json", "CACHEDIR.TAG", ".gitignore", ".", ".."):
                with open(os.path.join(d, name), "wb") as f:
                    f.write([b"", b"12345\n", b"{", content(0)][op[2] % 4])
        elif k == "cold":
            d, _ = cache_paths(self.root)
            w = []
            if os.path.isdir(d):
                when = time.time() + (10 ** op[1] if op[2] else -(10 ** op[1]))
                for n in os.listdir(d) + ["."]:
                    os.utime(os.path.join(d, n), (when, when))
        elif k == "cmv":
            d, _ = cache_paths(self.root)
            if os.path.isdir(d):
                self.moved += 1
                os.rename(d, d + ".%d" % self.moved)
            w = ["D"]
        elif k == "ks":
            return self._interrupted(op[1], op[2])
        elif k == "x":
            a, b = op[1], op[2]
            if a in self.files and b in self.files:
                ca, cb = self.files[a], self.files[b]
                self._write(a, cb)
                self._write(b, ca)
        elif k == "e":
            self.excl = op[1]
            w = ["e", str(len(EXCL_IDS[op[1]]))] + [str(i) for i in EXCL_IDS[op[1]]]
        elif k == "cm":
            self.put_cache(None)
        elif k == "cj":
            if op[1] == 0:
                self.put_cache(JUNK[op[2] % len(JUNK)].replace(b"0.18.1", self.cur.encode()))
            else:
                # the honest entry of (a.py, content 0) with a number as function name: the reader
                # accepts it, only the type test of the cache rejects it
                lang, loc, ms = json.loads(pre()[(0, 0)])
                ms = [dict(m, unit_name=7) for m in ms]
                doc = {"version": self.cur, "uuid": "u", "root": "/", "timestamp": "t",
                       "codebase": {"files": {"a.py": {"checksum": MD5[0], "language": lang, "loc": loc, "measurements": ms}}}}
                self.put_cache(json.dumps(doc).encode())
            w = ["cj", str(op[1])]
        elif k == "ca":
            _, v, p, hm, de = op

            def alter(doc):
                set_version(doc, v, self.cur)
                e = doc["codebase"]["files"].get(PATHS[p])
                if e is not None:
                    if hm > 0:
                        e["checksum"] = MD5[hm - 1]
                    if de > 0:
                        doc["codebase"]["files"][PATHS[p]] = shift(e, de)
            if not self._edit_doc(alter):
                w = []
            else:
                w = ["ca", str(1 if v == 1 else 0 if v == 0 else 2), str(p), str(hm), str(de)]
        elif k == "cr":
            if not self._edit_doc(lambda doc: doc["codebase"]["files"].pop(PATHS[op[1]], None)):
                w = []
        elif k == "dup":
            # the entry of path p twice under the same key: an altered copy and the original
            data = self.cache_bytes()
            done = False
            try:
                doc = json.loads(data.decode("utf-8"))
                files = doc["codebase"]["files"]
                e = files[PATHS[op[1]]]
                forged = shift(e, 1000)
                pairs = []
                for name, ent in files.items():
                    if name == PATHS[op[1]]:
                        pairs += [(name, ent), (name, forged)] if op[2] else [(name, forged), (name, ent)]
                    else:
                        pairs.append((name, ent))
                doc["codebase"]["files"] = "@@FILES@@"
                text = json.dumps(doc).replace('"@@FILES@@"', "{" + ", ".join("%s: %s" % (json.dumps(n), json.dumps(x)) for n, x in pairs) + "}")
                self.put_cache(text.encode())
                done = True
            except Exception:  # noqa: BLE001
                pass
            w = cache_words(self.abstract()) if done else []
        elif k == "fmt":
            w = cache_words(self.abstract()) if self._edit_doc(lambda doc: None) else []
        elif k == "co":
            if op[1] < len(self.snaps) and self.snaps[op[1]] is None:
                w = []          # the report of an interrupted scan: never on disk, nothing to restore
            elif op[1] < len(self.snaps):
                self.put_cache(self.snaps[op[1]])
            else:
                w = []
        elif k == "k":
            data = self.cache_bytes()
            if data is not None:
                if op[1] == 1:
                    self.put_cache(data.rstrip(b" \t\r\n"))
                else:
                    n = op[2] % (len(data) - 1) if len(data) >= 2 else 0
                    self.put_cache(data[:n])
            w = ["k", str(op[1])]
        elif k == "D":
            shutil.rmtree(cache_paths(self.root)[0], ignore_errors=True)
        elif k == "M":
            d, _ = cache_paths(self.root)
            for n in ("CACHEDIR.TAG", ".gitignore"):
                if os.path.exists(os.path.join(d, n)):
                    os.unlink(os.path.join(d, n))
        elif k == "trunc":
            data = self.cache_bytes()
            if data is None:
                w = []
            else:
                before = self.abstract()
                self.put_cache(data[:op[1]])
                ws = data[op[1]:].strip(b" \t\r\n") == b""
                w = ["k", "1" if ws else "0"]
                # the byte contract of C10.2 at this offset, judged by the abstraction function
                after = self.abstract()
                if before[0] == "d" and (after != before if ws else after != ("j",)):
                    self.contract_fails.append("cutting the cache file at byte %d of %d (%s) gives %s, expected %s" % (
                        op[1], len(data), "only whitespace removed" if ws else "non-whitespace removed",
                        after[:2], "the same document" if ws else "an unreadable file"))
        elif k in ("bytes", "jdel", "jset", "jraw"):
            if k == "bytes":
                self.put_cache(op[1].encode("latin-1"))
                done = True
            elif k == "jraw":
                done = self._edit_doc(lambda doc: jget(doc, op[1][:-1]).__setitem__(op[1][-1], RAW_SENTINEL), raw=op[2])
            elif k == "jdel":
                done = self._edit_doc(lambda doc: jget(doc, op[1][:-1]).__delitem__(op[1][-1]))
            else:
                done = self._edit_doc(lambda doc: jget(doc, op[1][:-1]).__setitem__(op[1][-1], op[2]))
            w = cache_words(self.abstract()) if done else []
        elif k == "s":
            return self._scan()
        else:
            raise ValueError("unknown op %r" % (op,))
        self.words += [str(x) for x in op] if w is None else w
        return None

    def _forged_check(self):
        """called when a scan is about to READ the cache file: a forged document that is replaced before any scan
        reads it (two faults in a row) does not take the history out of the property"""
        if self.forged:
            return
        a = self.abstract()
        if a[0] == "d" and a[1] == 1 and any(h >= ALIEN_H or e != pair(p, h) for p, h, e in a[2]):
            self.forged = True     # side condition Op.Allowed violated: outside the property

    def _interrupted(self, mode, n):
        """["ks", mode, n]: what the stopped child left on disk becomes a fault of the model"""
        b0, ds0 = self.cache_bytes(), self.dir_state()
        self._forged_check()
        status, err, analysed, _ = interrupted_scan(self.root, self.excl, self.cfg, mode, n, self.spelling)
        if status == "completed" or (status == "raised" and "File too large" not in err and "Errno 27" not in err):
            # not stopped (or failed for a reason of its own): an ordinary scan
            return self._scan(ran=(b0, err, analysed))
        b1, ds1 = self.cache_bytes(), self.dir_state()
        if b1 == b0 and ds1 == ds0:
            return None
        a1 = self.abstract()
        if ds1 == ds0:
            self.words += cache_words(a1)
        elif ds0 == 0 and ds1 == 1:
            self.words += ["cj", "0", "cm"] if a1[0] == "m" else cache_words(a1)
        elif ds0 == 0 and ds1 == 2:
            # an interrupted first scan got as far as the marker files: for the model a scan (whose
            # report nobody saw: a placeholder among the observations) followed by the fault
            self.words += ["s"] + cache_words(a1)
            self.snaps.append(None)
            self._forged_check()
            return {"phantom": True}
        else:
            self.oracle_only = True
        self._forged_check()
        return None

    def _scan(self, ran=None):
        if ran is None:
            pre_cache = self.cache_bytes()
            self._forged_check()
            err, analysed = real_scan(self.root, self.excl, self.cfg, self.entry, self.spelling)
            # the command line finds the repository out itself (none here): bit 1 has no effect there
            cfg = self.cfg & 1 if self.entry else self.cfg
        else:
            pre_cache, err, analysed = ran
            cfg = self.cfg
        self.words.append("s")
        post = self.cache_bytes()
        self.snaps.append(post)
        obs = {"raised": err, "analysed": analysed, "pre_cache": pre_cache, "post_cache": post,
               "dir": self.dir_state(), "files": dict(self.files), "excl": self.excl, "cfg": cfg,
               "entry": self.entry if ran is None else 0, "spelling": self.spelling}
        if obs["dir"] == 3:
            self.oracle_only = True
        return obs

    def request(self):
        hdr = ["history", str(len(UNSUPPORTED))] + [str(u) for u in UNSUPPORTED]
        hdr += [str(len(self.init))] + [str(x) for pc in self.init for x in pc]
        hdr += [str(len(EXCL_IDS[self._excl0]))] + [str(i) for i in EXCL_IDS[self._excl0]]
        return " ".join(hdr + self.words)


def new_world(init, excl_k, cfg=0, entry=0):
    w = World(init, excl_k, cfg, entry)
    w._excl0 = excl_k
    return w


# ------------------------------------------------------------------ observations in model vocabulary

def abstract_obs(world, obs):
    """the real scan in the model's vocabulary: (rows sorted by path, reused ids, analysed ids, dir)
    or ("raised", text)"""
    if obs["raised"]:
        return ("raised", obs["raised"])
    try:
        a = abstract_cache(obs["post_cache"], world.aliens, world.cur)
    except Exception as e:  # noqa: BLE001
        return ("unreadable-cache-left", repr(e))
    if a[0] != "d":
        return ("unusable-cache-left", a[0])
    rows = list(a[2])
    an = sorted(PATHS.index(x) if x in PATHS else 50 for x in obs["analysed"])
    reused = sorted(set(r[0] for r in rows) - set(an))
    return (tuple(sorted(rows)), tuple(reused), tuple(an), obs["dir"], a[1])


def parse_reply(reply):
    """-> (list of (rows sorted, reused sorted, analysed sorted, dir), final cache) or None"""
    ws = reply.split()
    if not ws or ws[0] != "ok":
        return None
    it = iter(ws[1:])

    def nat():
        return int(next(it))
    out = []
    try:
        for _ in range(nat()):
            rows = tuple(sorted((nat(), nat(), nat()) for _ in range(nat())))
            reused = tuple(sorted(nat() for _ in range(nat())))
            an = tuple(sorted(nat() for _ in range(nat())))
            out.append((rows, reused, an, nat(), 1))
        kind = nat()
        final = (kind,) if kind < 3 else (3, nat(), tuple((nat(), nat(), nat()) for _ in range(nat())))
    except (StopIteration, ValueError):
        return None
    return out, final


# ------------------------------------------------------------------ direct oracles

def check_scan(world, obs):
    """the statements of C09/C10 evaluated on the real outputs of one scan -> list of failures"""
    try:
        return _check_scan(world, obs)
    except Exception as e:  # noqa: BLE001 - an output the oracle cannot even read is a failure
        return ["the outputs of the scan have an unexpected shape: %r" % (e,)]


def _check_scan(world, obs):
    def md5_of(name):
        if name not in PATHS or PATHS.index(name) not in obs["files"]:
            return None
        return MD5[obs["files"][PATHS.index(name)]]
    fr = fresh_report(obs["files"], obs["excl"], obs.get("cfg", 0))
    sh = fresh_shape(obs["files"], obs["excl"], obs.get("cfg", 0))
    return judge_scan(world.cur, world.root, obs, fr, sh, md5_of)


def judge_scan(cur, root, obs, fr, sh, md5_of):
    """the oracles on one scan: obs = what was observed, fr / sh = the from-scratch report of a copy of the tree
    (`canon`) and its complete document (`full_shape`), md5_of(name) = checksum of the current bytes of a file of
    the tree (None: no such file)"""
    fails = []
    if obs["raised"]:
        return ["scan raised " + obs["raised"]]
    post = obs["post_cache"]
    if post is None:
        return ["the scan left no cache file behind"]
    try:
        doc = json.loads(post.decode("utf-8"))
        rep = canon(doc)
    except Exception as e:  # noqa: BLE001
        return ["the cache left behind is not a complete report document: %r" % (e,)]
    if rep != fr:
        diff = [k for k in ("version", "repository", "totals", "tree", "files") if rep.get(k) != fr.get(k)]
        a, b = rep.get("files"), fr.get("files")
        if isinstance(a, dict) and isinstance(b, dict) and a != b:
            # only the files whose entries differ
            a, b = ({k: v for k, v in x.items() if k not in y or y[k] != v} for x, y in ((a, b), (b, a)))
        fails.append("report differs from the fresh scan in %s: %s vs fresh %s" % (
            diff, json.dumps(a, sort_keys=True)[:600], json.dumps(b, sort_keys=True)[:600]))
    elif sh is not None:
        # "a complete, valid cache": field by field what a from-scratch scan writes - the same keys at every
        # level, the same JSON types, the same values; identifier and time stamp of the writer's shape
        diffs = shape_diff(full_shape(doc), sh)
        if diffs:
            fails.append("the cache left behind differs field by field from the cache a from-scratch scan writes: " + "; ".join(diffs[:6]))
    if rep["version"] != cur:
        fails.append("cache written with version %r" % (rep["version"],))
    # usable for the next scan (this is the function the next scan calls)
    m = cl()
    try:
        usable = m["scanmod"]._read_cached_report(m["Path"](cache_paths(root)[1])) is not None
    except Exception as e:  # noqa: BLE001
        usable = False
        fails.append("reading back the cache raises %r" % (e,))
    if not usable:
        fails.append("the cache left behind is not usable by the next scan")
    # reuse only for unchanged files, only from a cache of the current version
    names = list(rep["files"].keys())
    an = obs["analysed"]
    if len(set(an)) != len(an):
        fails.append("a file was analysed twice: %s" % an)
    if not set(an) <= set(names):
        fails.append("analysed files missing from the report: %s" % sorted(set(an) - set(names)))
    reused = [n for n in names if n not in an]
    if reused:
        try:
            pre_doc = json.loads(obs["pre_cache"].decode("utf-8"))
        except Exception:  # noqa: BLE001
            pre_doc = None
        for n in reused:
            cur_sum = md5_of(n)
            if cur_sum is None:
                fails.append("the report lists %s, which is not in the tree" % n)
                continue
            ok = (isinstance(pre_doc, dict) and pre_doc.get("version") == cur
                  and isinstance(pre_doc.get("codebase"), dict) and isinstance(pre_doc["codebase"].get("files"), dict)
                  and isinstance(pre_doc["codebase"]["files"].get(n), dict)
                  and pre_doc["codebase"]["files"][n].get("checksum") == cur_sum)
            if not ok:
                fails.append("%s was not analysed although the cache had no entry of the current version with the checksum of its current content" % n)
    return fails


def observe(w, obs, real, fails):
    """book-keeping for the result of World.apply"""
    if obs is None:
        return
    if obs.get("phantom"):
        real.append(None)
        return
    fails += [(len(real), f) for f in check_scan(w, obs)]
    real.append(abstract_obs(w, obs))


def run_history(hist, want_model=True):
    """replays one history on a fresh world -> dict(request, real=[abstract obs], fails=[(scan idx, text)])"""
    if hist.get("named"):
        return run_named_history(hist)
    w = new_world([tuple(x) for x in hist["init"]], hist["excl"], hist.get("cfg", 0), hist.get("entry", 0))
    real, fails = [], []
    try:
        for op in hist["ops"]:
            observe(w, w.apply(op), real, fails)
        for f in w.contract_fails:
            fails.append((len(real), f))
        final = w.abstract()
        return {"request": w.request(), "real": real, "fails": fails, "final": final, "forged": w.forged,
                "oracle_only": w.oracle_only}
    finally:
        w.close()


def compare_with_model(rec, reply):
    """-> disagreement text or None"""
    parsed = parse_reply(reply)
    if parsed is None:
        return "model reply unreadable: %s" % reply[:200]
    scans, final = parsed
    if len(scans) != len(rec["real"]):
        return "model has %d scans, real %d" % (len(scans), len(rec["real"]))
    for i, (m, r) in enumerate(zip(scans, rec["real"])):
        if r is None:
            continue        # the model's stand-in for an interrupted first scan
        if tuple(m) != tuple(r):
            return "scan %d: model %s real %s" % (i, m, r)
    f = rec.get("final")
    if f is not None:
        fm = ("m",) if final[0] == 0 else ("j",) if final[0] in (1, 2) else ("d", final[1], list(final[2]))
        fr = f if f[0] != "d" else ("d", f[1], list(f[2]))
        if fm[0] != fr[0] or (fm[0] == "d" and (fm[1] != fr[1] or sorted(fm[2]) != sorted(fr[2]))):
            return "final cache: model %s real %s" % (fm, fr)
    return None


# ------------------------------------------------------------------ trees of files with arbitrary names
# The model speaks about numbered paths whose analysis depends on (path, content) only; the histories below are
# judged by the direct oracles alone (report == from-scratch scan of a copy, field by field; reuse only of files
# whose path and bytes the current-version cache knows).  They exist for what the numbered universe cannot say:
# file names that choose the language by more than an ordinary suffix (gen/names.py: `*.h`, `*.hh`, `BUILD`, ...),
# siblings of other languages that come and go next to a file that stays byte-identical, renames and copies that
# keep the bytes across language extensions, canonically equivalent / awkward names, nested .gitignore files,
# roots spelled through a symbolic link or `..`, and the three observation points (`ent`).
#
# A named history is {"named": 1, "files": [[rel, cid]...], "excl": [pattern...], "cfg": k, "entry": e, "ops": [...]}:
#   ["w",rel,cid] write   ["wb",rel,cid,k] write, mtime 10^k s back   ["d",rel] delete   ["r",a,b] rename keeping the
#   bytes   ["cp",a,b] copy the bytes (and times)   ["t",rel] touch   ["gi",dir,[line...]] write dir/.gitignore   ["e",[pattern...]] exclusions
#   ["root",k] spelling of the root and working directory (`spell_root`: absolute, through a symbolic link, with `..`, `.`,
#   relative, `../name`, relative through a link)   ["cfg",k]  ["ent",k]
#   ["s"] scan
#   files that cannot be read (the value of such a path in `files` is -1 - how): ["lnk",rel,cid] rel becomes a symbolic link to a
#   file with content cid in a folder outside the tree (a shared module linked into the project)   ["brk",rel,how] the file
#   under rel becomes unreadable (a regular file is moved out and linked first): how 0 the target of the link is deleted, 1
#   renamed, 2 its folder is moved, 3 rel becomes a link to itself (ELOOP), 4 mode 000 (only when not running as root, else = 0)
#   ["fix",rel,cid] rel becomes a regular readable file again.  A from-scratch scan of a tree with an unreadable entry may
#   abort; then the scan with the cache has to abort the same way (equal outcomes), otherwise the reports have to be equal.

KEY_SPELLINGS = ["as written", "separators of the other platform (backslash)", "with a leading ./"]
DAMAGE_KINDS = ["cut in the middle", "last byte cut", "empty", "not JSON", "a JSON array", "checksum of the first entry a number",
                "first entry without measurements", "files as a list of pairs", "codebase missing"]
UNREADABLE_KINDS = ["target of the link deleted", "target of the link renamed", "folder of the target moved", "link to itself", "mode 000"]

NWORDS = ["f", "new", "delete", "class", "catch", "template", "type", "number", "string", "declare", "readonly",
          "namespace", "async", "await", "print", "exec", "final", "var", "let", "of", "operator", "module"]
_NW = {}


def nwords():
    """function names for the texts of named trees: identifiers of one supported language that are keywords of
    another, plus the identifier-like string literals that are new in the source tree under check"""
    if "w" not in _NW:
        import re
        from gen import srcdict
        extra = [x for x in srcdict.words(novel_only=True) if re.fullmatch(r"[A-Za-z_][A-Za-z0-9_]{0,30}", x)]
        _NW["w"] = NWORDS + [x for x in extra if x not in NWORDS][:20]
    return _NW["w"]


def ncontent(cid):
    """bytes of content `cid` of a named tree: below NCONTENT the numbered contents, from 100 on a polyglot text
    (Python, JavaScript / TypeScript, C family) with functions called nwords()[cid - 100]; every cid another text"""
    if cid < 100:
        return content(cid)
    ws = nwords()
    w = ws[(cid - 100) % len(ws)]
    k = cid - 100
    py = "def %s():\n" % w + "".join("    x%d = %d\n" % (i, i) for i in range(k % 3 + 1))
    js = "function %s(a) {\n" % w + "".join("  a = %d;\n" % i for i in range(k % 2 + 1)) + "}\n"
    c = "struct node *%s(int a) {\n" % w + "".join("  a = %d;\n" % i for i in range(k % 4 + 1)) + "  return 0;\n}\n"
    c += "class Box%d {\n  int get(int a) {\n    try { a = 1; } catch (int e) { a = 2; }\n    return a;\n  }\n};\n" % k
    return (py + "\n" + js + "\n" + c).encode()


_NFRESH = {}


def fresh_named(files, gi, excl, cfg=0):
    """the oracle of the named trees: from-scratch scan (scan_command) of a copy made of regular files, created
    in sorted order -> (canon, full_shape) or ({"error": text}, None)"""
    cfg &= 2
    key = (tuple(sorted(files.items())), tuple(sorted((d, tuple(l)) for d, l in gi.items())), tuple(excl), cfg)
    if key not in _NFRESH:
        d = tempfile.mkdtemp(prefix="clnfresh_")
        try:
            for rel, cid in sorted(files.items()):
                fp = os.path.join(d, rel)
                os.makedirs(os.path.dirname(fp), exist_ok=True)
                if cid < 0:
                    make_unreadable(fp, -1 - cid)
                    continue
                with open(fp, "wb") as f:
                    f.write(ncontent(cid))
            for dr, lines in sorted(gi.items()):
                os.makedirs(os.path.join(d, dr), exist_ok=True)
                with open(os.path.join(d, dr, ".gitignore"), "w") as f:
                    f.write("".join(x + "\n" for x in lines))
            err, _ = real_scan(d, list(excl), cfg)
            if err:
                _NFRESH[key] = ({"error": err}, None)
            else:
                doc = json.load(open(cache_paths(d)[1]))
                _NFRESH[key] = (canon(doc), full_shape(doc))
        finally:
            shutil.rmtree(d, ignore_errors=True)
    return _NFRESH[key]


def make_unreadable(fp, how):
    """a directory entry fp that cannot be read, made directly (the copy for the from-scratch scan): a dangling
    symbolic link (how 0-2), a link to itself (3), a file without any permission (4; a dangling link for root)"""
    if how == 3:
        os.symlink(os.path.basename(fp), fp)
    elif how == 4 and os.geteuid() != 0:
        with open(fp, "wb") as f:
            f.write(b"x = 1\n")
        os.chmod(fp, 0)
    else:
        os.symlink(os.path.join(os.path.dirname(fp), "no-such-folder", "no-such-file"), fp)


class NamedWorld:
    def __init__(self, files, excl=(), cfg=0, entry=0):
        self.cur = cl()["CUR"]
        self.base = tempfile.mkdtemp(prefix="clnw_")
        self.root = os.path.join(self.base, "tree")
        os.makedirs(self.root)
        os.makedirs(os.path.join(self.base, "other"))
        os.symlink("tree", os.path.join(self.base, "link"))
        self.files, self.gi = {}, {}
        self.nshared = 0
        self.excl, self.cfg, self.entry, self.spelling = list(excl), cfg, entry, 0
        for rel, cid in files:
            self.write(rel, cid)

    def close(self):
        for dp, _dn, fns in os.walk(self.base):
            for fn in fns:
                if not os.path.islink(os.path.join(dp, fn)):
                    with contextlib.suppress(OSError):
                        os.chmod(os.path.join(dp, fn), 0o600)
        shutil.rmtree(self.base, ignore_errors=True)

    def link_out(self, rel, cid=None):
        """rel becomes a symbolic link to a file in a new folder outside the tree: with content cid, or (cid None)
        the regular file that was under rel itself, moved there"""
        fp = self.fp(rel)
        self.nshared += 1
        folder = os.path.join(self.base, "shared", "m%d" % self.nshared)
        os.makedirs(folder)
        target = os.path.join(folder, os.path.basename(rel))
        os.makedirs(os.path.dirname(fp), exist_ok=True)
        if cid is None:
            os.replace(fp, target)
        else:
            with open(target, "wb") as f:
                f.write(ncontent(cid))
            if os.path.lexists(fp):
                os.unlink(fp)
            self.files[rel] = cid
        os.symlink(target, fp)

    def unreadable(self, rel, how):
        fp = self.fp(rel)
        how %= len(UNREADABLE_KINDS)
        if how == 4 and os.geteuid() == 0:
            how = 0
        if how == 3:
            os.unlink(fp)
            os.symlink(os.path.basename(fp), fp)
        elif how == 4:
            if os.path.islink(fp):
                os.unlink(fp)
                with open(fp, "wb") as f:
                    f.write(ncontent(self.files[rel]))
            os.chmod(fp, 0)
        else:
            if not os.path.islink(fp):
                self.link_out(rel)
            target = os.readlink(fp)
            if how == 0:
                os.unlink(target)
            elif how == 1:
                os.replace(target, target + ".moved")
            else:
                os.replace(os.path.dirname(target), os.path.dirname(target) + ".moved")
        self.files[rel] = -1 - how

    def fp(self, rel):
        return os.path.join(self.root, rel)

    def write(self, rel, cid):
        fp = self.fp(rel)
        os.makedirs(os.path.dirname(fp), exist_ok=True)
        if os.path.islink(fp) or (os.path.lexists(fp) and not os.access(fp, os.W_OK)):
            os.unlink(fp)          # never write through a link
        with open(fp, "wb") as f:
            f.write(ncontent(cid))
        self.files[rel] = cid

    def apply(self, op):
        k = op[0]
        if k in ("cp", "t") and self.files.get(op[1], 0) < 0:
            return None            # cp -p / touch of an unreadable file fails: nothing changes
        if k in ("w", "fix"):
            self.write(op[1], op[2])
        elif k == "lnk":
            self.link_out(op[1], op[2])
        elif k == "brk":
            if op[1] in self.files and self.files[op[1]] >= 0:
                self.unreadable(op[1], op[2])
        elif k == "wb":
            self.write(op[1], op[2])
            old = time.time() - 10 ** op[3]
            os.utime(self.fp(op[1]), (old, old))
        elif k == "d":
            if op[1] in self.files:
                os.unlink(self.fp(op[1]))
                del self.files[op[1]]
        elif k == "r":
            a, b = op[1], op[2]
            if a in self.files and a != b:
                os.makedirs(os.path.dirname(self.fp(b)), exist_ok=True)
                os.replace(self.fp(a), self.fp(b))
                self.files[b] = self.files.pop(a)
                if self.files[b] == -4 and os.path.basename(a) != os.path.basename(b):
                    self.files[b] = -1      # a link to its own old name: dangling now
        elif k == "cp":
            a, b = op[1], op[2]
            if a in self.files and a != b:
                try:
                    os.makedirs(os.path.dirname(self.fp(b)), exist_ok=True)
                    shutil.copy2(self.fp(a), self.fp(b))          # cp -p: bytes and times
                    self.files[b] = self.files[a]
                except OSError:
                    pass                                           # not applicable in this state (dangling folder link, unreadable source): no-op
        elif k == "t":
            if op[1] in self.files:
                st = os.stat(self.fp(op[1]))
                os.utime(self.fp(op[1]), (st.st_atime + 100, st.st_mtime + 100))
        elif k == "gi":
            os.makedirs(self.fp(op[1]), exist_ok=True)
            with open(os.path.join(self.fp(op[1]), ".gitignore"), "w") as f:
                f.write("".join(x + "\n" for x in op[2]))
            self.gi[op[1]] = list(op[2])
        elif k == "e":
            self.excl = list(op[1])
        elif k == "root":
            self.spelling = op[1] % SPELLINGS
        elif k == "cfg":
            self.cfg = op[1] % CFGS
        elif k == "ent":
            self.entry = op[1] % ENTRIES
        elif k == "cv":
            self.foreign_cache(op[1], op[2], op[3] if len(op) > 3 else 0)
        elif k == "cdmg":
            self.damaged_cache(op[1])
        elif k == "s":
            return self.scan()
        else:
            raise ValueError("unknown op %r" % (op,))
        return None

    def cache_bytes(self):
        try:
            with open(cache_paths(self.root)[1], "rb") as f:
                return f.read()
        except OSError:
            return None

    def _cache_doc(self):
        try:
            doc = json.loads(self.cache_bytes().decode("utf-8"))
            return doc if isinstance(doc["codebase"]["files"], dict) else None
        except Exception:  # noqa: BLE001
            return None

    def _put_cache(self, data):
        d, f = cache_paths(self.root)
        if os.path.isdir(d):
            with open(f, "wb") as fh:
                fh.write(data)

    def foreign_cache(self, v, de, keys=0):
        """the cache on disk becomes one ANOTHER version left behind (class v of VERS: 0 key absent, 2 another release,
        3 current + suffix, 4 a number): EVERY entry measured differently (loc and first measurement + de), checksums
        kept; keys % len(KEY_SPELLINGS): the file keys as written / with the other platform's separator / with a leading ./"""
        doc = self._cache_doc()
        if doc is None or v == 1:
            return
        set_version(doc, v, self.cur)
        files = {}
        for name, e in doc["codebase"]["files"].items():
            try:
                e = shift(e, de)
            except Exception:  # noqa: BLE001
                pass
            k = keys % len(KEY_SPELLINGS)
            files[name.replace("/", "\\") if k == 1 else "./" + name if k == 2 else name] = e
        doc["codebase"]["files"] = files
        self._put_cache(json.dumps(doc, indent=2).encode())

    def damaged_cache(self, kind):
        """the cache on disk damaged without forging any measurement (DAMAGE_KINDS)"""
        data = self.cache_bytes()
        if data is None:
            return
        kind %= len(DAMAGE_KINDS)
        doc = self._cache_doc()
        if kind == 0:
            out = data[:len(data) // 2]
        elif kind == 1:
            out = data.rstrip()[:-1]
        elif kind == 2:
            out = b""
        elif kind == 3:
            out = b"not json"
        elif kind == 4:
            out = b"[]"
        elif doc is None:
            return
        else:
            files = doc["codebase"]["files"]
            first = sorted(files)[0] if files else None
            if kind == 5 and first is not None:
                files[first]["checksum"] = 7
            elif kind == 6 and first is not None:
                files[first].pop("measurements", None)
            elif kind == 7:
                doc["codebase"]["files"] = [[n, e] for n, e in files.items()]
            elif kind == 8:
                doc.pop("codebase")
            out = json.dumps(doc, indent=2).encode()
        self._put_cache(out)

    def scan(self):
        pre_cache = self.cache_bytes()
        err, analysed = real_scan(self.root, self.excl, self.cfg, self.entry, self.spelling)
        return {"raised": err, "analysed": analysed, "pre_cache": pre_cache, "post_cache": self.cache_bytes(),
                "files": dict(self.files), "gi": {d: list(l) for d, l in self.gi.items()}, "excl": list(self.excl),
                "cfg": self.cfg & 1 if self.entry else self.cfg, "entry": self.entry}


def check_named_scan(world, obs):
    try:
        fr, sh = fresh_named(obs["files"], obs["gi"], obs["excl"], obs["cfg"])
        if "error" in fr and any(c < 0 for c in obs["files"].values()):
            # the tree holds an entry that cannot be read and a from-scratch scan of it does not complete: the scan with
            # the cache has to end the same way (equal outcomes; where the exception is seen, the same exception class)
            if obs["raised"] and (obs["entry"] != 0 or obs["raised"].split(":")[0] == fr["error"].split(":")[0]):
                return []
            return ["a from-scratch scan of a copy of the tree (with its unreadable entries %s) ends with %s, the scan with the cache %s" % (
                sorted(n for n, c in obs["files"].items() if c < 0), fr["error"][:80],
                "ends with " + obs["raised"][:120] if obs["raised"] else "completes")]
        return judge_scan(world.cur, world.root, obs, fr, sh,
                          lambda n: md5(ncontent(obs["files"][n])) if obs["files"].get(n, -1) >= 0 else None)
    except Exception as e:  # noqa: BLE001
        return ["the outputs of the scan have an unexpected shape: %r" % (e,)]


def run_named_history(hist):
    w = NamedWorld([tuple(x) for x in hist["files"]], hist.get("excl", ()), hist.get("cfg", 0), hist.get("entry", 0))
    real, fails = [], []
    try:
        for op in hist["ops"]:
            obs = w.apply(op)
            if obs is None:
                continue
            fails += [(len(real), f) for f in check_named_scan(w, obs)]
            n = 0
            try:
                n = len(json.loads(obs["post_cache"].decode("utf-8"))["codebase"]["files"])
            except Exception:  # noqa: BLE001
                pass
            if obs["raised"]:
                real.append(("named", 0, 0, len(obs["analysed"]), obs["entry"], 1))     # aborted (judged above: as the from-scratch scan)
            else:
                real.append(("named", n, max(0, n - len(obs["analysed"])), len(obs["analysed"]), obs["entry"], 0))
        return {"request": "", "real": real, "fails": fails, "final": None, "forged": False, "oracle_only": True, "named": True}
    finally:
        w.close()


# ------------------------------------------------------------------ running many histories

def run_variants(task):
    """(init, excl, prefix ops, [variant ops...]) -> records; the prefix is executed once, every
    variant starts from the state after the prefix (snapshot / restore)"""
    init, excl, prefix, variants = task[:4]
    cfg = task[4] if len(task) > 4 else 0
    entry = task[5] if len(task) > 5 else 0
    w = new_world([tuple(x) for x in init], excl, cfg, entry)
    out = []
    try:
        base_real, base_fails = [], []
        for op in prefix:
            observe(w, w.apply(op), base_real, base_fails)
        snap = w.snapshot()
        for var in variants:
            real, fails = list(base_real), list(base_fails)
            del w.contract_fails[:]
            for op in var:
                observe(w, w.apply(op), real, fails)
            fails += [(len(real), f) for f in w.contract_fails]
            out.append({"input": dict({"init": [list(x) for x in init], "excl": excl, "cfg": cfg, "ops": list(prefix) + list(var)},
                                      **({"entry": entry} if entry else {})),
                        "request": w.request(), "real": real, "fails": fails, "final": w.abstract(), "forged": w.forged,
                        "oracle_only": w.oracle_only})
            w.restore(snap)
    finally:
        w.close()
    return out


def run_dfs(task):
    """(init, excl, prefix ops, first op, alphabet, depth): all op sequences `first + rest` with
    len(rest) < depth over the alphabet that end in a scan; one record per such sequence"""
    init, excl, prefix, first, alphabet, depth = task
    w = new_world([tuple(x) for x in init], excl)
    out = []
    try:
        real = []
        for op in prefix:
            observe(w, w.apply(op), real, [])

        def visit(op, path, d):
            snap = w.snapshot()
            obs = w.apply(op)
            path = path + [op]
            if obs is not None:
                fails = []
                observe(w, obs, real, fails)
            if obs is not None and real[-1] is not None:
                out.append({"input": {"init": [list(x) for x in init], "excl": excl, "ops": list(prefix) + path},
                            "request": w.request(), "real": list(real), "fails": fails, "final": None, "forged": w.forged,
                            "oracle_only": w.oracle_only})
            if d > 1:
                for nxt in (alphabet if d > 2 else [["s"]]):
                    visit(nxt, path, d - 1)
            if obs is not None:
                real.pop()
            w.restore(snap)
        visit(first, [], depth)
    finally:
        w.close()
    return out


def run_histories(task):
    return [dict(run_history(h), input=h) for h in task]


def pool_map(fn, tasks, procs=16):
    import multiprocessing as mp
    pre()
    if len(tasks) <= 1:
        return [fn(t) for t in tasks]
    with mp.get_context("fork").Pool(min(procs, len(tasks))) as pool:
        return pool.map(fn, tasks, chunksize=1)


def judge(records):
    """model replies for all records -> (disagreements, oracle failures)"""
    modelled = [r for r in records if not r.get("named")]
    replies = iter(common.run_driver_sharded([r["request"] for r in modelled]) if modelled else [])
    dis, fails = [], []
    for r in records:
        reply = None if r.get("named") else next(replies)
        if r.get("oracle_only"):
            # the disk went through a state the model has no word for (see op "ks"): oracles only
            for (i, f) in r["fails"]:
                fails.append({"input": r["input"], "observed": "scan %d: %s" % (i, f),
                              "required": "scan completes, report == fresh scan, reuse only of unchanged files from a current-version cache, usable cache left"})
            continue
        if r.get("forged"):
            # a current-version cache with a forged entry was put in place: the model must still agree
            # with the program (it does reuse it), but the property does not speak about this history
            d = compare_with_model(r, reply)
            if d:
                dis.append({"stream": "history(forged)", "input": r["input"], "model": reply[:400], "impl": d[:600]})
            continue
        d = compare_with_model(r, reply)
        if d:
            dis.append({"stream": "history", "input": r["input"], "model": reply[:400], "impl": d[:600]})
        for (i, f) in r["fails"]:
            fails.append({"input": r["input"], "observed": "scan %d: %s" % (i, f),
                          "required": "scan completes, report == fresh scan, reuse only of unchanged files from a current-version cache, usable cache left"})
    return dis, fails


def history_problems(hist):
    rec = dict(run_history(hist), input=hist)
    dis, fails = judge([rec])
    return [d["impl"] for d in dis] + [f["observed"] for f in fails]


def _scan_ops(ops):
    return [i for i, op in enumerate(ops) if op[0] in ("s", "ks")]


def shrink(hist, budget=60):
    """a smaller history that still shows a problem: cut behind the first scan that shows one, drop initial files
    (named histories), then remove blocks of operations (halves, quarters, ... single operations)"""
    import re

    def bad(h):
        try:
            return history_problems(h)
        except Exception:  # noqa: BLE001
            return []
    ops = list(hist["ops"])
    left = [budget]

    def still(h):
        if left[0] <= 0:
            return False
        left[0] -= 1
        return bool(bad(h))
    probs = bad(hist)
    left[0] -= 1
    idx = [int(m.group(1)) for m in (re.match(r"scan (\d+):", p) for p in probs) if m]
    scans = _scan_ops(ops)
    if idx and min(idx) < len(scans) - 1:
        cand = ops[:scans[min(idx)] + 1]
        if still(dict(hist, ops=cand)):
            ops = cand
    hist = dict(hist, ops=ops)
    if hist.get("named"):
        files = list(hist["files"])
        i = 0
        while i < len(files) and len(files) > 1:
            cand = files[:i] + files[i + 1:]
            if still(dict(hist, files=cand)):
                files = cand
            else:
                i += 1
        hist = dict(hist, files=files)
    n = max(1, len(ops) // 2)
    while left[0] > 0:
        i = 0
        while i < len(ops) and left[0] > 0:
            cand = ops[:i] + ops[i + n:]
            if cand and still(dict(hist, ops=cand)):
                ops = cand
            else:
                i += n
        if n == 1:
            break
        n = max(1, n // 2)
    return dict(hist, ops=ops)
