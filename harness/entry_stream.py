"""Correspondence stream for `Model/Entry.lean` (Props/Entry.lean): the CLI entry functions of
`codelimit/__main__.py` and the process-level configuration they assemble.

One case = a HISTORY of 1-3 entry calls executed in ONE fresh interpreter (a subprocess per history):
`codelimit.__main__.scan(path, exclude, verbose)`, `check(paths, exclude, quiet, verbose)`,
`report(path, diff, fmt)`, `findings(path, full, fmt)` called DIRECTLY as functions (typer 0.9.4 / click 8.5
mis-parse options in this sandbox; `typer.Exit` carries the exit status), on a fresh temp tree with or
without `.codelimit.yml` (exclude / verbose keys present or not, documents that are no mapping),
`.gitignore`, pre-existing cache files (none / current / foreign version / damaged), git repositories,
from the working directory = root / a sub-directory / elsewhere.

  real   the worker (this file with `--worker`) wraps `PathSpec.from_lines` (the lines handed to it), `read_report`
         (the reports returned), `commands.check._read_file` (the files checked); after every call it records
         the exit status / exception, the first printed line, `Configuration.exclude / verbose / repository`
         and, after a scan, the files and function lengths of the cache file that was written;
  model  driver operation `entry` (`Model/EntryOps.lean`): `CL.Entry.run` on the same history; `yaml.load`,
         `splitlines`, `get_lexer_for_filename` and the Pygments token streams are passed as tables.

A difference is a `disagreement`.  Calls for which the model has no answer (an exclusion line outside the six
pattern classes: reply `U`) are compared on the lines and the configuration only (`unmodelled`).

Usage: /venv/bin/python entry_stream.py [-n 3000] [--seed 0] [--driver PATH] [--json out.json] [--workers 16]
"""
import argparse
import concurrent.futures
import contextlib
import io
import json
import os
import random
import shutil
import subprocess
import sys
import tempfile

HERE = os.path.dirname(os.path.abspath(__file__))
PYTHON = sys.executable
GEN_ALL = ["C", "C++", "C#", "Java", "JavaScript", "Python", "TypeScript"]     # order of `Gen.all`
BUILTIN = [".bzr", ".direnv", ".eggs", ".git", ".git-rewrite", ".hg", ".ipynb_checkpoints", ".mypy_cache", ".nox",
           ".pants.d", ".pytest_cache", ".pytype", ".ruff_cache", ".svn", ".tox", ".venv", ".vscode", "__pypackages__",
           "_build", "buck-out", "build", "dist", "node_modules", "venv", "test", "tests"]


# ====================================================================== worker (one fresh interpreter per history)

def worker_main():
    import warnings
    warnings.simplefilter("ignore")
    for k in ("GITHUB_REF", "GITHUB_HEAD_REF"):
        os.environ.pop(k, None)
    repo = os.environ.get("VERIF_REPO")
    if repo:
        sys.path.insert(0, repo)
    job = json.load(sys.stdin)
    from pathlib import Path
    import typer
    from pathspec import PathSpec
    spec_calls = []
    orig_from_lines = PathSpec.from_lines.__func__

    def from_lines(cls, style, lines, *a, **k):
        lines = list(lines)
        spec_calls.append([style if isinstance(style, str) else repr(style)] + lines)
        return orig_from_lines(cls, style, lines, *a, **k)
    PathSpec.from_lines = classmethod(from_lines)
    import codelimit.__main__ as M
    import codelimit.utils as U
    import codelimit.commands.report as CR
    import codelimit.commands.findings as CF
    import codelimit.commands.check as CC
    from codelimit.common.Configuration import Configuration
    from codelimit.commands.report import ReportFormat
    from codelimit.version import version
    shown = []
    orig_read_report = U.read_report

    def read_report(report_path, console):
        r = orig_read_report(report_path, console)
        shown.append(list(r.codebase.files.keys()))
        return r
    CR.read_report = read_report
    CF.read_report = read_report
    read = []
    orig_read_file = CC._read_file

    def _read_file(path):
        read.append(str(path))
        return orig_read_file(path)
    CC._read_file = _read_file
    fresh = {"exclude": list(Configuration.exclude), "verbose": Configuration.verbose,
             "repository": Configuration.repository is None}
    out = []
    for c in job["calls"]:
        os.chdir(c["cwd"])
        del spec_calls[:], shown[:], read[:]
        buf = io.StringIO()
        outcome = "return"
        try:
            with contextlib.redirect_stdout(buf):
                if c["kind"] == "scan":
                    M.scan(Path(c["path"]), c["exclude"], c["verbose"])
                elif c["kind"] == "check":
                    M.check([Path(p) for p in c["paths"]], c["exclude"], c["quiet"], c["verbose"])
                elif c["kind"] == "report":
                    M.report(Path(c["path"]), Path(c["diff"]) if c["diff"] is not None else None,
                             ReportFormat.markdown if c["markdown"] else ReportFormat.text)
                else:
                    M.findings(Path(c["path"]), c["full"], ReportFormat.markdown if c["markdown"] else ReportFormat.text)
        except typer.Exit as e:
            outcome = "exit %d" % e.exit_code
        except BaseException as e:  # noqa
            import traceback
            tb = traceback.extract_tb(e.__traceback__)
            where = [f.name for f in tb if "codelimit" in f.filename]
            outcome = "raise %s|%s|%s" % (type(e).__name__, ",".join(where[-3:]), str(e)[:80])
        text = buf.getvalue()
        lines = [ln.strip() for ln in text.splitlines()]
        nonblank = [ln for ln in lines if ln]
        obs = {"outcome": outcome, "spec": [list(x) for x in spec_calls], "shown": [list(x) for x in shown],
               "read": list(read), "first": nonblank[0] if nonblank else None, "printed": bool(text.strip()),
               "all_lines": nonblank[:6],
               "exclude": [x if isinstance(x, str) else repr(x) for x in Configuration.exclude],
               "verbose": bool(Configuration.verbose),
               "repository": None if Configuration.repository is None else
               [Configuration.repository.owner, Configuration.repository.name, Configuration.repository.branch]}
        if c["kind"] == "scan":
            rp = os.path.join(c["cwd"], c["path"], ".codelimit_cache", "codelimit.json")
            try:
                with open(rp) as f:
                    d = json.load(f)
                obs["report"] = {"version": d.get("version"), "repository": "repository" in d,
                                 "files": [[k, [m["value"] for m in v["measurements"]]]
                                           for k, v in d["codebase"]["files"].items()]}
            except Exception as e:  # noqa
                obs["report"] = {"error": "%s" % type(e).__name__}
        out.append(obs)
    json.dump({"fresh": fresh, "version": version, "calls": out}, sys.stdout)


# ====================================================================== encoding for the driver

def S(s):
    return "%d%s" % (len(s), "".join(" %d" % ord(ch) for ch in s))


def enc_list(items, f=S):
    return "%d%s" % (len(items), "".join(" " + f(x) for x in items))


def enc_path(comps):
    return enc_list(list(comps))


def enc_opt(s):
    return "0" if s is None else "1 " + S(s)


def enc_node(node):
    if node[0] == "F":
        return "F %s %s" % (S(node[1]), S(node[2]))
    return "D %s %d%s" % (S(node[1]), len(node[2]), "".join(" " + enc_node(c) for c in node[2]))


def enc_doc(doc):
    """doc = ("M", exclude list | None, verbose bool | None) | ("I",) | ("R",)"""
    if doc[0] == "M":
        ex = "0" if doc[1] is None else "1 " + enc_list(doc[1])
        vb = {None: "0", False: "1", True: "2"}[doc[2]]
        return "M %s %s" % (ex, vb)
    return doc[0]


def enc_excl(ex):
    return "0" if ex is None else "1 " + enc_list(ex)


def read_str(ws, i):
    n = int(ws[i])
    return "".join(chr(int(x)) for x in ws[i + 1:i + 1 + n]), i + 1 + n


def read_list(ws, i, f=read_str):
    n = int(ws[i]); i += 1
    out = []
    for _ in range(n):
        x, i = f(ws, i)
        out.append(x)
    return out, i


def read_opt(ws, i):
    if ws[i] == "1":
        return read_str(ws, i + 1)
    return None, i + 1


_KIND = {}


def kind_of(tt):
    if tt not in _KIND:
        from pygments.token import Keyword, Name, Punctuation, Operator, Comment, Text, Whitespace, String
        if tt in Keyword:
            k = 1
        elif tt in Name:
            k = 2
        elif tt in Punctuation:
            k = 3
        elif tt in Operator:
            k = 4
        elif tt in Comment:
            k = 5
        elif tt == Text or tt == Whitespace:
            k = 6
        elif tt in String:
            k = 7
        else:
            k = 0
        _KIND[tt] = k
    return _KIND[tt]


_LEX = {}


def lexer_no(name):
    """`get_lexer_for_filename(name)` -> (number, lexer): 0..6 = index in Gen.all, 7 = another lexer, None = ClassNotFound"""
    if name not in _LEX:
        from pygments.lexers import get_lexer_for_filename
        from pygments.util import ClassNotFound
        try:
            lx = get_lexer_for_filename(name)
            n = lx.__class__.name
            _LEX[name] = (GEN_ALL.index(n) if n in GEN_ALL else 7, lx)
        except ClassNotFound:
            _LEX[name] = (None, None)
    return _LEX[name]


def enc_raw(lexer, text):
    raw = list(lexer.get_tokens_unprocessed(text))
    tys = {}
    parts = [str(len(raw))]
    for (off, tt, val) in raw:
        ty = tys.setdefault(str(tt), len(tys))
        parts.append("%d %d %d %s" % (off, kind_of(tt), ty, S(val)))
    return " ".join(parts)


def run_driver(driver, requests):
    p = subprocess.run([driver], input="\n".join(requests) + "\n", capture_output=True, text=True)
    out = p.stdout.splitlines()
    if len(out) != len(requests):
        raise RuntimeError("driver answered %d lines for %d requests: %s" % (len(out), len(requests), p.stderr[-500:]))
    return out


# ====================================================================== generation

def py_function(name, n):
    return "def %s(a):\n%s" % (name, "".join("    a = a + %d\n" % i for i in range(n - 1)))


def brace_function(head, n):
    return "%s {\n%s}\n" % (head, "".join("  a = a + %d;\n" % i for i in range(n - 2)))


def source_for(name, lengths):
    ext = os.path.splitext(name)[1]
    parts = []
    for i, n in enumerate(lengths):
        if ext == ".py":
            parts.append(py_function("f%d" % i, n))
        elif ext in (".js", ".ts"):
            parts.append(brace_function("function f%d(a)" % i, n))
        elif ext in (".c", ".cpp", ".h"):
            parts.append(brace_function("int f%d(int a)" % i, n))
        elif ext in (".java", ".cs"):
            parts.append("class K%d {\n%s}\n" % (i, brace_function("  int f%d(int a)" % i, n)))
        else:
            parts.append("text %d\n" % i)
    return "// %s\n" % name if not parts and ext != ".py" else ("# %s\n" % name if not parts else "\n".join(parts))


FILE_NAMES = ["a.py", "gen.py", "keep.py", "b.js", "lib.c", "m.ts", "K.java", "notes.txt", "Makefile", "x.min.js", ".h.py",
              "u.cpp", "k.cs", "data.json"]
DIR_NAMES = ["sub", "pkg", "src", "build", "tests", "gen", ".hid", "docs"]
# exclusion lines inside the six classes of Spec/Gitignore.lean, built from the names above
IN_FRAGMENT = ["gen.py", "keep.py", "a.py", "sub", "pkg", "src", "gen", "docs", "sub/", "pkg/", "gen/", "*.js", "*.py", "*.min.js",
               "*.c", "sub/keep.py", "sub/gen.py", "pkg/a.py", "src/lib.c", "sub/*", "pkg/*", "src/*", "/a.py", "/gen.py",
               "/sub", "/pkg/b.js", "root", "root/sub", "w/root", "lib.c", "K.java", "m.ts", "Makefile", "other"]
OUTSIDE = ["", "# generated", "!keep.py", "**/gen.py", "sub/**", "a?.py", "*.p[yx]", " gen.py", "sub/*.py"]


def gen_lines(rnd, k=None, outside=0.04):
    k = rnd.choice([0, 1, 1, 2, 3]) if k is None else k
    return [rnd.choice(OUTSIDE) if rnd.random() < outside else rnd.choice(IN_FRAGMENT) for _ in range(k)]


def gen_config(rnd):
    """-> (text, doc) | None: the `.codelimit.yml` of a directory and what `yaml.load` makes of it for `load`"""
    import yaml
    r = rnd.random()
    if r < 0.33:
        return None
    if r < 0.78:
        d = {}
        ex = vb = None
        if rnd.random() < 0.75:
            ex = gen_lines(rnd, rnd.choice([0, 1, 1, 2, 2, 3]), outside=0.03)
            d["exclude"] = ex
        if rnd.random() < 0.45:
            vb = rnd.random() < 0.5
            d["verbose"] = vb
        if rnd.random() < 0.2 or not d:
            d["other"] = rnd.choice([1, "x", [1, 2]])
        items = list(d.items())
        rnd.shuffle(items)
        return yaml.safe_dump(dict(items), sort_keys=False), ("M", ex, vb)
    if r < 0.82:
        w = rnd.choice(["gen", "sub", "ab"])
        return "exclude: %s\n" % w, ("M", list(w), None)          # a plain string: its characters are appended
    if r < 0.87:
        return rnd.choice(["hello\n", "- a\n- b\n", "just some words\n", "- [exclude]\n"]), ("I",)
    return rnd.choice(["", "# only a comment\n", "5\n", "true\n", "exclude:\n", "exclude: 5\nverbose: true\n",
                       "- exclude\n", "- verbose\n", "an exclude word\n", "a: [\n", "verbose: true\nexclude: 7\n"]), ("R",)


def gen_gitignore(rnd):
    r = rnd.random()
    if r < 0.45:
        return None
    ls = gen_lines(rnd, rnd.choice([0, 1, 1, 2, 3]), outside=0.05)
    sep = rnd.choice(["\n", "\n", "\n", "\r\n"])
    text = sep.join(ls)
    if ls and rnd.random() < 0.8:
        text += sep
    return text


def gen_dir(rnd, depth):
    ch = []
    for name in rnd.sample(FILE_NAMES, rnd.choice([1, 2, 3, 4])):
        k = rnd.choice([0, 1, 1, 1, 2])
        lengths = [rnd.choice([3, 5, 12, 30, 31, 45, 61, 75]) for _ in range(k)]
        ch.append(("F", name, source_for(name, lengths)))
    if depth < 2:
        for name in rnd.sample(DIR_NAMES, rnd.choice([0, 1, 1, 2])):
            ch.append(("D", name, gen_dir(rnd, depth + 1)))
    rnd.shuffle(ch)
    return ch


def with_sources(rnd, ch, tables, p=1.0):
    """add `.codelimit.yml` / `.gitignore` to a directory's entries; fill the yaml / lines tables"""
    out = list(ch)
    if rnd.random() < p:
        c = gen_config(rnd)
        if c:
            out.append(("F", ".codelimit.yml", c[0]))
            tables["yaml"][c[0]] = c[1]
        g = gen_gitignore(rnd)
        if g is not None:
            out.append(("F", ".gitignore", g))
            tables["lines"][g] = g.splitlines()
    return out


def gen_world(rnd):
    """the tree below the temp directory (the model's `/`): w/root (with sub-directories), w/other, elsewhere"""
    tables = {"yaml": {}, "lines": {}}
    root = gen_dir(rnd, 0)
    if not any(c[0] == "D" and c[1] == "sub" for c in root):
        root.append(("D", "sub", gen_dir(rnd, 1)))
    root = [("D", c[1], with_sources(rnd, c[2], tables, 0.6)) if c[0] == "D" else c for c in root]
    root = with_sources(rnd, root, tables)
    other = with_sources(rnd, gen_dir(rnd, 1), tables, 0.7)
    w = with_sources(rnd, [("D", "root", root), ("D", "other", other)], tables, 0.3)
    top = [("D", "w", w), ("D", "elsewhere", with_sources(rnd, [("F", "z.py", source_for("z.py", [4]))], tables, 0.3))]
    return ("D", "", top), tables


def materialize(node, path):
    os.makedirs(path, exist_ok=True)
    for ch in node[2]:
        p = os.path.join(path, ch[1])
        if ch[0] == "F":
            with open(p, "w", newline="") as f:
                f.write(ch[2])
        else:
            materialize(ch, p)


def snapshot(path, name=""):
    """the tree as the OS lists it (`os.scandir` order = `os.walk` order); `.git` and the cache directories are
    left out (hidden, never walked; the cache files are a separate component of the model's state)"""
    ch = []
    with os.scandir(path) as it:
        entries = list(it)
    for e in entries:
        if e.name in (".git", ".codelimit_cache"):
            continue
        if e.is_dir(follow_symlinks=False):
            ch.append(snapshot(e.path, e.name))
        else:
            with open(e.path, newline="") as f:
                ch.append(("F", e.name, f.read()))
    return ("D", name, ch)


def dirs_of(node, pre=()):
    out = [pre]
    for c in node[2]:
        if c[0] == "D":
            out.extend(dirs_of(c, pre + (c[1],)))
    return out


def files_of(node, pre=()):
    out = []
    for c in node[2]:
        if c[0] == "F":
            out.append((pre + (c[1],), c[2]))
        else:
            out.extend(files_of(c, pre + (c[1],)))
    return out


def minimal_report(version, files=None, repository=False):
    d = {"version": version, "uuid": "11111111-2222-3333-4444-555555555555", "root": "/somewhere",
         "timestamp": "2026-01-01T00:00:00+00:00",
         "codebase": {"totals": {}, "tree": {"./": {"entries": [], "profile": [0, 0, 0, 0]}}, "files": files or {}}}
    if repository:
        d["repository"] = {"owner": "own", "name": "nam", "branch": "main"}
    if version is None:
        del d["version"]
    return json.dumps(d, indent=2)


def gen_cache_text(rnd, version):
    """-> (kind, text): a pre-existing `.codelimit_cache/codelimit.json`"""
    k = rnd.choice(["current", "current", "foreign", "foreign", "noversion", "junk", "list", "string", "nokeys", "currentrepo",
                    "number", "listversion"])
    if k == "current":
        return k, minimal_report(version)
    if k == "currentrepo":
        return k, minimal_report(version, repository=True)
    if k == "foreign":
        return k, minimal_report(rnd.choice(["0.0.1", "0.18.0", version + ".1", "", "1"]))
    if k == "noversion":
        return k, minimal_report(None)
    if k == "junk":
        return k, rnd.choice(["{", "", "not json", minimal_report(version)[:-5], "{\"version\": "])
    if k == "list":
        return k, "[1, 2]"
    if k == "listversion":
        return k, "[\"version\"]"
    if k == "string":
        return k, rnd.choice(["\"abc\"", "\"the version string\""])
    if k == "number":
        return k, "5"
    return k, json.dumps({"version": version})          # current version, but no other key: KeyError in from_json


def rel_or_abs(rnd, T, cwd, target):
    """how a path below / outside the working directory is typed"""
    if target[:len(cwd)] == cwd and rnd.random() < 0.6:
        rest = target[len(cwd):]
        return os.path.join(*rest) if rest else "."
    return os.path.join(T, *target)


def gen_calls(rnd, T, tree, diff_files):
    dirs = [d for d in dirs_of(tree) if d and not any(x.startswith(".") for x in d)]
    roots = [("w", "root"), ("w", "root"), ("w", "root"), ("w", "root", "sub"), ("w", "other"), ("w",)]
    roots += [d for d in dirs if len(d) == 3 and d[:2] == ("w", "root")][:2]
    cwds = [("w", "root"), ("w", "root"), ("w", "root", "sub"), ("w",), ("elsewhere",), ("w", "other")]
    files = [p for p, _ in files_of(tree) if p[0] == "w"]
    calls = []
    focus = rnd.choice(roots)                      # most calls of a history concern the same directory
    for _ in range(rnd.choice([1, 2, 2, 3, 3])):
        kind = rnd.choice(["scan", "scan", "check", "check", "report", "findings"])
        if kind in ("report", "findings") and not calls and rnd.random() < 0.45:
            kind = "scan"                              # a report is more interesting after a scan
        cwd = rnd.choice(cwds)
        ex = rnd.choice([None, None, [], gen_lines(rnd, 1, 0.03), gen_lines(rnd, 2, 0.03)])
        vb = rnd.random() < 0.3
        if kind == "scan":
            root = focus if rnd.random() < 0.7 else rnd.choice(roots)
            calls.append({"kind": "scan", "cwd": cwd, "root": root, "path": rel_or_abs(rnd, T, cwd, root), "exclude": ex,
                          "verbose": vb})
        elif kind == "check":
            args = []
            for _ in range(rnd.choice([1, 1, 2])):
                r = rnd.random()
                if r < 0.55:
                    target = rnd.choice([cwd, cwd, focus] + [d for d in dirs if d[:len(cwd)] == cwd][:3])
                    typed = rel_or_abs(rnd, T, cwd, target)
                    is_abs = os.path.isabs(typed)
                    args.append({"typed": typed, "kind": 3 if is_abs else 2, "comps": target if is_abs else target[len(cwd):]})
                elif r < 0.95 and files:
                    target = rnd.choice(files)
                    typed = rel_or_abs(rnd, T, cwd, target)
                    is_abs = os.path.isabs(typed)
                    args.append({"typed": typed, "kind": 1 if is_abs else 0, "comps": target if is_abs else target[len(cwd):]})
                else:
                    args.append({"typed": "nothing.py", "kind": 0, "comps": ("nothing.py",)})
            calls.append({"kind": "check", "cwd": cwd, "args": args, "paths": [a["typed"] for a in args], "exclude": ex,
                          "quiet": rnd.random() < 0.5, "verbose": vb})
        elif kind == "report":
            root = focus if rnd.random() < 0.8 else rnd.choice(roots)
            diff = rnd.choice([None, None, None] + list(diff_files))
            calls.append({"kind": "report", "cwd": cwd, "root": root, "path": rel_or_abs(rnd, T, cwd, root),
                          "markdown": rnd.random() < 0.5, "diff": diff})
        else:
            root = focus if rnd.random() < 0.8 else rnd.choice(roots)
            calls.append({"kind": "findings", "cwd": cwd, "root": root, "path": rel_or_abs(rnd, T, cwd, root),
                          "markdown": rnd.random() < 0.5, "full": rnd.random() < 0.5})
    return calls


def git_repo(path):
    env = dict(os.environ)
    run = lambda *a: subprocess.run(["git", "-C", path] + list(a), check=True, capture_output=True, env=env)  # noqa: E731
    subprocess.run(["git", "init", "-q", "-b", "main", path], check=True, capture_output=True, env=env)
    run("remote", "add", "origin", "https://github.com/own/nam.git")
    run("-c", "user.email=a@b.c", "-c", "user.name=n", "commit", "-q", "--allow-empty", "-m", "x")


# ====================================================================== one case

def build_case(seed, version, keep_dir=False):
    """materialise a world, choose a history -> case dict (with the driver request)"""
    rnd = random.Random(seed)
    T = os.path.realpath(tempfile.mkdtemp(prefix="clentry_"))
    tree0, tables = gen_world(rnd)
    materialize(tree0, T)
    # pre-existing cache files, files for `--diff`
    caches = {}
    for d in [("w", "root"), ("w", "root", "sub"), ("w", "other"), ("w",)]:
        if rnd.random() < 0.45:
            kind, text = gen_cache_text(rnd, version)
            cd = os.path.join(T, *d, ".codelimit_cache")
            os.makedirs(cd, exist_ok=True)
            with open(os.path.join(cd, "codelimit.json"), "w") as f:
                f.write(text)
            caches[d] = text
    diff_files = {}
    if rnd.random() < 0.5:
        for nm in ("old.json", "old2.json"):
            kind, text = gen_cache_text(rnd, version)
            p = os.path.join(T, "elsewhere", nm)
            with open(p, "w") as f:
                f.write(text)
            diff_files[p] = text
        diff_files[os.path.join(T, "elsewhere", "missing.json")] = None
    # git repositories (configure_github_repository): the project root, sometimes
    repos = []
    if rnd.random() < 0.22:
        r = rnd.choice([("w", "root"), ("w", "other")])
        git_repo(os.path.join(T, *r))
        repos.append(r)
    tree = snapshot(T)
    calls = gen_calls(rnd, T, tree, diff_files)
    # tables for the driver
    names = sorted({p[-1] for p, _ in files_of(tree)})
    langs = [(n, lexer_no(n)[0]) for n in names if lexer_no(n)[0] is not None]
    raws = {}
    for p, text in files_of(tree):
        no, lx = lexer_no(p[-1])
        if no is not None and no < 7 and (no, text) not in raws:
            raws[(no, text)] = enc_raw(lx, text)
    enc_calls = []
    for i, c in enumerate(calls):
        if c["kind"] == "scan":
            det = "0"
            for r in repos:
                if tuple(c["root"][:len(r)]) == r:
                    det = "1 %s %s %s" % (S("own"), S("nam"), enc_opt("main"))
            enc_calls.append("S %s %s %d %s %s %s" % (enc_path(c["root"]), enc_excl(c["exclude"]), c["verbose"], det,
                                                     S("uuid-%d" % i), S("2026-01-01T00:00:0%d+00:00" % i)))
        elif c["kind"] == "check":
            enc_calls.append("C %s %d%s %s %d %d" % (enc_path(c["cwd"]), len(c["args"]),
                                                    "".join(" %d %s" % (a["kind"], enc_path(a["comps"])) for a in c["args"]),
                                                    enc_excl(c["exclude"]), c["quiet"], c["verbose"]))
        elif c["kind"] == "report":
            diff = "0" if c["diff"] is None else "1 " + enc_opt(diff_files[c["diff"]])
            enc_calls.append("R %s %d %s" % (enc_path(c["root"]), c["markdown"], diff))
        else:
            enc_calls.append("F %s %d %d" % (enc_path(c["root"]), c["full"], c["markdown"]))
    request = " ".join([
        "entry", S(version), enc_node(tree),
        enc_list(list(tables["yaml"].items()), lambda kv: S(kv[0]) + " " + enc_doc(kv[1])),
        enc_list(list(tables["lines"].items()), lambda kv: S(kv[0]) + " " + enc_list(kv[1])),
        enc_list(langs, lambda kv: "%s %d" % (S(kv[0]), kv[1])),
        enc_list(list(raws.items()), lambda kv: "%d %s %s" % (kv[0][0], S(kv[0][1]), kv[1])),
        enc_list(list(caches.items()), lambda kv: enc_path(kv[0]) + " " + S(kv[1])),
        enc_list(enc_calls, lambda x: x)])
    job = {"calls": [dict(c, cwd=os.path.join(T, *c["cwd"])) for c in calls]}
    return {"seed": seed, "T": T, "calls": calls, "job": job, "request": request, "repos": repos,
            "caches": {"/".join(k): v[:60] for k, v in caches.items()}}


def run_worker(case, repo=None):
    env = dict(os.environ, PYTHONWARNINGS="ignore")
    env.pop("GITHUB_REF", None)
    env.pop("GITHUB_HEAD_REF", None)
    if repo:
        env["VERIF_REPO"] = repo
        env["PYTHONPATH"] = repo + os.pathsep + env.get("PYTHONPATH", "")
    p = subprocess.run([PYTHON, os.path.abspath(__file__), "--worker"], input=json.dumps(case["job"]), capture_output=True,
                       text=True, env=env, cwd=case["T"])
    try:
        return json.loads(p.stdout)
    except ValueError:
        return {"error": (p.stdout[-300:] + " | " + p.stderr[-600:])}


# ====================================================================== decoding the model's reply

def parse_reply(line):
    ws = line.split()
    if ws[:1] != ["ok"]:
        raise ValueError("model: " + line[:200])
    n = int(ws[1]); i = 2
    out = []
    for _ in range(n):
        r = {}
        tag = ws[i]; i += 1
        r["tag"] = tag
        if tag in ("S", "C"):
            r["lines"], i = read_list(ws, i)
            r["verbose"] = ws[i] == "1"; i += 1
            if tag == "S":
                r["repository"] = ws[i] == "1"; i += 1
            else:
                r["quiet"] = ws[i] == "1"; i += 1
            res = ws[i]; i += 1
            r["res"] = res
            if res == "E":
                r["code"] = int(ws[i]); i += 1
            elif res == "K" and tag == "S":
                def rd_file(ws, i):
                    k, i = read_str(ws, i)
                    m = int(ws[i]); i += 1
                    vals = [int(x) for x in ws[i:i + m]]
                    return [k, vals], i + m
                r["files"], i = read_list(ws, i, rd_file)
            elif res == "K":
                r["exit"] = int(ws[i]); r["printed"] = ws[i + 1] == "1"; r["count"] = int(ws[i + 2]); i += 3

                def rd_checked(ws, i):
                    ab = ws[i] == "1"
                    comps, i = read_list(ws, i + 1)
                    m = int(ws[i]); i += 1
                    lens = [int(x) for x in ws[i:i + m]]
                    return [ab, comps, lens], i + m
                r["files"], i = read_list(ws, i, rd_checked)
        elif tag == "D":
            cls = ws[i]; i += 1
            if cls == "raise":
                cls += " " + ws[i]; i += 1
            r["class"] = cls
            if cls == "shown":
                r["keys"], i = read_list(ws, i)
            r["exit"] = None if ws[i] == "-" else int(ws[i]); i += 1
            r["headline"] = int(ws[i]); i += 1
            r["text"], i = read_opt(ws, i)
        elif tag != "L":
            raise ValueError("model reply tag " + tag)
        assert ws[i] == ";", (tag, ws[i - 3:i + 3]); i += 1
        assert ws[i] == "P"; i += 1
        ex, i = read_list(ws, i)
        vb = ws[i] == "1"; i += 1
        if ws[i] == "1":
            o, i = read_str(ws, i + 1); nm, i = read_str(ws, i); br, i = read_opt(ws, i)
            repo = [o, nm, br]
        else:
            repo = None; i += 1
        assert ws[i] == ";"; i += 1
        r["proc"] = {"exclude": ex, "verbose": vb, "repository": repo}
        out.append(r)
    return out


RAISE_CLASS = {"raise json": ("JSONDecodeError",), "raise key": ("KeyError", "RecursionError"),
               "raise type": ("TypeError", "AttributeError")}


def compare_call(T, c, m, o):
    """model reply m, real observation o -> list of differences"""
    bad = []
    outcome = o["outcome"]
    # the process configuration after the call
    if m["proc"]["exclude"] != o["exclude"]:
        bad.append(("Configuration.exclude", m["proc"]["exclude"], o["exclude"]))
    if m["proc"]["verbose"] != o["verbose"]:
        bad.append(("Configuration.verbose", m["proc"]["verbose"], o["verbose"]))
    if m["proc"]["repository"] != o["repository"]:
        bad.append(("Configuration.repository", m["proc"]["repository"], o["repository"]))
    if m["tag"] == "skip":
        return bad
    if m["tag"] == "L":
        ok = outcome.startswith("raise ") and outcome.split("|")[1].endswith("load") and not o["spec"]
        if not ok:
            bad.append(("load raises", "L", outcome))
        return bad
    if outcome.startswith("raise ") and outcome.split("|")[1].endswith("load"):
        bad.append(("load raises", m["tag"], outcome))
        return bad
    if m["tag"] in ("S", "C"):
        if len(o["spec"]) != 1 or o["spec"][0][0] != "gitignore":
            bad.append(("from_lines calls", 1, o["spec"]))
        elif o["spec"][0][1:] != m["lines"]:
            bad.append(("lines", m["lines"][len(BUILTIN):], o["spec"][0][1 + len(BUILTIN):]))
        if m["res"] == "U":
            return bad
        if m["res"] == "E":
            if not outcome.startswith("raise "):
                bad.append(("analysis raises", m["code"], outcome))
            return bad
    if m["tag"] == "S":
        if outcome != "return":
            bad.append(("scan outcome", "return", outcome))
            return bad
        rep = o.get("report", {})
        if rep.get("files") != m["files"]:
            bad.append(("report files", m["files"], rep.get("files", rep)))
        if rep.get("repository") != m["repository"]:
            bad.append(("report repository", m["repository"], rep.get("repository")))
    elif m["tag"] == "C":
        if outcome != "exit %d" % m["exit"]:
            bad.append(("check exit", m["exit"], outcome))
        if o["printed"] != m["printed"]:
            bad.append(("check printed", m["printed"], o["all_lines"]))
        want = [os.path.join(T, *comps) if ab else os.path.join(*comps) for ab, comps, _ in m["files"]]
        if want != o["read"]:
            bad.append(("files checked", want, o["read"]))
    else:
        cls = m["class"]
        if cls in ("noreport", "mismatch"):
            if outcome != "exit 1":
                bad.append((cls, "exit 1", outcome))
        elif cls.startswith("raise"):
            if not (outcome.startswith("raise ") and outcome[6:].split("|")[0] in RAISE_CLASS[cls]):
                bad.append((cls, RAISE_CLASS[cls], outcome))
            return bad
        else:
            if outcome != "return":
                bad.append(("shown", "return", outcome))
            elif not o["shown"] or o["shown"][0] != m["keys"]:
                bad.append(("shown files", m["keys"], o["shown"]))
        if m["exit"] is not None and outcome not in ("return" if m["exit"] == 0 else "exit %d" % m["exit"],):
            bad.append(("exit status", m["exit"], outcome))
        if m["text"] is not None and o["first"] != m["text"]:
            bad.append(("first line", m["text"], o["first"]))
        if m["headline"] == 7 and o["printed"]:
            bad.append(("first line", None, o["first"]))
    return bad


# ====================================================================== the stream

def tool_version(repo=None):
    env = dict(os.environ, PYTHONWARNINGS="ignore")
    if repo:
        env["PYTHONPATH"] = repo + os.pathsep + env.get("PYTHONPATH", "")
    p = subprocess.run([PYTHON, "-c", "from codelimit.version import version; print(version)"], capture_output=True,
                       text=True, env=env)
    return p.stdout.strip()


def _one(args):
    seed, version, repo = args
    case = build_case(seed, version)
    try:
        obs = run_worker(case, repo)
    finally:
        shutil.rmtree(case["T"], ignore_errors=True)
    case["obs"] = obs
    case.pop("job")
    return case


def correspond(rnd, n, driver, keep=40, workers=16, repo=None):
    """n histories; -> {"counts": ..., "disagreements": [...]} (disagreements must be empty)"""
    repo = repo or os.environ.get("VERIF_REPO")
    version = tool_version(repo)
    seeds = [rnd.getrandbits(48) for _ in range(n)]
    with concurrent.futures.ProcessPoolExecutor(max_workers=workers) as ex:
        cases = list(ex.map(_one, [(s, version, repo) for s in seeds], chunksize=4))
    replies = []
    for i in range(0, len(cases), 200):
        replies.extend(run_driver(driver, [c["request"] for c in cases[i:i + 200]]))
    counts = {"histories": n, "calls": 0, "worker_errors": 0, "model_errors": 0, "disagreements": 0, "unmodelled_calls": 0,
              "per_kind": {}, "per_length": {}, "load_raised": 0, "display": {}, "scan_files": 0, "scan_functions": 0,
              "check_files": 0, "check_exit_1": 0, "check_silent": 0, "accumulated_calls": 0, "repository_set": 0,
              "repository_carried_over": 0, "verbose_reset_by_config": 0, "lines_compared": 0, "max_user_lines": 0,
              "histories_with_repeat": 0, "fresh_state_ok": 0, "cwd_kinds": {}}
    bad = []
    for case, line in zip(cases, replies):
        obs = case["obs"]
        if "error" in obs:
            counts["worker_errors"] += 1
            bad.append({"seed": case["seed"], "worker_error": obs["error"]})
            continue
        if obs["fresh"] == {"exclude": [], "verbose": False, "repository": True}:
            counts["fresh_state_ok"] += 1
        try:
            model = parse_reply(line)
        except Exception as e:  # noqa
            counts["model_errors"] += 1
            bad.append({"seed": case["seed"], "model_error": "%s: %s" % (type(e).__name__, str(e)[:200])})
            continue
        counts["per_length"][len(case["calls"])] = counts["per_length"].get(len(case["calls"]), 0) + 1
        diffs = []
        seen_lines = 0
        tainted = set()        # roots whose cache file the model does not know (an unmodelled scan wrote it)
        for k, (c, m, o) in enumerate(zip(case["calls"], model, obs["calls"])):
            counts["calls"] += 1
            if m["tag"] == "S" and m.get("res") == "U":
                tainted.add(tuple(c["root"]))
            elif m["tag"] == "D" and tuple(c["root"]) in tainted:
                counts["unmodelled_calls"] += 1
                m = {"tag": "skip", "proc": m["proc"]}
            counts["per_kind"][c["kind"]] = counts["per_kind"].get(c["kind"], 0) + 1
            cw = "/".join(c["cwd"])
            counts["cwd_kinds"][cw] = counts["cwd_kinds"].get(cw, 0) + 1
            d = compare_call(case["T"], c, m, o)
            if m["tag"] == "L":
                counts["load_raised"] += 1
            if m.get("res") == "U":
                counts["unmodelled_calls"] += 1
            if m["tag"] == "D":
                counts["display"][m["class"]] = counts["display"].get(m["class"], 0) + 1
            if m["tag"] in ("S", "C"):
                counts["lines_compared"] += 1
                user = len(m["lines"]) - len(BUILTIN)
                counts["max_user_lines"] = max(counts["max_user_lines"], user)
                if k > 0 and seen_lines:
                    counts["accumulated_calls"] += 1
                if c["verbose"] and not m["verbose"]:
                    counts["verbose_reset_by_config"] += 1
            seen_lines += len(m["proc"]["exclude"])
            if m["tag"] == "S" and m.get("res") == "K":
                counts["scan_files"] += len(m["files"])
                counts["scan_functions"] += sum(len(v) for _, v in m["files"])
                if m["repository"]:
                    counts["repository_set"] += 1
                    if not any(tuple(c["root"][:len(r)]) == tuple(r) for r in case["repos"]):
                        counts["repository_carried_over"] += 1
            if m["tag"] == "C" and m.get("res") == "K":
                counts["check_files"] += len(m["files"])
                counts["check_exit_1"] += m["exit"] == 1
                counts["check_silent"] += not m["printed"]
            if d:
                diffs.append({"call": k, "kind": c["kind"], "diff": d})
        if len(case["calls"]) > 1:
            counts["histories_with_repeat"] += 1
        if diffs:
            counts["disagreements"] += 1
            if len(bad) < keep:
                bad.append({"seed": case["seed"], "calls": [{k: v for k, v in c.items() if k != "args"} for c in case["calls"]],
                            "repos": case["repos"], "caches": case["caches"], "diffs": diffs})
    return {"counts": counts, "disagreements": bad, "version": version}


def main():
    ap = argparse.ArgumentParser()
    ap.add_argument("-n", type=int, default=3000)
    ap.add_argument("--seed", type=int, default=0)
    ap.add_argument("--driver", default=os.environ.get("CLDRIVER", os.path.join(os.path.dirname(HERE), "lean", ".lake", "build", "bin", "cldriver")))
    ap.add_argument("--json", default=None)
    ap.add_argument("--workers", type=int, default=16)
    ap.add_argument("--repo", default=None, help="a copy of the code base to test instead of the installed one")
    a = ap.parse_args()
    out = correspond(random.Random(a.seed), a.n, a.driver, workers=a.workers, repo=a.repo)
    out.update(driver=a.driver, seed=a.seed)
    if a.json:
        with open(a.json, "w") as f:
            json.dump(out, f, indent=1, default=str)
    print(json.dumps(out["counts"], indent=1))
    for b in out["disagreements"][:5]:
        print(json.dumps(b, indent=1, default=str)[:3000])


if __name__ == "__main__":
    if len(sys.argv) > 1 and sys.argv[1] == "--worker":
        worker_main()
    else:
        main()
