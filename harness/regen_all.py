"""regen hooks shared by the property modules"""
from props import C02, C15


def patterns_and_logic(ctx):
    return (C15.regen(ctx) or []) + (C02.regen(ctx) or [])
