"""Worker for C06: analyse the given files, in the given order, in ONE fresh interpreter
(started with a given PYTHONHASHSEED), print the per-file results as JSON."""
import json
import os
import sys

sys.path.insert(0, os.path.dirname(os.path.abspath(__file__)))
import common  # noqa  (puts VERIF_REPO / /repo first on sys.path)
import scan_real as sr

cases = json.load(sys.stdin)
out = []
for (lang, code) in cases:
    out.append(sr.real_scan(lang, code))
json.dump({"hashseed": os.environ.get("PYTHONHASHSEED"), "results": out}, sys.stdout)
