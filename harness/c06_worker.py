"""Worker for C06: analyse the given files, in the given order, in ONE fresh interpreter
(started with a given PYTHONHASHSEED), print the per-file results as JSON.

Second mode (`c06_worker.py check`): the job is {"root": dir, "runs": [[argument, ...], ...]}; the
working directory becomes `root` and the REAL `check_command` is called once per argument list, one
call after the other IN THIS interpreter (so whatever one call - or one argument - leaves behind is
seen by the next); per call: exit code, the printed lines, the number of files checked and the files
whose text was read."""
import json
import os
import sys

sys.path.insert(0, os.path.dirname(os.path.abspath(__file__)))
import common  # noqa  (puts VERIF_REPO / /repo first on sys.path)

if len(sys.argv) > 1 and sys.argv[1] == "check":
    import select_real as sel
    job = json.load(sys.stdin)
    os.chdir(job["root"])
    sel.reset_configuration()
    out = []
    for args in job["runs"]:
        r = sel.run_check(args)
        r["read"] = [os.path.relpath(p, job["root"]) if os.path.isabs(p) else os.path.normpath(p) for p in r["read"]]
        r["listed"] = [[os.path.relpath(l[0], job["root"]) if os.path.isabs(l[0]) else os.path.normpath(l[0])] + list(l[1:])
                       for l in r["listed"]]
        out.append(r)
    json.dump({"hashseed": os.environ.get("PYTHONHASHSEED"), "results": out}, sys.stdout)
    sys.exit(0)

import scan_real as sr

cases = json.load(sys.stdin)
out = []
for (lang, code) in cases:
    out.append(sr.real_scan(lang, code))
json.dump({"hashseed": os.environ.get("PYTHONHASHSEED"), "results": out}, sys.stdout)
