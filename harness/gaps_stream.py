"""Correspondence streams for the gap models (Props/Gaps.lean):

  item 1  `ReportReader.get_report_version`, `utils.read_report`              (Model/CacheDoc.lean)
  item 2  `commands/scan.py: _read_cached_report`, `_is_well_formed`, `_is_int`, the abstraction
          to `Cache.CacheFile`                                                 (Model/CacheDoc.lean)
  item 3  what `check` prints: `CheckResult.report`, `utils.format_measurement` (Model/CheckPrint.lean)
  item 4  `Scanner._read_file`                                                 (Model/Decode.lean)

Every stream calls the REAL functions of /repo (VERIF_REPO) in-process on generated inputs, sends the same
inputs to the Lean driver (`cldriver`, operations of Model/GapsOps.lean) and compares canonicalised outputs.

`correspond(rnd, n, driver)` runs all four with about `n` cases each and returns
{"counts": {...per item...}, "disagreements": [...]}.

Usage: /venv/bin/python gaps_stream.py [-n 20000] [--seed 0] [--driver PATH] [--items 1,2,3,4] [--json out.json]
"""
import argparse
import contextlib
import io
import json
import math
import os
import random
import shutil
import subprocess
import sys
import tempfile

HARNESS = os.path.dirname(os.path.abspath(__file__))
if HARNESS not in sys.path:
    sys.path.insert(0, HARNESS)
import common  # noqa: E402  (puts VERIF_REPO or /repo first on sys.path)
from props import C08  # noqa: E402  (report generator, encoders)

HERE = os.path.dirname(os.path.abspath(__file__))
DEFAULT_DRIVER = common.DRIVER

enc_str = C08.enc_str
enc_opt = C08.enc_opt


def run_driver(driver, lines, shards=8):
    from concurrent.futures import ThreadPoolExecutor
    if not lines:
        return []

    def one(part):
        p = subprocess.run([driver], input="\n".join(part) + "\n", capture_output=True, text=True)
        out = p.stdout.splitlines()
        if p.returncode != 0 or len(out) != len(part):
            out = out + ["model-crash rc=%s %s" % (p.returncode, p.stderr[-200:].replace("\n", " "))] * (len(part) - len(out))
        return out
    k = max(1, (len(lines) + shards - 1) // shards)
    parts = [lines[i:i + k] for i in range(0, len(lines), k)]
    with ThreadPoolExecutor(max_workers=shards) as ex:
        outs = list(ex.map(one, parts))
    return [x for o in outs for x in o]


def cur_version():
    from codelimit.common.report.Report import Report
    return Report.VERSION


# ====================================================================== items 1 and 2: report / cache documents

OTHER_VALUES = [None, 7, -3, 1.5, 2.0, True, False, "", "x", [], [1], {}, {"k": 1}, float("nan"), 10 ** 25]


def jtype(v):
    if v is None:
        return "null"
    if isinstance(v, bool):
        return "bool"
    if isinstance(v, int):
        return "int"
    if isinstance(v, float):
        return "float"
    if isinstance(v, str):
        return "string"
    return "array" if isinstance(v, list) else "object"


def json_paths(doc, prefix=()):
    out = []
    if isinstance(doc, dict):
        for k, v in doc.items():
            out.append((list(prefix) + [k], v))
            out += json_paths(v, tuple(prefix) + (k,))
    elif isinstance(doc, list):
        for i, v in enumerate(doc):
            out.append((list(prefix) + [i], v))
            out += json_paths(v, tuple(prefix) + (i,))
    return out


def jedit(doc, path, fn):
    """a deep copy of `doc` with fn(container, key) applied at `path`"""
    d = json.loads(json.dumps(doc))
    c = d
    for k in path[:-1]:
        c = c[k]
    fn(c, path[-1])
    return d


def jdel(c, k):
    del c[k]


def structural_variants(val, rnd, limit):
    """every key removed and every value retyped (or a random sample of `limit` of them)"""
    out = []
    for path, v in json_paths(val):
        if isinstance(path[-1], str):
            out.append(("key-removed", path, None))
        for o in OTHER_VALUES:
            if jtype(o) != jtype(v):
                out.append(("retyped:" + jtype(o), path, o))
    if limit is not None and len(out) > limit:
        out = rnd.sample(out, limit)
    res = []
    for what, path, o in out:
        if what == "key-removed":
            res.append((what, json.dumps(jedit(val, path, jdel))))
        else:
            res.append((what, json.dumps(jedit(val, path, lambda c, k, o=o: c.__setitem__(k, o)))))
    return res


def version_variants(val, cur):
    """documents that differ in the version member only"""
    vs = [cur, cur + " ", " " + cur, cur.upper() + "x", "", "0", "0.0.0", cur + ".0", cur[:-1], "\u0000", cur.replace(".", "．"), None, 0, 1, 1.5, True, False,
          [], [cur], ["version"], {}, {"version": cur}, float("inf")]
    out = []
    for v in vs:
        out.append(("version:" + jtype(v), json.dumps(jedit(val, ["version"], lambda c, k, v=v: c.__setitem__(k, v)))))
    out.append(("version-absent", json.dumps(jedit(val, ["version"], jdel))))
    # a repeated key: json keeps the last value
    body = json.dumps(val)
    out.append(("version-twice-last-current", '{"version": "9.9.9", ' + body[1:].replace('"version": %s' % json.dumps(val["version"]), '"version": %s' % json.dumps(cur), 1)))
    out.append(("version-twice-last-foreign", body[:-1] + ', "version": "9.9.9"}'))
    return out


def odd_path_variants(val, rnd):
    """file keys on which `add_file` / `aggregate` behave oddly (C07: paths starting with `./`)"""
    files = val.get("codebase", {}).get("files", {})
    if not files:
        return []
    out = []
    k0 = next(iter(files))
    for newk in ["./x.py", "././x.py", "./a/./b.py", "a//b.py", "/abs.py", "", ".", "a/", "./", "a/./b.py", "../x.py", "a/../b.py", ".//x"]:
        d = json.loads(json.dumps(val))
        fs = d["codebase"]["files"]
        d["codebase"]["files"] = {(newk if k == k0 else k): v for k, v in fs.items()}
        out.append(("odd-path", json.dumps(d)))
    return out


NON_DOCUMENTS = ["", " ", "null", "true", "0", "1.5", "\"\"", "\"version\"", "\"my version string\"", "\"x\"", "[]", "[\"version\"]", "[\"a\", \"version\"]",
                 "[[\"version\"]]", "[1, 2]", "{}", "{\"version\": \"%CUR%\"}", "{\"version\": \"%CUR%\", \"root\": \"/\"}",
                 "{\"version\": \"%CUR%\", \"root\": \"/\", \"uuid\": \"u\"}", "{\"version\": \"%CUR%\", \"root\": \"/\", \"uuid\": \"u\", \"codebase\": {}}",
                 "{\"version\": \"%CUR%\", \"root\": \"/\", \"uuid\": \"u\", \"codebase\": {\"files\": {}}}",
                 "{\"version\": \"%CUR%\", \"root\": \"/\", \"uuid\": \"u\", \"codebase\": {\"files\": []}}",
                 "{\"version\": \"%CUR%\", \"root\": \"/\", \"uuid\": \"u\", \"codebase\": []}",
                 "{\"version\": \"%CUR%\", \"root\": \"/\", \"uuid\": \"u\", \"codebase\": \"files\"}",
                 "{\"version\": \"%CUR%\", \"root\": 5, \"uuid\": [], \"codebase\": {\"files\": {}}}",
                 "{\"version\": \"%CUR%\", \"root\": \"/\", \"uuid\": \"u\", \"repository\": {}, \"codebase\": {\"files\": {}}}",
                 "{\"version\": \"%CUR%\", \"root\": \"/\", \"uuid\": \"u\", \"repository\": {\"owner\": 1, \"name\": null}, \"codebase\": {\"files\": {}}}",
                 "{\"version\": \"%CUR%\", \"root\": \"/\", \"uuid\": \"u\", \"repository\": {\"owner\": \"o\", \"name\": \"n\", \"tag\": 3}, \"codebase\": {\"files\": {}}}",
                 "{\"version\": \"%CUR%\", \"root\": \"/\", \"uuid\": \"u\", \"repository\": {\"owner\": \"o\", \"name\": \"n\", \"x\": 3}, \"codebase\": {\"files\": {}}}",
                 "{\"version\": \"%CUR%\", \"root\": \"/\", \"uuid\": \"u\", \"repository\": \"o/n\", \"codebase\": {\"files\": {}}}",
                 "{\"version\": \"%CUR%\", \"root\": \"/\", \"uuid\": \"u\", \"repository\": null, \"codebase\": {\"files\": {}}}",
                 "{\"version\": \"%CUR%\", \"uuid\": \"u\", \"root\": \"/\", \"codebase\": {\"files\": {\"a.py\": null}}}",
                 "{\"version\": \"%CUR%\", \"uuid\": \"u\", \"root\": \"/\", \"codebase\": {\"files\": {\"a.py\": []}}}",
                 "{\"version\": \"%CUR%\", \"uuid\": \"u\", \"root\": \"/\", \"codebase\": {\"files\": {\"a.py\": {}}}}",
                 "{\"version\": \"%CUR%\", \"uuid\": \"u\", \"root\": \"/\", \"codebase\": {\"files\": {\"a.py\": \"x\"}}}",
                 "{\"version\": \"%CUR%\", \"uuid\": \"u\", \"root\": \"/\", \"codebase\": {\"files\": {\"a.py\": {\"checksum\": \"x\", \"language\": \"Python\", \"loc\": 1}}}}",
                 "{\"version\": \"%CUR%\", \"uuid\": \"u\", \"root\": \"/\", \"codebase\": {\"files\": {\"a.py\": {\"checksum\": \"x\", \"language\": \"Python\", \"loc\": 1, \"measurements\": {}}}}}",
                 "{\"version\": \"%CUR%\", \"uuid\": \"u\", \"root\": \"/\", \"codebase\": {\"files\": {\"a.py\": {\"checksum\": \"x\", \"language\": \"Python\", \"loc\": 1, \"measurements\": \"\"}}}}",
                 "{\"version\": \"%CUR%\", \"uuid\": \"u\", \"root\": \"/\", \"codebase\": {\"files\": {\"a.py\": {\"checksum\": \"x\", \"language\": \"Python\", \"loc\": 1, \"measurements\": []}}}}",
                 "{\"version\": \"%CUR%\", \"uuid\": \"u\", \"root\": \"/\", \"codebase\": {\"files\": {\"a.py\": {\"checksum\": \"x\", \"language\": \"Python\", \"loc\": 1, \"measurements\": [1]}}}}",
                 "{\"version\": \"%CUR%\", \"uuid\": \"u\", \"root\": \"/\", \"codebase\": {\"files\": {\"a.py\": {\"checksum\": \"x\", \"language\": \"Python\", \"loc\": 1, \"measurements\": [\"start\"]}}}}",
                 "{\"version\": \"%CUR%\", \"uuid\": \"u\", \"root\": \"/\", \"codebase\": {\"files\": {\"a.py\": {\"checksum\": \"x\", \"language\": \"Python\", \"loc\": 1, \"measurements\": [{\"start\": \"line\", \"end\": {}, \"unit_name\": \"f\", \"value\": 1}]}}}}",
                 "{\"version\": \"%CUR%\", \"uuid\": \"u\", \"root\": \"/\", \"codebase\": {\"files\": {\"a.py\": {\"checksum\": \"x\", \"language\": [], \"loc\": 1, \"measurements\": []}}}}",
                 "{\"version\": \"%CUR%\", \"uuid\": \"u\", \"root\": \"/\", \"codebase\": {\"files\": {\"a.py\": {\"checksum\": \"x\", \"language\": null, \"loc\": 1.5, \"measurements\": []}}}}",
                 "{\"version\": \"%CUR%\", \"uuid\": \"u\", \"root\": \"/\", \"codebase\": {\"files\": {\"a.py\": {\"checksum\": [], \"language\": \"Python\", \"loc\": true, \"measurements\": []}}}}",
                 "{\"version\": \"%CUR%\", \"uuid\": \"u\", \"root\": \"/\", \"codebase\": {\"files\": {\"a.py\": {\"checksum\": \"x\", \"language\": \"Python\", \"loc\": NaN, \"measurements\": []}}}}",
                 "{\"version\": \"%CUR%\", \"uuid\": \"u\", \"root\": \"/\", \"codebase\": {\"files\": {\"a.py\": {\"checksum\": \"x\", \"language\": \"Python\", \"loc\": 1, \"measurements\": [], \"extra\": 1}, \"a.py\": {\"checksum\": \"y\", \"language\": \"C\", \"loc\": 2, \"measurements\": []}}}}",
                 "{\"version\": \"%CUR%\", \"uuid\": \"u\", \"root\": \"/\", \"codebase\": {\"files\": {\"a.py\": 5, \"a.py\": {\"checksum\": \"y\", \"language\": \"C\", \"loc\": 2, \"measurements\": []}}}}",
                 ]


def gen_documents(rnd, n):
    """-> list of (origin, text or None).  About n texts."""
    cur = cur_version()
    texts = [("missing", None)]
    texts += [("non-document", t.replace("%CUR%", cur)) for t in NON_DOCUMENTS]
    texts += [("non-document", t.replace("%CUR%", "0.0.1")) for t in NON_DOCUMENTS if "%CUR%" in t]
    per_doc = 160
    while len(texts) < n:
        spec = C08.gen_spec(rnd, nfiles=rnd.choice([0, 1, 1, 2, 2, 3, 5]))
        if rnd.random() < 0.7:
            spec["version"] = "default"       # the tool's version: the structural faults are then decided by the reader, not by the version test
        try:
            rep = C08.build_report(spec)
        except Exception:  # noqa: BLE001  (odd path: C07's business)
            continue
        pretty = C08.write_real(rep, True)
        compact = C08.write_real(rep, False)
        texts.append(("document", pretty))
        texts.append(("document-compact", compact))
        try:
            val = json.loads(pretty)
        except ValueError:
            continue
        k = 0
        small = len(json_paths(val)) <= 45
        for what, t in structural_variants(val, rnd, None if small and rnd.random() < 0.5 else per_doc // 2):
            texts.append((what, t)); k += 1
        for what, t in version_variants(val, cur):
            texts.append((what, t))
        if rnd.random() < 0.3:
            texts += odd_path_variants(val, rnd)
        # truncations of both forms
        for doc in (pretty, compact):
            m = len(doc)
            offs = range(m + 1) if (m <= 400 and rnd.random() < 0.3) else sorted({rnd.randrange(m) for _ in range(12)} | {0, 1, m - 1, m - 2, len(doc.rstrip())})
            for o in offs:
                texts.append(("truncated", doc[:o]))
        for _ in range(6):
            texts.append(("mutated", C08.mutate_text(rnd, pretty)))
        # trailing material
        texts.append(("trailing-ws", pretty + " \n\t\r"))
        texts.append(("trailing-junk", compact + " x"))
        texts.append(("leading-ws", "\n " + compact))
    return texts


class RealFile:
    """a real file on disk that is rewritten for every case"""

    def __init__(self):
        self.dir = tempfile.mkdtemp(prefix="gaps_doc_")
        from pathlib import Path
        self.path = Path(self.dir) / "codelimit.json"

    def put(self, text):
        if text is None:
            if self.path.exists():
                self.path.unlink()
        else:
            self.path.write_text(text, encoding="utf-8", newline="")

    def close(self):
        shutil.rmtree(self.dir, ignore_errors=True)


def pyval(w):
    """decode the driver's <json> into a comparable tagged value (floats by value)"""
    t = w.word()
    if t == "n":
        return ("null",)
    if t == "t":
        return ("bool", True)
    if t == "f":
        return ("bool", False)
    if t == "i":
        return ("int", w.int())
    if t == "r":
        return ("float", repr(float(w.str())))
    if t == "x":
        return ("float", ["nan", "inf", "-inf"][w.int()])
    if t == "s":
        return ("str", w.str())
    if t == "a":
        return ("list", tuple(pyval(w) for _ in range(w.int())))
    if t == "o":
        return ("dict", tuple((w.str(), pyval(w)) for _ in range(w.int())))
    raise ValueError("bad json word " + t)


def tag(v):
    """the same tagged form for a real Python value"""
    if v is None:
        return ("null",)
    if isinstance(v, bool):
        return ("bool", v)
    if isinstance(v, int):
        return ("int", v)
    if isinstance(v, float):
        return ("float", repr(v))
    if isinstance(v, str):
        return ("str", v)
    if isinstance(v, list):
        return ("list", tuple(tag(x) for x in v))
    if isinstance(v, dict):
        return ("dict", tuple((k, tag(x)) for k, x in v.items()))
    return ("object", repr(v))


def decode_ureport(w):
    d = {"version": pyval(w), "uuid": pyval(w), "root": pyval(w)}
    d["repository"] = (pyval(w), pyval(w), pyval(w), pyval(w)) if w.int() == 1 else None
    d["files"] = tuple(w.many(lambda: (w.str(), pyval(w), pyval(w), pyval(w),
                                       tuple(w.many(lambda: tuple(pyval(w) for _ in range(6)))))))
    return d


def real_ureport(rep):
    r = rep.repository
    return {
        "version": tag(rep.version), "uuid": tag(rep.uuid), "root": tag(rep.codebase.root),
        "repository": None if r is None else (tag(r.owner), tag(r.name), tag(r.branch), tag(r.tag)),
        "files": tuple((k, tag(e.checksum()), tag(e.language), tag(e.loc),
                        tuple((tag(m.unit_name), tag(m.start.line), tag(m.start.column), tag(m.end.line), tag(m.end.column), tag(m.value))
                              for m in e.measurements())) for k, e in rep.codebase.files.items()),
    }


def exc_class(e):
    if isinstance(e, json.JSONDecodeError):
        return "json"
    if isinstance(e, (KeyError, RecursionError)):
        return "key"
    if isinstance(e, (TypeError, AttributeError)):
        return "type"
    if isinstance(e, ValueError):
        return "json"
    return "other:" + type(e).__name__


def real_rversion(rf, text):
    """what `read_report` decides up to the version test, from get_report_version itself"""
    from codelimit.common.report.ReportReader import ReportReader
    from codelimit.common.report.Report import Report
    if text is None:
        return "noreport"
    try:
        v = ReportReader.get_report_version(rf.path.read_text())
    except Exception as e:  # noqa: BLE001
        return "raise " + exc_class(e)
    return "mismatch" if v != Report.VERSION else "match"


def real_read_report(rf):
    import typer
    from rich.console import Console
    from codelimit.utils import read_report
    buf = io.StringIO()
    con = Console(file=buf, force_terminal=False, width=200)
    try:
        rep = read_report(rf.path, con)
    except typer.Exit as e:
        msg = buf.getvalue()
        code = getattr(e, "exit_code", None)
        if "No cached report found" in msg and code == 1:
            return ("noreport",)
        if "Report version mismatch" in msg and code == 1:
            return ("mismatch",)
        return ("exit?", msg, code)
    except Exception as e:  # noqa: BLE001
        return ("raise", exc_class(e))
    return ("shown", real_ureport(rep))


def real_read_cached(rf):
    from codelimit.commands.scan import _read_cached_report
    try:
        rep = _read_cached_report(rf.path)
    except Exception as e:  # noqa: BLE001
        return ("escaped", type(e).__name__, str(e)[:100])
    return ("none",) if rep is None else ("ok", real_ureport(rep))


def real_wellformed(text):
    """`_is_well_formed` of what `from_json` returns, and the abstract class of the file"""
    from codelimit.commands.scan import _is_well_formed
    from codelimit.common.report.ReportReader import ReportReader
    try:
        json.loads(text)
    except (ValueError, RecursionError):
        return "noparse", None
    try:
        rep = ReportReader.from_json(text)
    except Exception as e:  # noqa: BLE001
        return "raise " + exc_class(e), None
    return ("ok 1" if _is_well_formed(rep) else "ok 0"), rep


def decode_model(reply, kind):
    w = C08.Words(reply)
    head = w.word()
    if kind == "readreport":
        if head in ("noreport", "mismatch"):
            return (head,)
        if head == "raise":
            return ("raise", w.word())
        if head == "shown":
            return ("shown", decode_ureport(w))
    if kind == "readcached":
        if head == "none":
            return ("none",)
        if head == "ok":
            return ("ok", decode_ureport(w))
    return ("undecodable", reply[:200])


def decode_abstract(reply):
    body, _, usable = reply.rpartition(" | ")
    w = C08.Words(body)
    head = w.word()
    if head in ("m", "ju", "ji"):
        return (head,), usable == "1"
    if head == "d":
        v = w.opt()
        rows = tuple(w.many(lambda: (w.str(), w.str(), w.str(), w.int(), tuple(w.many(lambda: (w.str(), w.int(), w.int(), w.int(), w.int(), w.int()))))))
        return ("d", v, rows), usable == "1"
    return ("undecodable", reply[:200]), None


def correspond_documents(rnd, n, driver):
    cur = cur_version()
    rf = RealFile()
    texts = []
    for origin, t in gen_documents(rnd, n):
        if t is not None:
            # lone surrogates cannot be in a UTF-8 file; the model gets the text as `read_text()` returns it (universal newlines)
            t = "".join("\u00e9" if 0xD800 <= ord(c) <= 0xDFFF else c for c in t)
            rf.put(t)
            t = rf.path.read_text()
        texts.append((origin, t))
    counts = {"texts": len(texts), "origins": {}, "item1_compared": 0, "item2_compared": 0,
              "rversion": {}, "readreport": {}, "readcached": {}, "wellformed": {}, "abstract": {}}
    dis = []
    reqs = []
    for origin, t in texts:
        o = "0" if t is None else "1 " + enc_str(t)
        reqs += ["g.rversion %s %s" % (enc_str(cur), o), "g.readreport %s %s" % (enc_str(cur), o),
                 "g.readcached %s %s" % (enc_str(cur), o), "g.abstract %s %s" % (enc_str(cur), o),
                 "g.wellformed " + enc_str(t or "")]
    model = run_driver(driver, reqs)
    try:
        for i, (origin, t) in enumerate(texts):
            counts["origins"][origin.split(":")[0]] = counts["origins"].get(origin.split(":")[0], 0) + 1
            m_rv, m_rr, m_rc, m_ab, m_wf = model[5 * i:5 * i + 5]
            rf.put(t)
            case = {"origin": origin, "text": t if t is None or len(t) < 600 else t[:600] + "..."}
            # ---- item 1
            r = real_rversion(rf, t)
            counts["rversion"][r] = counts["rversion"].get(r, 0) + 1
            counts["item1_compared"] += 1
            if r != m_rv:
                dis.append(dict(case, item=1, op="rversion", real=r, model=m_rv))
            r = real_read_report(rf)
            counts["readreport"][r[0] + (":" + r[1] if r[0] == "raise" else "")] = counts["readreport"].get(r[0] + (":" + r[1] if r[0] == "raise" else ""), 0) + 1
            counts["item1_compared"] += 1
            try:
                m = decode_model(m_rr, "readreport")
            except Exception as e:  # noqa: BLE001
                m = ("undecodable", repr(e), m_rr[:200])
            if r != m:
                dis.append(dict(case, item=1, op="readreport", real=repr(r)[:400], model=repr(m)[:400]))
            # ---- item 2
            r = real_read_cached(rf)
            counts["readcached"][r[0]] = counts["readcached"].get(r[0], 0) + 1
            counts["item2_compared"] += 1
            try:
                m = decode_model(m_rc, "readcached")
            except Exception as e:  # noqa: BLE001
                m = ("undecodable", repr(e), m_rc[:200])
            if r != m:
                dis.append(dict(case, item=2, op="readcached", real=repr(r)[:400], model=repr(m)[:400]))
            if t is not None:
                wf, rep = real_wellformed(t)
                counts["wellformed"][wf] = counts["wellformed"].get(wf, 0) + 1
                counts["item2_compared"] += 1
                if wf != m_wf:
                    dis.append(dict(case, item=2, op="wellformed", real=wf, model=m_wf))
            else:
                wf, rep = "missing", None
            # the abstraction: class, rows, usability
            try:
                a, usable = decode_abstract(m_ab)
            except Exception as e:  # noqa: BLE001
                a, usable = ("undecodable", repr(e), m_ab[:200]), None
            counts["abstract"][a[0]] = counts["abstract"].get(a[0], 0) + 1
            counts["item2_compared"] += 1
            want_class = "m" if t is None else "ju" if (wf == "noparse" or wf.startswith("raise")) else "ji" if wf == "ok 0" else "d"
            bad = None
            if a[0] != want_class:
                bad = "class %s, real behaviour says %s" % (a[0], want_class)
            elif usable != (r[0] == "ok"):
                bad = "abstract file usable=%s but the real _read_cached_report returned %s" % (usable, r[0])
            elif a[0] == "d":
                u = real_ureport(rep)
                rows = tuple((k, c[1], l[1], n_[1], tuple((mm[0][1],) + tuple(x[1] for x in mm[1:]) for mm in ms)) for k, c, l, n_, ms in u["files"])
                v = rep.version if isinstance(rep.version, str) else None
                if rows != a[2] or v != a[1]:
                    bad = "rows / version of the abstract document differ from the real report"
            if bad:
                dis.append(dict(case, item=2, op="abstract", real=bad, model=m_ab[:300]))
    finally:
        rf.close()
    return counts, dis


def byte_variants(rnd, doc):
    """byte-level variants of a written document: as is, CRLF / CR newlines, a BOM, raw UTF-8 inside strings, Latin-1 bytes,
    stray and truncated UTF-8 sequences"""
    b = doc.encode("utf-8")
    out = [("bytes-as-written", b), ("bytes-crlf", b.replace(b"\n", b"\r\n")), ("bytes-cr", b.replace(b"\n", b"\r")), ("bytes-bom", b"\xef\xbb\xbf" + b)]
    i = b.find(b'"uuid": "') + len(b'"uuid": "')
    for name, ins in [("raw-utf8", "é中😀".encode("utf-8")), ("latin1", b"caf\xe9"), ("stray-continuation", b"\x80"), ("overlong", b"\xc0\xaf"),
                      ("surrogate", b"\xed\xa0\x80"), ("truncated-seq", b"\xe2\x82"), ("above-max", b"\xf4\x90\x80\x80"), ("nul", b"\x00"),
                      ("raw-cr-in-string", b"\r"), ("nel", b"\xc2\x85"), ("ff-byte", b"\xff")]:
        out.append(("bytes-in-string:" + name, b[:i] + ins + b[i:]))
    for _ in range(4):
        j = rnd.randrange(len(b) + 1)
        out.append(("bytes-random-insert", b[:j] + bytes(rnd.randrange(128, 256) for _ in range(rnd.choice([1, 2, 3]))) + b[j:]))
    out.append(("bytes-cut-in-sequence", ("é" * 3).encode("utf-8")[:-1]))
    return out


def correspond_bytes(rnd, n, driver):
    from codelimit.commands.scan import _read_cached_report
    cur = cur_version()
    counts = {"byte_files": 0, "origins": {}, "classes": {}, "readreport": {}, "reusable": 0, "undecodable": 0}
    dis = []
    cases = [("missing", None)]
    while len(cases) < n:
        spec = C08.gen_spec(rnd, nfiles=rnd.choice([0, 1, 2]))
        if rnd.random() < 0.7:
            spec["version"] = "default"
        try:
            rep = C08.build_report(spec)
        except Exception:  # noqa: BLE001
            continue
        cases += byte_variants(rnd, C08.write_real(rep, rnd.random() < 0.7))
    reqs = ["g.cachebytes %s %s" % (enc_str(cur), "0" if b is None else "1 %d%s" % (len(b), "".join(" %d" % x for x in b))) for _, b in cases]
    model = run_driver(driver, reqs)
    rf = RealFile()
    try:
        for (origin, b), m in zip(cases, model):
            counts["byte_files"] += 1
            counts["origins"][origin] = counts["origins"].get(origin, 0) + 1
            if b is None:
                rf.put(None)
            else:
                rf.path.write_bytes(b)
            rc = real_read_cached(rf)
            rr = real_read_report(rf)
            if b is None:
                cls = "m"
            else:
                try:
                    text = rf.path.read_text()
                except UnicodeDecodeError:
                    text = None
                    counts["undecodable"] += 1
                if text is None:
                    cls = "ju"
                else:
                    wf, _ = real_wellformed(text)
                    cls = "ju" if (wf == "noparse" or wf.startswith("raise")) else "ji" if wf == "ok 0" else "d"
            head = rr[0] if rr[0] != "raise" else "raise " + rr[1]
            real = "%s %d %s" % (cls, 1 if rc[0] == "ok" else 0, head)
            counts["classes"][cls] = counts["classes"].get(cls, 0) + 1
            counts["readreport"][head] = counts["readreport"].get(head, 0) + 1
            counts["reusable"] += 1 if rc[0] == "ok" else 0
            if rc[0] == "escaped" or real != m:
                dis.append({"item": 2, "op": "cachebytes", "origin": origin, "bytes": None if b is None else list(b[:300]), "real": real if rc[0] != "escaped" else repr(rc), "model": m})
    finally:
        rf.close()
    return counts, dis


# ====================================================================== item 3: what `check` prints

NAME_ALPHABET = list("abcxyzABZ019_-.") + list("[]() {}:'\"\\*#%~+=,;!@&^`|<>?$") + list("éüßñΩжשع中文日本한😀✨\u200b\u00a0\u0301")
COMPONENT_POOL = ["src", "pkg", "a", "b", "lib", "[id]", "[bold]x[/bold]", "my dir", "é", "中文", "x y", "a:b", ":sparkles:", "..x", "x..", "-n",
                  "a'b", 'q"q', "back\\slash", "{k}", "100%", "~", "*", "#h", "[/]", "[red]", "ü ñ", "😀", "tests2", "build_", "(1)"]
FILE_EXT = [".py", ".js", ".c", ".java", ".ts", ".cs", ".cpp", ".h"]
UNIT_NAMES = ["f", "main", "doIt", "K::f", "f[1]", ":sparkles:", "[bold]", "名前", "x y", "é", "_", "a.b", "operator()", "~K", "$", "λ"]


def gen_component(rnd):
    if rnd.random() < 0.6:
        return rnd.choice(COMPONENT_POOL)
    n = rnd.choice([1, 1, 2, 3, 5, 9])
    c = "".join(rnd.choice(NAME_ALPHABET) for _ in range(n))
    if c in (".", "..") or c.startswith("."):
        c = "x" + c
    return c


def gen_measurements(rnd):
    k = rnd.choice([0, 0, 1, 1, 2, 3, 5])
    out = []
    for j in range(k):
        v = rnd.choice([1, 15, 16, 30, 31, 31, 32, 45, 60, 61, 61, 62, 100, 999, 1000, 12345]) if rnd.random() < 0.8 else rnd.randint(0, 90)
        out.append((rnd.choice(UNIT_NAMES) if rnd.random() < 0.8 else gen_component(rnd), rnd.choice([1, 2, 10, 999, 100000]), rnd.choice([1, 5, 80, 4000]), v))
    return out


def enc_path(comps):
    return "%d%s" % (len(comps), "".join(" " + enc_str(c) for c in comps))


def path_parts(p):
    """(is_absolute, components) of a pathlib.Path as the model sees it; None for `//x` roots"""
    if p.is_absolute():
        if p.root != "/" or p.drive:
            return None
        return True, list(p.parts[1:])
    return False, list(p.parts)


def model_request(quiet, cwd, added):
    """added = [(Path, [(name, sl, sc, value)])] in the order of CheckResult.add"""
    files = []
    for p, ms in added:
        ab, comps = path_parts(p)
        files.append("%d %s %d%s" % (1 if ab else 0, enc_path(comps), len(ms), "".join(" %s %d %d %d" % (enc_str(n), sl, sc, v) for n, sl, sc, v in ms)))
    cwd_comps = [c for c in cwd.split("/") if c]
    return "g.checkprint %d %s %d%s" % (1 if quiet else 0, enc_path(cwd_comps), len(files), "".join(" " + f for f in files))


def decode_lines(reply):
    w = C08.Words(reply)
    if w.word() != "ok":
        return None, None
    code = w.int()
    return code, w.many(w.str)


@contextlib.contextmanager
def wide_console():
    old = os.environ.get("COLUMNS")
    os.environ["COLUMNS"] = "4000"      # rich.print wraps the summary line at the console width; the model has logical lines
    try:
        yield
    finally:
        if old is None:
            os.environ.pop("COLUMNS", None)
        else:
            os.environ["COLUMNS"] = old


def real_report(added):
    """CheckResult.add for every (Path, measurements-after-risk-selection), then report() -> printed lines"""
    from codelimit.common.CheckResult import CheckResult
    from codelimit.common.Location import Location
    from codelimit.common.Measurement import Measurement
    cr = CheckResult()
    for p, ms in added:
        risks = sorted([Measurement(n, Location(sl, sc), Location(sl, sc), v) for n, sl, sc, v in ms if v > 30], key=lambda m: m.value, reverse=True)
        cr.add(p, risks)
    buf = io.StringIO()
    with wide_console(), contextlib.redirect_stdout(buf):
        cr.report()
    return buf.getvalue().split("\n")[:-1]


def real_check_command(args, quiet, table):
    """the real check_command in the current directory; `scan_file` is stubbed to return `table[resolved path]`
    -> (exit code, printed lines, [(Path handed to CheckResult.add, measurements before risk selection)])"""
    import typer
    from pathlib import Path
    from codelimit.commands import check as checkmod
    from codelimit.common.CheckResult import CheckResult
    from codelimit.common.Location import Location
    from codelimit.common.Measurement import Measurement
    current = {}
    added = []
    saved = (checkmod.scan_file, checkmod.lex, checkmod._read_file, checkmod.check_file, CheckResult.add)

    def check_file(path, cr):
        current["p"] = path
        return saved[3](path, cr)

    def scan_file(tokens, language):
        ms = table.get(os.path.realpath(str(current["p"])), [])
        current["ms"] = ms
        return [Measurement(n, Location(sl, sc), Location(sl, sc), v) for n, sl, sc, v in ms]

    def add(self, file, measurements):
        added.append((file, current.get("ms", [])))
        return saved[4](self, file, measurements)
    checkmod.check_file, checkmod.scan_file, checkmod.lex, checkmod._read_file = check_file, scan_file, (lambda lexer, code, fc=True: []), (lambda path: "")
    CheckResult.add = add
    buf = io.StringIO()
    code, err = None, None
    try:
        with wide_console(), contextlib.redirect_stdout(buf):
            try:
                checkmod.check_command([Path(a) for a in args], quiet)
            except typer.Exit as e:
                code = e.exit_code
            except Exception as e:  # noqa: BLE001
                err = "%s: %s" % (type(e).__name__, e)
    finally:
        checkmod.scan_file, checkmod.lex, checkmod._read_file, checkmod.check_file, CheckResult.add = saved
    return code, buf.getvalue().split("\n")[:-1], added, err


def make_tree(rnd, base):
    """a real directory tree with odd names below `base`; -> (root, dirs, files) with absolute paths"""
    root = os.path.join(base, gen_component(rnd))
    dirs, files = [root], []
    os.makedirs(root, exist_ok=True)
    for _ in range(rnd.choice([1, 2, 3, 4])):
        d = rnd.choice(dirs)
        if d.count("/") - root.count("/") >= 3:
            continue
        nd = os.path.join(d, gen_component(rnd))
        try:
            os.makedirs(nd, exist_ok=True)
        except OSError:
            continue
        if nd not in dirs:
            dirs.append(nd)
    for _ in range(rnd.choice([1, 2, 3, 5, 7])):
        d = rnd.choice(dirs)
        f = os.path.join(d, gen_component(rnd) + rnd.choice(FILE_EXT))
        try:
            with open(f, "w") as fh:
                fh.write("")
        except OSError:
            continue
        if f not in files:
            files.append(f)
    return root, dirs, files


def correspond_print(rnd, n, driver):
    counts = {"check_command_runs": 0, "report_runs": 0, "lines_compared": 0, "measurement_lines": 0, "cwd_kinds": {}, "arg_kinds": {},
              "paths_printed_relative": 0, "paths_printed_as_given": 0, "nonascii_or_markup_paths": 0, "quiet_silent": 0, "skipped": 0,
              "real_errors": 0}
    dis = []
    base = os.path.realpath(tempfile.mkdtemp(prefix="gaps_chk_"))
    old_cwd = os.getcwd()
    pending = []          # (kind, case description, request, real code, real lines)
    try:
        # ---- (A) the real check_command on real trees
        target_a = max(1, n // 4)
        while counts["check_command_runs"] < target_a:
            root, dirs, files = make_tree(rnd, os.path.join(base, "t%d" % rnd.randrange(10 ** 9)))
            table = {os.path.realpath(f): gen_measurements(rnd) for f in files}
            outside = os.path.join(base, "elsewhere")
            os.makedirs(outside, exist_ok=True)
            for _ in range(12):
                kind = rnd.choice(["root", "root", "sub", "parent", "outside"])
                cwd = {"root": root, "sub": rnd.choice(dirs), "parent": os.path.dirname(root), "outside": outside}[kind]
                os.chdir(cwd)
                args, akinds = [], []
                for _ in range(rnd.choice([1, 1, 2, 3])):
                    t = rnd.choice(files + dirs)
                    form = rnd.choice(["abs", "rel", "rel", "dotdot", "absdotdot"])
                    if form == "abs":
                        a = t
                    elif form == "rel":
                        a = os.path.relpath(t, cwd)
                    elif form == "dotdot":
                        a = os.path.join("..", os.path.basename(cwd), os.path.relpath(t, cwd)) if cwd != "/" else os.path.relpath(t, cwd)
                    else:
                        a = os.path.join(cwd, "..", os.path.relpath(t, os.path.dirname(cwd)))
                    args.append(a); akinds.append(form + ("-dir" if t in dirs else "-file"))
                quiet = rnd.random() < 0.25
                code, lines, added, err = real_check_command(args, quiet, table)
                if err is not None:
                    counts["real_errors"] += 1
                    dis.append({"item": 3, "op": "check_command", "cwd": cwd, "args": args, "real": err, "model": "(the model has no exceptions)"})
                    continue
                if any(path_parts(p) is None for p, _ in added):
                    counts["skipped"] += 1
                    continue
                counts["check_command_runs"] += 1
                counts["cwd_kinds"][kind] = counts["cwd_kinds"].get(kind, 0) + 1
                for k in akinds:
                    counts["arg_kinds"][k] = counts["arg_kinds"].get(k, 0) + 1
                pending.append(("check_command", {"cwd": cwd, "args": args, "quiet": quiet, "added": [(str(p), ms) for p, ms in added]},
                                model_request(quiet, cwd, added), code, lines))
            os.chdir(old_cwd)
        # ---- (B) CheckResult.add / report() with synthetic paths (the files need not exist), real working directories
        cwds = []
        for i in range(12):
            d = os.path.join(base, "cwd%d" % i, *[gen_component(rnd) for _ in range(rnd.choice([0, 1, 2, 3]))])
            try:
                os.makedirs(d, exist_ok=True)
                cwds.append(d)
            except OSError:
                pass
        cwds.append("/")
        while counts["report_runs"] < n - target_a:
            cwd = rnd.choice(cwds)
            os.chdir(cwd)
            from pathlib import Path
            added = []
            for _ in range(rnd.choice([0, 1, 1, 2, 3, 4])):
                comps = [gen_component(rnd) for _ in range(rnd.choice([1, 1, 2, 3, 4]))]
                comps[-1] += rnd.choice(FILE_EXT)
                for _ in range(rnd.choice([0, 0, 0, 1, 2])):
                    comps.insert(rnd.randrange(len(comps)), "..")
                form = rnd.choice(["rel", "below", "below", "abs", "sibling", "prefixname"])
                if form == "rel":
                    p = Path(*comps)
                elif form == "below":
                    p = Path(cwd, *comps)
                elif form == "abs":
                    p = Path("/", *comps)
                elif form == "sibling":
                    p = Path(os.path.dirname(cwd), *comps)
                else:
                    p = Path(cwd + "x", *comps)       # a name that extends the cwd's last component is not below the cwd
                added.append((p, gen_measurements(rnd)))
            lines = real_report(added)
            counts["report_runs"] += 1
            pending.append(("report", {"cwd": cwd, "added": [(str(p), ms) for p, ms in added]}, model_request(False, cwd, added), None, lines))
        os.chdir(old_cwd)
    finally:
        os.chdir(old_cwd)
        shutil.rmtree(base, ignore_errors=True)
    replies = run_driver(driver, [q for _, _, q, _, _ in pending])
    for (kind, case, _q, code, lines), reply in zip(pending, replies):
        mcode, mlines = decode_lines(reply)
        counts["lines_compared"] += len(lines)
        counts["measurement_lines"] += max(0, len(lines) - 1)
        if kind == "check_command" and not lines:
            counts["quiet_silent"] += 1
        for l in lines[:-1]:
            if any(ord(c) > 126 or c in "[]" for c in l.split(":")[0]):
                counts["nonascii_or_markup_paths"] += 1
        cwd = case["cwd"]
        for ps, _ in case["added"]:
            if ps.startswith(cwd.rstrip("/") + "/"):
                counts["paths_printed_relative"] += 1
            else:
                counts["paths_printed_as_given"] += 1
        if mlines is None or lines != mlines or (kind == "check_command" and code != mcode):
            j = next((k for k, (a, b) in enumerate(zip(lines, mlines or [])) if a != b), min(len(lines), len(mlines or [])))
            dis.append({"item": 3, "op": kind, "case": case, "real_code": code, "model_code": mcode,
                        "first_difference": {"index": j, "real": lines[j] if j < len(lines) else None, "model": (mlines or [None] * (j + 1))[j] if mlines and j < len(mlines) else None},
                        "real_lines": lines[:8], "model_lines": (mlines or [reply[:200]])[:8]})
    return counts, dis


# ====================================================================== item 4: Scanner._read_file

VALID_SNIPPETS = [b"", b"a", b"def f():\n    return 1\n", "é".encode(), "中文".encode(), "😀".encode(), "\ufeffx".encode(), "\u0000".encode(), "\u007f\u0080\u07ff\u0800\uffff".encode(),
                  "\U00010000\U0010ffff".encode(), "\ud7ff\ue000".encode(), b"\r", b"\r\n", b"\n\r", b"\r\r\n", b"a\rb", b"a\r\nb", b"\n", "\u0085\u2028\u2029\x0b\x0c\x1c".encode(),
                  "# -*- coding: latin-1 -*-\n".encode(), "x = 'é'\r\n".encode()]
INVALID_SNIPPETS = [b"\x80", b"\xbf", b"\xc0\x80", b"\xc1\xbf", b"\xc2", b"\xc2\x41", b"\xe0\x80\x80", b"\xe0\x9f\xbf", b"\xe0\xa0", b"\xed\xa0\x80", b"\xed\xbf\xbf",
                    b"\xf0\x80\x80\x80", b"\xf0\x8f\xbf\xbf", b"\xf4\x90\x80\x80", b"\xf5\x80\x80\x80", b"\xff", b"\xfe\xff", b"\xff\xfe", b"\xe9", b"caf\xe9", b"\xe2\x82",
                    b"\xf0\x9f\x98", b"\xe2\x28\xa1", b"\xc3\x28", b"\xf8\x88\x80\x80\x80", b"\xef\xbb", b"\r\xe9\r\n", b"\x85", b"\xa0\r"]
BOUNDARY_BYTES = [0x00, 0x0A, 0x0D, 0x7F, 0x80, 0x8F, 0x90, 0x9F, 0xA0, 0xBF, 0xC0, 0xC1, 0xC2, 0xDF, 0xE0, 0xE1, 0xEC, 0xED, 0xEE, 0xEF, 0xF0, 0xF1, 0xF3, 0xF4, 0xF5, 0xFF, 0x41]


def gen_bytes(rnd):
    r = rnd.random()
    if r < 0.25:       # boundary-biased raw bytes (mostly invalid)
        return bytes(rnd.choice(BOUNDARY_BYTES) for _ in range(rnd.choice([1, 2, 3, 4, 5, 8])))
    if r < 0.35:       # uniformly random bytes
        return bytes(rnd.randrange(256) for _ in range(rnd.choice([1, 2, 3, 6, 20])))
    parts = []
    for _ in range(rnd.choice([1, 2, 3, 5, 8])):
        q = rnd.random()
        if q < 0.45:
            parts.append(rnd.choice(VALID_SNIPPETS))
        elif q < 0.6:
            parts.append(rnd.choice(INVALID_SNIPPETS))
        elif q < 0.8:
            cp = rnd.choice([rnd.randrange(0x80), rnd.randrange(0x80, 0x800), rnd.randrange(0x800, 0xD800), rnd.randrange(0xE000, 0x10000),
                             rnd.randrange(0x10000, 0x110000), 0x7F, 0x80, 0x7FF, 0x800, 0xFFFF, 0x10000, 0x10FFFF, 0xFEFF, 0xD7FF, 0xE000])
            parts.append(chr(cp).encode("utf-8"))
        elif q < 0.9:
            parts.append(rnd.choice([b"\r", b"\r\n", b"\n", b"\r\r", b"\n\n"]))
        else:      # a valid sequence cut short or with one byte changed
            b = bytearray(chr(rnd.choice([0xE9, 0x20AC, 0x1F600, 0x800, 0x10000])).encode("utf-8"))
            if rnd.random() < 0.5:
                b = b[:-1]
            else:
                b[rnd.randrange(len(b))] = rnd.choice(BOUNDARY_BYTES)
            parts.append(bytes(b))
    return b"".join(parts)


def correspond_decode(rnd, n, driver):
    import locale
    from pathlib import Path
    from codelimit.common import Scanner
    from codelimit.commands import check as checkmod
    counts = {"cases": 0, "valid_utf8": 0, "latin1_fallback": 0, "with_cr": 0, "with_bom": 0, "same_function_in_check": checkmod._read_file is Scanner._read_file,
              "preferred_encoding": locale.getpreferredencoding(False), "core_utf8_agrees": 0, "max_len": 0, "exhaustive_1_2_bytes": 0}
    dis = []
    if counts["preferred_encoding"].lower().replace("-", "") != "utf8":
        dis.append({"item": 4, "op": "assumption", "real": "preferred encoding is %s" % counts["preferred_encoding"], "model": "UTF-8 assumed"})
    cases = [bytes([a]) for a in range(256)] + [bytes([a, b]) for a in BOUNDARY_BYTES + [0xC3, 0xE2, 0xF0] for b in range(256)]
    cases += [bytes([a, b, c]) for a in [0xE0, 0xED, 0xEF, 0xE1, 0xF0, 0xF4] for b in BOUNDARY_BYTES for c in BOUNDARY_BYTES]
    cases += [bytes([a, b, c, d]) for a in [0xF0, 0xF4, 0xF1, 0xF5] for b in BOUNDARY_BYTES for c in [0x7F, 0x80, 0xBF, 0xC0] for d in [0x7F, 0x80, 0xBF, 0xC0]]
    counts["exhaustive_1_2_bytes"] = len(cases)
    cases += VALID_SNIPPETS + INVALID_SNIPPETS
    while len(cases) < n:
        cases.append(gen_bytes(rnd))
    d = tempfile.mkdtemp(prefix="gaps_dec_")
    path = Path(d) / "f.py"
    reals = []
    try:
        for b in cases:
            path.write_bytes(b)
            try:
                t1 = Scanner._read_file(path)
                t2 = checkmod._read_file(path)
            except Exception as e:  # noqa: BLE001
                reals.append(("raise", "%s: %s" % (type(e).__name__, e)))
                continue
            try:
                b.decode("utf-8")
                valid = True
            except UnicodeDecodeError:
                valid = False
            reals.append(("ok", valid, t1, t2))
    finally:
        shutil.rmtree(d, ignore_errors=True)
    replies = run_driver(driver, ["g.readfile %d%s" % (len(b), "".join(" %d" % x for x in b)) for b in cases])
    for b, real, reply in zip(cases, reals, replies):
        counts["cases"] += 1
        counts["max_len"] = max(counts["max_len"], len(b))
        if real[0] != "ok":
            dis.append({"item": 4, "op": "_read_file", "bytes": list(b), "real": real[1], "model": reply[:200]})
            continue
        _, valid, t1, t2 = real
        counts["valid_utf8" if valid else "latin1_fallback"] += 1
        counts["with_cr"] += 1 if b"\r" in b else 0
        counts["with_bom"] += 1 if b.startswith(b"\xef\xbb\xbf") else 0
        w = C08.Words(reply)
        ok = w.word() == "ok"
        mvalid = w.int() == 1 if ok else None
        mtext = w.str() if ok else None
        agree = w.int() == 1 if ok else None
        counts["core_utf8_agrees"] += 1 if agree else 0
        if not ok or mvalid != valid or mtext != t1 or t1 != t2 or not agree:
            dis.append({"item": 4, "op": "_read_file", "bytes": list(b), "real": {"valid_utf8": valid, "scan_text": [ord(c) for c in t1], "check_text": [ord(c) for c in t2]},
                        "model": {"valid_utf8": mvalid, "text": None if mtext is None else [ord(c) for c in mtext], "lean_core_agrees": agree}})
    return counts, dis


# ====================================================================== driver

def correspond(rnd, n, driver=DEFAULT_DRIVER, items=(1, 2, 3, 4)):
    counts, dis = {}, []
    if 1 in items or 2 in items:
        c, d = correspond_documents(rnd, n, driver)
        counts["documents"] = c
        dis += d
        c, d = correspond_bytes(rnd, max(200, n // 5), driver)
        counts["document_bytes"] = c
        dis += d
    if 3 in items and "correspond_print" in globals():
        c, d = globals()["correspond_print"](rnd, n, driver)
        counts["print"] = c
        dis += d
    if 4 in items and "correspond_decode" in globals():
        c, d = globals()["correspond_decode"](rnd, n, driver)
        counts["decode"] = c
        dis += d
    return {"counts": counts, "disagreements": dis}


def main():
    ap = argparse.ArgumentParser()
    ap.add_argument("-n", type=int, default=20000)
    ap.add_argument("--seed", type=int, default=0)
    ap.add_argument("--driver", default=DEFAULT_DRIVER)
    ap.add_argument("--items", default="1,2,3,4")
    ap.add_argument("--json", default=None)
    a = ap.parse_args()
    rnd = random.Random(a.seed)
    res = correspond(rnd, a.n, a.driver, tuple(int(x) for x in a.items.split(",")))
    out = {"counts": res["counts"], "n_disagreements": len(res["disagreements"]), "disagreements": res["disagreements"][:30]}
    text = json.dumps(out, indent=1, default=str)
    if a.json:
        with open(a.json, "w") as f:
            f.write(text)
    print(text if len(text) < 20000 else text[:20000] + "\n...")
    sys.exit(1 if res["disagreements"] else 0)


if __name__ == "__main__":
    main()


def for_check(ctx, items, n, what):
    """-> (disagreement records in the shape harness/main.py expects, distribution entry) for a property module"""
    res = correspond(ctx.rng("gaps-%s" % what), n, DEFAULT_DRIVER, items)
    dis = []
    for d in res["disagreements"][:20]:
        d = dict(d) if isinstance(d, dict) else {"what": str(d)}
        dis.append({"stream": "gaps/%s" % d.get("stream", what), "input": d.get("input", {k: v for k, v in d.items() if k not in ("model", "impl", "real")}),
                    "model": str(d.get("model"))[:300], "impl": str(d.get("impl", d.get("real")))[:300]})
    return dis, res["counts"]
