"""Round-6 mechanism shared by C07 and C19: SCAN / EDIT / SCAN HISTORIES on real source trees on disk.

A working tree is a dict  relative path -> (language, function lengths, bytes).  The sources are written so that the
function lengths are known BY CONSTRUCTION (a function of length v spans exactly v lines of code), so the truth a scan
has to report - files, languages, measurements, profiles, shares - is computed here, independently of codelimit.

 * `source(lang, lengths, tag)`   - a source file with functions of exactly these lengths (unique names: unique bytes)
 * `DiskTree`                     - the tree on disk + its truth; edits: add / add-empty / remove / copy / move / modify /
                                    touch / exclude (a `.gitignore` line) / remove-dir; every edit keeps the truth current
 * `gen_rounds(rnd, tree)`        - a history: rounds of 1..3 edits, a scan after every round
 * `scan_command_output(root)`    - `codelimit scan` as scan_command runs it, stdout captured
 * `scan_with_cache(root, cached)` - the Codebase Scanner.scan_path produces when it is given the previous report
"""
import contextlib
import io
import os
import shutil

LANGS = {"py": "Python", "js": "JavaScript", "c": "C", "java": "Java", "ts": "TypeScript"}
DIRS = ["", "app", "app/core", "app/web", "plug", "plug/text", "svc/api/v1", "tools"]
STEMS = ["main", "engine", "text", "util", "view", "model", "release", "setup", "__init__", "index", "conf"]
NON_SOURCE = ["README.md", "data.txt", "notes.rst", "Makefile.in", "image.bin"]


def source(lang_ext, lengths, tag):
    """functions of exactly the given lengths (each >= 2), separated by blank lines and a comment line; `tag` makes
    the function names - hence the bytes and the checksum - unique"""
    out = []
    if lang_ext == "py":
        for i, v in enumerate(lengths):
            out.append("def f_%s_%d():\n" % (tag, i) + "".join("    x%d = %d\n" % (j, j) for j in range(v - 1)))
            out.append("\n# between\n\n")
    elif lang_ext in ("js", "ts"):
        for i, v in enumerate(lengths):
            out.append("function f_%s_%d() {\n" % (tag, i) + "".join("  var x%d = %d;\n" % (j, j) for j in range(v - 2)) + "}\n")
            out.append("\n// between\n\n")
    elif lang_ext == "c":
        for i, v in enumerate(lengths):
            out.append("void f_%s_%d() {\n" % (tag, i) + "".join("  int x%d = %d;\n" % (j, j) for j in range(v - 2)) + "}\n")
            out.append("\n/* between */\n\n")
    elif lang_ext == "java":
        out.append("class K_%s {\n\n" % tag)
        for i, v in enumerate(lengths):
            out.append("  void f%d() {\n" % i + "".join("    int x%d = %d;\n" % (j, j) for j in range(v - 2)) + "  }\n")
            out.append("\n  // between\n\n")
        out.append("}\n")
    else:
        raise ValueError(lang_ext)
    return "".join(out).encode()


def gen_length(rnd):
    r = rnd.random()
    if r < 0.6:
        return rnd.choice([2, 5, 14, 15, 16, 17, 29, 30, 31, 32, 59, 60, 61, 62])
    if r < 0.95:
        return rnd.randint(2, 70)
    return rnd.randint(71, 200)


def gen_lengths(rnd):
    return [gen_length(rnd) for _ in range(rnd.choice([0, 1, 1, 2, 3, 4]))]


class DiskTree:
    def __init__(self, root, rnd, exts=("py",)):
        self.root = root
        self.rnd = rnd
        self.exts = list(exts)
        self.files = {}        # rel -> (language, lengths, bytes)
        self.ignored = []      # .gitignore lines
        self.others = set()
        self.n = 0
        self.log = []

    # ---- truth
    def scanned(self):
        """the files a scan has to report: [(rel, language, loc, lengths)] - everything but what .gitignore names"""
        ign = {l[1:] for l in self.ignored}
        return [(rel, lang, sum(ls), list(ls)) for rel, (lang, ls, _b) in sorted(self.files.items())
                if rel not in ign and not any(rel.startswith(i.rstrip("/") + "/") for i in ign)]

    def lengths(self):
        return [v for (_r, _l, _loc, ls) in self.scanned() for v in ls]

    # ---- disk
    def _write(self, rel, data):
        p = os.path.join(self.root, rel)
        os.makedirs(os.path.dirname(p), exist_ok=True)
        with open(p, "wb") as f:
            f.write(data)

    def _fresh_rel(self, ext=None, stem=None):
        for _ in range(200):
            d = self.rnd.choice(DIRS)
            e = ext or self.rnd.choice(self.exts)
            s = stem or self.rnd.choice(STEMS)
            if self.rnd.random() < 0.3 and s != "__init__":
                s += "_v%d" % self.rnd.randint(1, 9)
            rel = (d + "/" if d else "") + s + "." + e
            # no file where a folder is, no folder where a file is
            if rel in self.files or any(f.startswith(rel + "/") for f in self.files) or any(rel.startswith(f + "/") for f in self.files):
                continue
            return rel
        raise RuntimeError("no free name")

    # ---- edits: each PLANS a step (or None when it does not apply); `apply` carries a step out (also used by replays)
    def add(self, lengths=None, ext=None, stem=None):
        rel = self._fresh_rel(ext, stem)
        return ["add", rel, gen_lengths(self.rnd) if lengths is None else list(lengths)]

    def add_twin(self):
        """CASE TWIN: a new file whose path differs from an existing file's path only in the letter case of a folder name or of
        the stem (src/Util.py next to src/util.py, App/main.py next to app/main.py): two files on a case-sensitive file system"""
        import h4_round7 as r7
        if not self.files:
            return None
        rel = r7.case_twin(self.rnd.choice(sorted(self.files)), self.rnd)
        if rel is None or not self._free(rel):
            return None
        return ["add", rel, gen_lengths(self.rnd) or [self.rnd.choice([3, 20, 45, 70])], "case-twin"]

    def _free(self, rel):
        return not (rel in self.files or rel in self.others or any(f.startswith(rel + "/") for f in self.files) or any(rel.startswith(f + "/") for f in self.files)
                    or any(rel.startswith(o + "/") for o in self.others))

    def add_empty(self):
        return self.add([], stem=self.rnd.choice(["__init__", "__init__", "empty", "stub"]))

    def add_other(self):
        name = self.rnd.choice(NON_SOURCE)
        d = self.rnd.choice(DIRS)
        rel = (d + "/" if d else "") + name
        if rel in self.files or any(f.startswith(rel + "/") for f in self.files):
            return None
        return ["add-other", rel]

    def remove(self):
        return ["remove", self.rnd.choice(sorted(self.files))] if self.files else None

    def remove_dir(self):
        tops = sorted({f.split("/")[0] for f in self.files if "/" in f})
        return ["remove-dir", self.rnd.choice(tops)] if tops else None

    def copy(self, move=False):
        if not self.files:
            return None
        src = self.rnd.choice(sorted(self.files))
        ext = src.rsplit(".", 1)[1]
        stem = os.path.basename(src).rsplit(".", 1)[0] if self.rnd.random() < 0.6 else None
        try:
            dst = self._fresh_rel(ext, stem)
        except RuntimeError:
            return None
        if self.rnd.random() < 0.15:     # CASE TWIN as the destination (a pure change of letter case when it is a move)
            import h4_round7 as r7
            tw = r7.case_twin(src, self.rnd)
            if tw is not None and self._free(tw):
                dst = tw
        return ["move" if move else "copy", src, dst]

    def move(self):
        return self.copy(move=True)

    def modify(self):
        if not self.files:
            return None
        return ["modify", self.rnd.choice(sorted(self.files)), gen_lengths(self.rnd) or [self.rnd.choice([3, 20, 45, 70])]]

    def touch(self):
        if not self.files:
            return None
        return ["touch", self.rnd.choice(sorted(self.files)), self.rnd.choice([-86400 * 400, -3600, 5, 86400])]

    def exclude(self):
        """a new `.gitignore` line `/<path>` naming one file (or one top folder): it leaves the scanned set, nothing else changes"""
        cands = [r for (r, _l, _c, _m) in self.scanned()]
        if not cands:
            return None
        rel = self.rnd.choice(cands)
        if "/" in rel and self.rnd.random() < 0.3:
            rel = rel.split("/")[0] + "/"
        return ["exclude", "/" + rel]

    def apply(self, step):
        kind = step[0]
        if kind == "add":
            rel, ls = step[1], list(step[2])
            ext = rel.rsplit(".", 1)[1]
            self.n += 1
            data = source(ext, ls, "t%d" % self.n) if ls else b""
            self.files[rel] = (LANGS[ext], ls, data)
            self._write(rel, data)
        elif kind == "add-other":
            self._write(step[1], b"def not_source():\n    pass\n" * 3)
            self.others.add(step[1])
        elif kind == "remove":
            os.remove(os.path.join(self.root, step[1]))
            del self.files[step[1]]
        elif kind == "remove-dir":
            d = step[1]
            shutil.rmtree(os.path.join(self.root, d))
            for f in [f for f in self.files if f.startswith(d + "/")]:
                del self.files[f]
            self.others = {o for o in self.others if not o.startswith(d + "/")}
        elif kind in ("copy", "move"):
            src, dst = step[1], step[2]
            lang, ls, data = self.files[src]
            self._write(dst, data)
            self.files[dst] = (lang, list(ls), data)
            if kind == "move":
                os.remove(os.path.join(self.root, src))
                del self.files[src]
        elif kind == "modify":
            rel, new = step[1], list(step[2])
            ext = rel.rsplit(".", 1)[1]
            self.n += 1
            data = source(ext, new, "t%d" % self.n)
            self.files[rel] = (self.files[rel][0], new, data)
            self._write(rel, data)
        elif kind == "touch":
            p = os.path.join(self.root, step[1])
            st = os.stat(p)
            os.utime(p, (st.st_atime + step[2], st.st_mtime + step[2]))
        elif kind == "exclude":
            self.ignored.append(step[1])
            with open(os.path.join(self.root, ".gitignore"), "w") as f:
                f.write("".join(l + "\n" for l in self.ignored))
        else:
            raise ValueError(kind)
        self.log.append(list(step))

    EDITS = ["add", "add", "add_twin", "add_twin", "add_empty", "add_other", "remove", "remove", "remove", "remove_dir", "copy", "copy", "move", "move",
             "modify", "touch", "exclude"]

    def edit(self, name=None):
        for _ in range(20):
            n = name or self.rnd.choice(self.EDITS)
            r = getattr(self, n)()
            if r is not None:
                self.apply(r)
                return r
        return None


def start_tree(root, rnd, exts=("py",)):
    t = DiskTree(root, rnd, exts)
    for _ in range(rnd.choice([1, 2, 3, 4, 5])):
        t.edit("add")
    if rnd.random() < 0.3:
        t.edit("add_twin")
    if rnd.random() < 0.6:
        t.edit("add_empty")
    if rnd.random() < 0.4:
        t.edit("add_other")
    return t


def replay_tree(root, steps, observe):
    """carry out a recorded history; `observe(tree, step)` is called for the steps that are not edits (scan, report, ...)"""
    import random
    t = DiskTree(root, random.Random(0))
    for st in steps:
        if st[0] in ("add", "add-other", "remove", "remove-dir", "copy", "move", "modify", "touch", "exclude"):
            t.apply(st)
        else:
            t.log.append(list(st))
            observe(t, st)
    return t


def do_round(tree, rnd, k=None):
    """1..3 edits; every third round is ONE edit of one kind (pure remove / pure copy / pure move / pure exclude ...)"""
    if k is not None and k % 3 == 0:
        kinds = ["remove", "copy", "move", "exclude", "remove_dir", "add_empty", "touch", "add", "modify", "add_twin"]
        return [tree.edit(kinds[(k // 3) % len(kinds)])]
    return [tree.edit() for _ in range(rnd.choice([1, 1, 2, 3]))]


# ------------------------------------------------------------------ the real code

@contextlib.contextmanager
def columns(width):
    old = os.environ.get("COLUMNS")
    os.environ["COLUMNS"] = str(width)
    try:
        yield
    finally:
        if old is None:
            os.environ.pop("COLUMNS", None)
        else:
            os.environ["COLUMNS"] = old


def scan_command_output(root, width=200):
    """what `codelimit scan <root>` prints (scan_command in this process, stdout captured)"""
    from pathlib import Path
    from codelimit.commands.scan import scan_command
    buf = io.StringIO()
    with columns(width), contextlib.redirect_stdout(buf):
        scan_command(Path(root))
    return buf.getvalue()


def report_command_output(root, fmt="text", width=200):
    from pathlib import Path
    from codelimit.commands.report import report_command
    from codelimit.common.report.ReportFormat import ReportFormat
    buf = io.StringIO()
    with columns(width), contextlib.redirect_stdout(buf):
        report_command(Path(root), ReportFormat(fmt))
    return buf.getvalue()


def cache_file(root):
    return os.path.join(root, ".codelimit_cache", "codelimit.json")


def scan_with_cache(root, cached_report):
    """the aggregated Codebase of Scanner.scan_path(root, cached_report)"""
    from pathlib import Path
    from codelimit.common.Scanner import scan_path
    cb = scan_path(Path(root), cached_report)
    cb.aggregate()
    return cb
