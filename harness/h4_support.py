"""Shared mechanisms of the C07 / C08 / C18 / C19 streams (aggregation, report files, rendering):

 * `configured(...)`      - run a block under a process configuration (`Configuration.repository`,
                            `.exclude`, `.verbose` are CLASS attributes that `codelimit` fills in at CLI
                            start-up); everything is restored afterwards, the `exclude` list object included
 * `config_variants(...)` - the configurations a stream is repeated under
 * `unusual_names(...)`   - path components that are not fixed points of a Unicode normalisation form
                            (decomposed accents, singletons such as U+212B / U+2126, compatibility
                            characters, Hangul jamo, reordered marks), case pairs, line separators, BOM,
                            zero-width and bidi controls; with the twin spellings of each
 * `ladder(...)`          - geometric size ladders
 * `ddmin_list(...)`      - time-boxed delta debugging of a failing list
"""
import contextlib
import time
import unicodedata


# ------------------------------------------------------------------ configurations

@contextlib.contextmanager
def configured(repository=None, exclude=None, verbose=None):
    """set the process-wide configuration the way the CLI does, restore it afterwards.
    repository: None | (owner, name, branch); exclude: None | list of patterns; verbose: None | bool"""
    from codelimit.common.Configuration import Configuration
    from codelimit.common.GithubRepository import GithubRepository
    saved = (Configuration.repository, Configuration.exclude, list(Configuration.exclude), Configuration.verbose)
    try:
        if repository is not None:
            Configuration.repository = GithubRepository(*repository)
        if exclude is not None:
            Configuration.exclude = list(exclude)
        if verbose is not None:
            Configuration.verbose = verbose
        yield
    finally:
        Configuration.repository = saved[0]
        Configuration.exclude = saved[1]
        Configuration.exclude[:] = saved[2]
        Configuration.verbose = saved[3]


def configuration_is_default():
    from codelimit.common.Configuration import Configuration
    return Configuration.repository is None and Configuration.exclude == [] and Configuration.verbose is False


CFG_REPOSITORY = ("cfg-owner", "cfg-name", "cfg-branch")


def exclude_patterns_for(paths, rnd):
    """gitignore-style pattern lists that match some of the given relative paths: a directory, an
    extension, a base name, a full path, a root-anchored directory, everything, everything but one
    extension (negation)"""
    paths = [p for p in paths if p]
    if not paths:
        return [["*"]]
    p = rnd.choice(paths)
    parts = p.split("/")
    base = parts[-1]
    ext = base.rsplit(".", 1)[-1] if "." in base else None
    out = [["*"], [p]]
    if len(parts) > 1:
        out += [[parts[0] + "/"], ["/" + parts[0]], [rnd.choice(parts[:-1]) + "/"]]
    if ext:
        out += [["*." + ext], ["*", "!*." + ext]]
    out.append([base])
    return out


def config_variants(paths, rnd, count=None):
    """list of (label, kwargs for `configured`) - every single setting, and all of them together"""
    pats = exclude_patterns_for(paths, rnd)
    vs = [("repository", {"repository": CFG_REPOSITORY}),
          ("verbose", {"verbose": True})]
    vs += [("exclude " + " ".join(p), {"exclude": p}) for p in pats]
    vs.append(("all", {"repository": CFG_REPOSITORY, "verbose": True, "exclude": rnd.choice(pats)}))
    if count is not None and len(vs) > count:
        keep = [vs[0]] + rnd.sample(vs[1:], count - 1)
        vs = keep
    return vs


# ------------------------------------------------------------------ unusual Unicode path components

FORMS = ("NFC", "NFD", "NFKC", "NFKD")
_FIXED = [
    "re\u0301sume\u0301", "cafe\u0301", "u\u0308ber", "\u212b", "\u2126", "\u212a", "\u00c5", "\u03a9", "\u00e9", "\uac00", "\u1100\u1161",
    "a\u0323\u0307", "a\u0307\u0323", "\ufb01le", "\u2460", "\uff46\uff55\uff4c\uff4c", "x\u00b2", "a\u00a0b", "\u0130", "\u00df", "\u01c5", "\u1e9e",
    "a\u000cb", "a\u0085b", "a\u2028b", "a\u2029b", "\ufeffbom", "zero\u200bwidth", "zw\u200dj", "rtl\u202etxt", "\U0001d15e", "\u0344",
]
_POOL = None


def _scan_pool():
    """per normalisation form, code points (BMP and the first astral planes) that the form changes - a
    fixed stride so that every block with such characters contributes"""
    global _POOL
    if _POOL is None:
        per = {f: [] for f in FORMS}
        for cp in list(range(0xA0, 0x3400)) + list(range(0xF900, 0xFFF0)) + list(range(0x1D100, 0x1D800)) + list(range(0x2F800, 0x2FA20)):
            c = chr(cp)
            if 0xD800 <= cp <= 0xDFFF:
                continue
            for f in FORMS:
                if unicodedata.normalize(f, c) != c:
                    per[f].append(c)
        _POOL = per
    return _POOL


def unusual_names(rnd, n=12):
    """n path components (no '/', not '.', not empty), at least one per normalisation form that the form changes"""
    pool = _scan_pool()
    out = []
    for f in FORMS:
        out.append("n" + rnd.choice(pool[f]))
        out.append(rnd.choice(pool[f]) + rnd.choice(["", "x", ".py"]))
    # sequences that a composing form changes: the canonical decomposition of a precomposed character (what macOS hands out)
    for f in ("NFD", "NFKD"):
        out.append("s" + unicodedata.normalize(f, rnd.choice(pool["NFD"])) + rnd.choice(["", ".py"]))
    out += rnd.sample(_FIXED, min(len(_FIXED), max(0, n - len(out))))
    out = [s for s in out if s and "/" not in s and s not in (".", "..")]
    return out


def twins(name):
    """the other spellings of a component: its normal forms and case variants, without the name itself"""
    alts = []
    for f in FORMS:
        s = unicodedata.normalize(f, name)
        if s != name and s not in alts and "/" not in s and s:
            alts.append(s)
    for s in (name.upper(), name.lower(), name.casefold()):
        if s != name and s not in alts and "/" not in s and s:
            alts.append(s)
    return alts


# ------------------------------------------------------------------ size ladders

def ladder(lo_exp, hi_exp, half=False):
    """10^lo .. 10^hi, with the half decades (x 3.16) in between when `half`"""
    out = []
    for e in range(lo_exp, hi_exp + 1):
        out.append(10 ** e)
        if half and e < hi_exp:
            out.append(int(round(10 ** (e + 0.5))))
    return out


# ------------------------------------------------------------------ shrinking

def ddmin_list(items, still_fails, budget_s=5.0):
    """smallest failing sub-list found by delta debugging within the time budget (order kept)"""
    t0 = time.time()
    items = list(items)
    n = 2
    while len(items) >= 2 and time.time() - t0 < budget_s:
        size = max(1, len(items) // n)
        reduced = False
        chunks = [(i, i + size) for i in range(0, len(items), size)]
        # try the complements, then the chunks themselves
        for a, b in chunks:
            if time.time() - t0 >= budget_s:
                break
            cand = items[:a] + items[b:]
            try:
                bad = bool(cand) and still_fails(cand)
            except Exception:   # noqa: BLE001
                bad = False
            if bad:
                items = cand
                n = max(n - 1, 2)
                reduced = True
                break
        if not reduced:
            if size == 1:
                break
            n = min(len(items), n * 2)
    return items
