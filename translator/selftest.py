"""Self-test of the symbolic tracer: toy functions written in many styles are traced and the
resulting decision trees are compared with the functions themselves on every point of an integer
grid (python translator/selftest.py).  Also checks that the out-of-fragment operations refuse."""
import bisect
import itertools
import math
import os
import sys

sys.path.insert(0, os.path.dirname(os.path.abspath(__file__)))
from symtrace import (DC, Explorer, Refuse, SymBool, SymInt, build_tree, eval_tree, leaf_bool, leaf_int, leaf_str,
                      leaf_tuple, simplify)


def as_leaf(x):
    if isinstance(x, tuple):
        return leaf_tuple(*[as_leaf(y) for y in x])
    if isinstance(x, bool):
        return leaf_bool(x)
    if isinstance(x, str):
        return leaf_str(x)
    if isinstance(x, SymBool):
        return leaf_bool(bool(x))
    return leaf_int(x)


def concrete(x):
    if isinstance(x, tuple):
        return tuple(concrete(y) for y in x)
    if isinstance(x, bool):
        return ("bool", x)
    if isinstance(x, str):
        return ("str", x)
    return x


def bucket_elif(v):
    if v <= 15:
        return 0
    elif v <= 30:
        return 1
    elif v <= 60:
        return 2
    return 3


def bucket_bisect(v):
    return bisect.bisect_left([15, 30, 60], v)


def bucket_sum(v):
    return sum(1 for t in (15, 30, 60) if v > t)


def chained(v, w):
    return "mid" if 30 < v <= 60 and not w >= v else ("low" if v < w or v == 7 else "high")


def minmax(a, b, c):
    return min(a, b, c), max(a, b - 1), sorted([a, b, c])[1], abs(a - b)


def loop(a, b):
    n = 0
    while a * 2 - n > b and n < 3:
        n += 1
    return n, -a + b * 3


def pct(x, t):
    return math.ceil((x / t) * 100 - 0.001) if t > 0 else 0


def truthy(a, b):
    return ("a" if a else "") + ("b" if not b else "")


def bits(a, b):
    return (a > 3) & (b < 2), (a > 3) | (b < 2), (a > 3) ^ (b < 2), int(a == b) + 1


TOYS = [(bucket_elif, 1), (bucket_bisect, 1), (bucket_sum, 1), (chained, 2), (minmax, 3), (loop, 2), (truthy, 2), (bits, 2)]


def run_toys():
    n = 0
    for fn, arity in TOYS:
        names = ["x%d" % i for i in range(arity)]
        for prune in (True, False):
            leaves = Explorer(fn.__name__, prune=prune).explore(lambda: as_leaf(fn(*[SymInt(v) for v in names])))
            tree = simplify(build_tree(leaves, lambda o, ph: o))
            grid = [-2, 0, 1, 2, 3, 4, 6, 7, 8, 14, 15, 16, 29, 30, 31, 59, 60, 61, 100] if arity < 3 else [-2, 0, 1, 2, 5, 9]
            for point in itertools.product(grid, repeat=arity):
                got = eval_tree(tree, dict(zip(names, point)))
                want = concrete(fn(*point))
                assert got == want, (fn.__name__, prune, point, got, want)
                n += 1
    # the float idiom is read exactly: compare with exact rational arithmetic
    from fractions import Fraction
    leaves = Explorer("pct").explore(lambda: as_leaf(pct(SymInt("x"), SymInt("t"))))
    tree = simplify(build_tree(leaves, lambda o, ph: o))
    for x in range(0, 40):
        for t in range(-2, 40):
            want = math.ceil(Fraction(x, t) * 100 - Fraction(1, 1000)) if t > 0 else 0
            assert eval_tree(tree, {"x": x, "t": t}) == want, (x, t)
            n += 1
    return n


REFUSED = [
    ("floor division", lambda: SymInt("a") // 2),
    ("modulo", lambda: SymInt("a") % 2),
    ("power", lambda: SymInt("a") ** 2),
    ("float add", lambda: SymInt("a") + 0.5),
    ("float compare", lambda: SymInt("a") < 0.5),
    ("other float idiom", lambda: math.ceil((SymInt("a") / SymInt("b")) * 100 / 2)),
    ("ratio compare", lambda: (SymInt("a") / SymInt("b")) > 1),
    ("index", lambda: [1, 2, 3][SymInt("a")]),
    ("range", lambda: list(range(SymInt("a")))),
    ("repeat", lambda: "|" * SymInt("a")),
    ("dict key", lambda: {SymInt("a"): 1}),
    ("set element", lambda: {SymInt("a")}),
    ("int()", lambda: int(SymInt("a"))),
    ("float()", lambda: float(SymInt("a"))),
    ("round ndigits", lambda: round(SymInt("a"), 1)),
]


def run_refusals():
    for name, fn in REFUSED:
        try:
            Explorer(name).explore(fn)
        except Refuse:
            continue
        raise AssertionError("not refused: " + name)
    # an exception on a path, too many paths
    def boom():
        if SymInt("a") > 3:
            raise KeyError("x")
        return 1
    try:
        Explorer("boom").explore(boom)
        raise AssertionError("exception on a path not refused")
    except Refuse as e:
        assert "KeyError" in str(e)

    def wide():
        return sum(1 for i in range(13) if SymInt("v%d" % i) > 0)
    try:
        Explorer("wide").explore(wide)
        raise AssertionError("path bound not enforced")
    except Refuse as e:
        assert "paths" in str(e)
    return len(REFUSED) + 2


def run_semantics():
    """spot checks of Python semantics that are easy to get wrong"""
    def probe():
        a = SymInt("a")
        assert (a == None) is False and (a != None) is True      # noqa: E711
        assert (a == "x") is False
        try:
            a < "x"
            raise AssertionError("int < str must raise TypeError")
        except TypeError:
            pass
        assert isinstance(a + True, SymInt) and isinstance(True + a, SymInt)
        assert (a * 0) == 0 and type(a * 0) is int and (0 + a) is not None
        assert math.ceil(a) is a and math.floor(a) is a and round(a) is a
        assert "%s|%s" % (format(a, "n"), str(a + 1)) == "⟦0⟧|⟦1⟧"
        return DC
    Explorer("probe").explore(probe)
    return 1


if __name__ == "__main__":
    print("toy points compared: %d, refusals: %d, semantics probes: %d -> OK" % (run_toys(), run_refusals(), run_semantics()))
