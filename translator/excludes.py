"""Scanner.generate_exclude_spec -> lean/CodeLimit/Gen/Excludes.lean   (v2: observed, not shape-matched)

The REAL `generate_exclude_spec(root)` of the tree given on the command line is run in a fresh interpreter with
`PathSpec.from_lines` replaced by a recorder and with sentinel inputs: `Configuration.exclude` holds two marker
lines, the root's `.gitignore` two others. The recorded call gives the pattern style and the assembled line list; the
lines that are no markers are the built-in patterns (in order), the positions of the marker groups give the order of
the sources. The function is run twice (the built-in list must not grow) and once without configured lines and
without a `.gitignore` (the result must be the built-in list alone). Anything else is a refusal (a broken tie).
v1 read the `ast` of Scanner.py and refused behaviour-preserving rewrites (context manager, `+=`, split literal)."""
import json
import os
import subprocess
import sys
import tempfile


class Refuse(Exception):
    pass


_PROBE = r"""
import json, os, sys, tempfile
repo = sys.argv[1]
sys.path.insert(0, repo)
import codelimit
if not os.path.abspath(codelimit.__file__).startswith(os.path.abspath(repo) + os.sep):
    print(json.dumps({"refuse": "codelimit resolves to %s, not to %s" % (codelimit.__file__, repo)})); sys.exit(0)
from pathlib import Path
from codelimit.common import Scanner
from codelimit.common.Configuration import Configuration
calls = []
class Rec:
    @staticmethod
    def from_lines(*a, **k):
        calls.append((list(a), dict(k)))
        return ("spec", len(calls))
Scanner.PathSpec = Rec
out = {}
def run(conf, git):
    del calls[:]
    d = tempfile.mkdtemp(prefix="clx_")
    try:
        if git is not None:
            with open(os.path.join(d, ".gitignore"), "w") as f:
                f.write("\n".join(git) + "\n")
        Configuration.exclude = list(conf)
        r = Scanner.generate_exclude_spec(Path(d))
        return [(list(map(lambda x: x if isinstance(x, str) else list(x), a)), k) for a, k in calls], repr(r)
    finally:
        Configuration.exclude = []
        import shutil; shutil.rmtree(d, ignore_errors=True)
out["full1"] = run(["<<CONF-1>>", "<<CONF-2>>"], ["<<GIT-1>>", "<<GIT-2>>"])
out["full2"] = run(["<<CONF-1>>", "<<CONF-2>>"], ["<<GIT-1>>", "<<GIT-2>>"])
out["bare"] = run([], None)
out["const"] = list(getattr(Scanner, "DEFAULT_EXCLUDES", []))
print(json.dumps(out))
"""


def _observe(repo):
    p = subprocess.run([sys.executable, "-c", _PROBE, repo], capture_output=True, text=True, timeout=120,
                       env={k: v for k, v in os.environ.items() if k != "PYTHONPATH"})
    if p.returncode != 0:
        raise Refuse("generate_exclude_spec could not be run: %s" % (p.stderr.strip().splitlines() or ["?"])[-1])
    out = json.loads(p.stdout.strip().splitlines()[-1])
    if "refuse" in out:
        raise Refuse(out["refuse"])
    return out


def _analyse(out):
    def one(rec, what):
        calls, _r = rec
        if len(calls) != 1:
            raise Refuse("generate_exclude_spec (%s) calls PathSpec.from_lines %d times" % (what, len(calls)))
        args, kw = calls[0]
        if kw or len(args) != 2 or not isinstance(args[0], str) or not isinstance(args[1], list) or \
                not all(isinstance(x, str) for x in args[1]):
            raise Refuse("generate_exclude_spec (%s): unexpected call PathSpec.from_lines(%r, %r)" % (what, args, kw))
        return args[0], args[1]
    style, lines = one(out["full1"], "first run")
    style2, lines2 = one(out["full2"], "second run")
    style3, bare = one(out["bare"], "no configuration")
    if (style, lines) != (style2, lines2):
        raise Refuse("generate_exclude_spec is not repeatable: the assembled list changes between two calls")
    if style3 != style:
        raise Refuse("generate_exclude_spec: the pattern style depends on the configuration")
    marks = {"<<CONF-1>>": "configured", "<<CONF-2>>": "configured", "<<GIT-1>>": "gitignore", "<<GIT-2>>": "gitignore"}
    groups = []          # run-length groups of sources in the assembled list
    for ln in lines:
        src = marks.get(ln, "builtin")
        if not groups or groups[-1][0] != src:
            groups.append([src, []])
        groups[-1][1].append(ln)
    order = [g[0] for g in groups]
    if sorted(order) != ["builtin", "configured", "gitignore"]:
        raise Refuse("generate_exclude_spec: sources are interleaved or missing: %s" % order)
    for src, ls in groups:
        if src == "configured" and ls != ["<<CONF-1>>", "<<CONF-2>>"] or src == "gitignore" and ls != ["<<GIT-1>>", "<<GIT-2>>"]:
            raise Refuse("generate_exclude_spec: the %s lines are reordered, repeated or dropped: %s" % (src, ls))
    builtin = [g[1] for g in groups if g[0] == "builtin"][0]
    if bare != builtin:
        raise Refuse("generate_exclude_spec: without configuration and .gitignore the list is not the built-in list")
    if out.get("const") and list(out["const"]) != builtin:
        raise Refuse("Scanner.DEFAULT_EXCLUDES differs from the built-in lines generate_exclude_spec uses")
    return builtin, order, style


def _lean_str(s):
    out = []
    for ch in s:
        if ch == "\\":
            out.append("\\\\")
        elif ch == '"':
            out.append('\\"')
        elif 32 <= ord(ch) < 127:
            out.append(ch)
        else:
            out.append("\\u{%x}" % ord(ch))
    return '"' + "".join(out) + '"'


def translate(repo):
    found, order, style = _analyse(_observe(repo))
    lines = [
        "/-! GENERATED by translator/excludes.py from the running codelimit.common.Scanner.generate_exclude_spec - do not edit.",
        "The built-in exclusion patterns, and how `generate_exclude_spec` assembles the pattern list. -/",
        "namespace CL.Gen.Excludes",
        "",
        "/-- `Scanner.DEFAULT_EXCLUDES` -/",
        "def defaultExcludes : List String :=",
        "  [" + ", ".join(_lean_str(s) for s in found) + "]",
        "",
        "/-- first argument of `PathSpec.from_lines` in `generate_exclude_spec` -/",
        "def patternStyle : String := " + _lean_str(style),
        "",
        "/-- the sources `generate_exclude_spec` concatenates, in order -/",
        "def sources : List String := [" + ", ".join(_lean_str(s) for s in order) + "]",
        "",
        "end CL.Gen.Excludes",
        "",
    ]
    return "\n".join(lines)


if __name__ == "__main__":
    import sys
    print(translate(sys.argv[1] if len(sys.argv) > 1 else "/repo"))
