"""The decision sites of Code Limit that translator/logic.py turns into Lean definitions.

Every site names the REAL callable to run (imported from the repository given on the command
line), how its arguments are built from symbolic integers, and a classifier from the concrete
outcome of one run to the finite class the Lean definition's type needs.  Nothing here looks
at the source text: a refactoring that keeps the behaviour keeps the outcome of every path.
"""
import contextlib
import io
import re
from pathlib import Path

from symtrace import (DC, Explorer, Refuse, SymBool, SymInt, SymList, build_tree, count_leaves, leaf_bool,
                      leaf_int, leaf_nat, leaf_str, leaf_tuple, rebound, render_def, selfcheck, simplify, sym_len,
                      term_str, tree_vars)

PLACEHOLDER = re.compile("⟦(\\d+)⟧")


# ---------------------------------------------------------------------------------------------
# observing output

class Captured:
    def __init__(self):
        self.items = []         # (kind, text)

    def texts(self):
        return [t for _, t in self.items]


def _plain(x):
    if isinstance(x, str):
        return x
    plain = getattr(x, "plain", None)       # rich.text.Text
    if isinstance(plain, str):
        return plain
    return "<%s>" % type(x).__name__


@contextlib.contextmanager
def capture():
    """everything the traced code prints - `Console.print` of any rich console, `rich.print`,
    `print` / `sys.stdout` - is recorded as text instead of being rendered"""
    import rich
    import rich.console
    cap = Captured()

    def console_print(self, *objects, **kw):
        cap.items.append(("console", " ".join(_plain(o) for o in objects)))

    def rich_print(*objects, **kw):
        cap.items.append(("rich", " ".join(_plain(o) for o in objects)))

    saved = (rich.console.Console.print, rich.print)
    rich.console.Console.print = console_print
    rich.print = rich_print
    buf = io.StringIO()
    try:
        with contextlib.redirect_stdout(buf):
            yield cap
    finally:
        rich.console.Console.print, rich.print = saved
        for line in buf.getvalue().splitlines():
            cap.items.append(("stdout", line))


def resolved(text):
    """text with every placeholder replaced by the Lean term it stands for (inside a run)"""
    if text is None:
        return None
    ph = Explorer.current().placeholders
    return PLACEHOLDER.sub(lambda m: "⟦%s⟧" % term_str(ph[int(m.group(1))][0]), text)


def shown_terms(text, placeholders):
    """the symbolic integers formatted into `text` (in order)"""
    return [placeholders[int(k)] for k in PLACEHOLDER.findall(text)]


# ---------------------------------------------------------------------------------------------
# site bookkeeping

class Def:
    def __init__(self, name, params, typ, doc, project):
        self.name, self.params, self.typ, self.doc, self.project = name, params, typ, doc, project


class Group:
    """one traced callable; each Def projects the outcome of a path to its own leaf value"""

    def __init__(self, name, run, defs):
        self.name, self.run, self.defs = name, run, defs


def param_names(params):
    return set(re.findall(r"[A-Za-z_][A-Za-z_0-9]*", re.sub(r":\s*[A-Za-z]+\)", ")", params)))


def emit_group(g, stats):
    ex = Explorer(g.name)
    try:
        leaves = ex.explore(g.run)
    except Refuse as e:
        raise Refuse("%s [site entered at %s]" % (e, ex.entry)) if ex.entry and " at codelimit" not in str(e) else e
    g.entry = ex.entry
    plain = Explorer(g.name, prune=False, errors_are_dontcare=True).explore(g.run)
    out = []
    for d in g.defs:
        def project(outcome, placeholders, d=d):
            try:
                return d.project(outcome, placeholders)
            except Refuse as e:
                raise Refuse("%s: %s [site entered at %s]" % (d.name, e, g.entry))
        raw = build_tree(leaves, project)
        tree = simplify(raw)
        if tree == ("leaf", DC):
            raise Refuse("%s: the traced code never reaches the observed behaviour (%s) [site entered at %s]" % (d.name, d.doc, g.entry))
        plain_raw = build_tree(plain, lambda o, ph: DC)
        used = tree_vars(raw) | tree_vars(plain_raw)
        bools = {a[1] for ls in (leaves, plain) for trace, _o, _p in ls for a, _v in trace if a[0] == "bvar"}
        selfcheck(d.name, leaves, tree, project, used - bools, bools, plain)
        extra = tree_vars(tree) - param_names(d.params)
        if extra:
            raise Refuse("%s: the outcome depends on %s, which is not a parameter of the site (%s) [site entered at %s]"
                         % (d.name, ", ".join(sorted(extra)), d.doc, g.entry))
        is_prop = d.typ == "Prop"
        body = render_def(tree, is_prop)
        sig = "%s %s: %s" % (d.name, d.params + " " if d.params else "", d.typ)
        out.append("/-- %s -/\n%s %s :=\n  %s\n" % (d.doc, "abbrev" if is_prop else "def", sig, body))
        stats.append((d.name, len(leaves), count_leaves(tree)))
    return out


def only(items, what):
    if len(items) != 1:
        raise Refuse("expected exactly one %s, observed %d" % (what, len(items)))
    return items[0]


# ---------------------------------------------------------------------------------------------
# the sites

def build_groups():
    from codelimit.common import utils
    from codelimit.common.CheckResult import CheckResult
    from codelimit.common.Location import Location
    from codelimit.common.Measurement import Measurement
    from codelimit.common.report.Report import Report
    from codelimit.common.report.ReportUnit import ReportUnit
    from codelimit.common.report import format_markdown, format_text
    from codelimit.common.SummaryTable import SummaryTable
    from codelimit.common.GithubRepository import GithubRepository
    from codelimit.common.LanguageTotals import LanguageTotals
    from codelimit.common.LanguageTotalsDelta import LanguageTotalsDelta
    from codelimit.common.ScanTotalsDelta import ScanTotalsDelta
    from codelimit.common.TokenRange import TokenRange
    from codelimit.common.scope.Header import Header
    from codelimit.common.scope.Scope import Scope
    from codelimit.common.scope import scope_utils
    from codelimit.commands import check as checkmod
    from rich.console import Console
    import typer

    groups = []

    def measurement(v):
        return Measurement("f", Location(1, 1), Location(2, 1), v)

    # ---- utils.py: profiles --------------------------------------------------------------
    def bucket_site(fn_name, amount_doc, expect):
        def run():
            v = SymInt("v")
            res = getattr(utils, fn_name)([measurement(v)])
            if not isinstance(res, list) or len(res) != 4:
                raise Refuse("utils.%s did not return a list of four" % fn_name)
            return [term_str(x.term) if isinstance(x, SymInt) else x for x in res]

        def project(res, ph):
            hit = [i for i in range(4) if res[i] == expect]
            if len(hit) != 1 or any(res[i] != 0 for i in range(4) if i != hit[0]):
                raise Refuse("utils.%s([m]) is %r: not `%s` added to exactly one bucket" % (fn_name, res, expect))
            return leaf_nat(hit[0])
        return Group("utils." + fn_name, run, [Def(
            fn_name + "_bucket", "(v : Int)", "Nat",
            "`utils.%s`: the index of `result` that a measurement of length `v` is added to (`+= %s`)" % (fn_name, amount_doc),
            project)])
    groups.append(bucket_site("make_profile", "m.value", "v"))
    groups.append(bucket_site("make_count_profile", "1", 1))

    def merge_check():
        a = [SymInt("a%d" % i) for i in range(4)]
        b = [SymInt("b%d" % i) for i in range(4)]
        res = utils.merge_profiles(a, b)
        got = [term_str(x.term) if isinstance(x, SymInt) else repr(x) for x in res]
        if got != ["(a%d + b%d)" % (i, i) for i in range(4)]:
            raise Refuse("utils.merge_profiles is not the component-wise sum: %r" % (got,))
        return None
    groups.append(Group("utils.merge_profiles", merge_check, []))

    # ---- utils.py: colours and symbols ---------------------------------------------------
    def style_run():
        st = utils.get_style_for_measurement(SymInt("value"))
        color = getattr(st, "color", None)
        if color is None or not isinstance(color.name, str):
            raise Refuse("utils.get_style_for_measurement did not return a Style with a colour")
        return color.name
    groups.append(Group("utils.get_style_for_measurement", style_run, [
        Def("style_color", "(value : Int)", "String", "`utils.get_style_for_measurement`", lambda o, ph: leaf_str(o))]))
    groups.append(Group("utils.get_emoji_for_measurement", lambda: utils.get_emoji_for_measurement(SymInt("value")), [
        Def("emoji", "(value : Int)", "String", "`utils.get_emoji_for_measurement`", lambda o, ph: leaf_str(o))]))

    def unit_run():
        text = utils.format_unit("f", SymInt("length"))
        colors = []
        for sp in text.spans:
            c = getattr(sp.style, "color", None)
            if c is not None:
                colors.append(c.name)
        return only(colors, "coloured span in utils.format_unit's text")
    groups.append(Group("utils.format_unit", unit_run, [
        Def("format_unit_color", "(length : Int)", "String", "`utils.format_unit`: colour of the separator",
            lambda o, ph: leaf_str(o))]))

    # ---- CheckResult ---------------------------------------------------------------------
    def add_run():
        cr = CheckResult()
        cr.add(Path("p.py"), [measurement(SymInt("v"))])
        return cr.hard_to_maintain, cr.unmaintainable

    def counter(i, what):
        def project(o, ph):
            if type(o[i]) is not int or o[i] not in (0, 1):
                raise Refuse("CheckResult.add of one measurement left %s = %r" % (what, o[i]))
            return leaf_bool(o[i] == 1)
        return project
    groups.append(Group("CheckResult.add", add_run, [
        Def("check_counts_hard", "(v : Int)", "Prop", "`CheckResult.add`: a measurement of length `v` increments `hard_to_maintain`",
            counter(0, "hard_to_maintain")),
        Def("check_counts_unmaintainable", "(v : Int)", "Prop", "`CheckResult.add`: ... increments `unmaintainable`",
            counter(1, "unmaintainable"))]))

    def report_run():
        cr = CheckResult()
        cr.hard_to_maintain = SymInt("hard")
        cr.unmaintainable = SymInt("unm")
        with capture() as cap:
            cr.report()
        need = [t for t in cap.texts() if "functions need" in t and "refactoring" in t]
        fine = [t for t in cap.texts() if "Refactoring not" in t and "necessary" in t]
        if len(need) + len(fine) != 1:
            raise Refuse("CheckResult.report printed %d summary lines" % (len(need) + len(fine)))
        return need[0] if need else None

    def summary_count(o, ph):
        if o is None:
            return DC
        head = o.split("functions need")[0]
        shown = shown_terms(head, ph)
        if not shown:
            raise Refuse("CheckResult.report: no symbolic number before `functions need` in %r" % o)
        return leaf_int(SymInt(shown[-1][0]))
    groups.append(Group("CheckResult.report", report_run, [
        Def("check_says_refactoring", "(hard unm : Int)", "Prop", "`CheckResult.report`: the summary line says functions need refactoring",
            lambda o, ph: leaf_bool(o is not None)),
        Def("check_summary_count", "(hard unm : Int)", "Int", "`CheckResult.report`: the number shown in the summary line",
            summary_count)]))

    # ---- commands/check.py ---------------------------------------------------------------
    def command_run():
        calls = []

        class StubResult(CheckResult):
            def __init__(self):
                super().__init__()
                self.hard_to_maintain = SymInt("hard")
                self.unmaintainable = SymInt("unm")

            def report(self):
                calls.append("report")
        saved = checkmod.CheckResult
        checkmod.CheckResult = StubResult
        try:
            with capture():
                try:
                    checkmod.check_command([], SymBool("quiet"))
                except typer.Exit as e:
                    return e.exit_code, len(calls)
        finally:
            checkmod.CheckResult = saved
        raise Refuse("check_command returned without raising typer.Exit")

    def printed(o, ph):
        if o[1] not in (0, 1):
            raise Refuse("check_command reported %d times" % o[1])
        return leaf_bool(o[1] == 1)
    groups.append(Group("check_command", command_run, [
        Def("check_exit_code", "(unm : Int)", "Int", "`check_command`: process exit status", lambda o, ph: leaf_int(o[0])),
        Def("check_prints", "(quiet : Bool) (hard unm : Int)", "Prop", "`check_command`: anything is printed", printed)]))

    def check_file_run():
        m = measurement(SymInt("v"))
        saved = {k: getattr(checkmod, k) for k in ("scan_file", "lex", "_read_file") if hasattr(checkmod, k)}
        checkmod.scan_file = lambda tokens, language: [m]
        checkmod.lex = lambda *a, **k: []
        if "_read_file" in saved:
            checkmod._read_file = lambda path: ""
        try:
            cr = CheckResult()
            with capture():
                checkmod.check_file(Path("/nonexistent/probe.py"), cr)
        finally:
            for k, v in saved.items():
                setattr(checkmod, k, v)
        if len(cr.file_list) != 1:
            raise Refuse("check_file did not add exactly one entry to the CheckResult for a Python file")
        return len(cr.file_list[0][1])
    groups.append(Group("check_file", check_file_run, [
        Def("check_lists", "(v : Int)", "Prop", "`check_file`: a measurement of length `v` is listed as a risk",
            lambda o, ph: leaf_bool(o == 1))]))

    # ---- Report.py -----------------------------------------------------------------------
    class Entry:
        def __init__(self, ms):
            self._ms = ms

        def measurements(self):
            return self._ms

    class StubCodebase:
        def __init__(self, files):
            self.files = files

    def new_report(**attrs):
        rep = Report.__new__(Report)
        rep.repository = None
        rep.codebase = None
        for k, v in attrs.items():
            setattr(rep, k, v)
        return rep

    def units_run():
        rep = new_report(codebase=StubCodebase({"a.py": Entry([measurement(SymInt("v"))])}))
        return len(rep.all_report_units_sorted_by_length_asc(SymInt("threshold")))
    groups.append(Group("Report.all_report_units_sorted_by_length_asc", units_run, [
        Def("units_keeps", "(v threshold : Int)", "Prop",
            "`Report.all_report_units_sorted_by_length_asc(threshold)`: a measurement of length `v` is kept",
            lambda o, ph: leaf_bool(o == 1))]))

    def order_check():
        """two kept measurements come out longest first, ties in insertion order (checked on every path)"""
        a, b = SymInt("a"), SymInt("b")
        rep = new_report(codebase=StubCodebase({"x.py": Entry([measurement(a)]), "y.py": Entry([measurement(b)])}))
        res = rep.all_report_units_sorted_by_length_asc(-10 ** 9)
        if len(res) != 2:
            return None
        first = res[0].measurement.value
        swapped = first is b
        if swapped != bool(a < b):
            raise Refuse("Report.all_report_units_sorted_by_length_asc does not sort by length, longest first, stably")
        return None
    groups.append(Group("Report.all_report_units_sorted_by_length_asc (order)", order_check, []))

    def qpp_run():
        rep = new_report(quality_profile=lambda: [SymInt("p0"), SymInt("p1"), SymInt("p2"), SymInt("p3")])
        res = rep.quality_profile_percentage()
        if not isinstance(res, tuple) or len(res) != 4:
            raise Refuse("Report.quality_profile_percentage did not return four numbers")
        return res
    groups.append(Group("Report.quality_profile_percentage", qpp_run, [
        Def("quality_profile_percentage", "(p0 p1 p2 p3 : Int)", "Int × Int × Int × Int",
            "`Report.quality_profile_percentage` with `ceil(x / total * 100 - 0.001)` read exactly (`CL.pct`)",
            lambda o, ph: leaf_tuple(*[leaf_int(x) for x in o]))]))

    # ---- verdicts, findings ----------------------------------------------------------------
    pct_names = ("easy", "verbose", "hard_to_maintain", "unmaintainable")

    def pct_report():
        return new_report(quality_profile_percentage=lambda: tuple(SymInt(n) for n in pct_names))

    for mod, name in ((format_text, "text"), (format_markdown, "markdown")):
        def summary_run(mod=mod):
            with capture() as cap:
                mod.print_summary(Console(file=io.StringIO()), pct_report())
            msgs = [t for t in cap.texts() if "refactoring necessary" in t]
            return only(msgs, "verdict message (`... refactoring necessary`)")

        def verdict(o, ph, name=name):
            if "no refactoring necessary" in o:
                code = 2
            elif "stop_sign" in o:
                code = 0
            elif "warning" in o:
                code = 1
            else:
                raise Refuse("%s.print_summary: unknown verdict message %r" % (name, o))
            shown = shown_terms(o.split("%")[0], ph) if "%" in o else []
            if len(shown) != 1:
                raise Refuse("%s.print_summary: the verdict message does not show exactly one percentage: %r" % (name, o))
            return leaf_tuple(leaf_nat(code), leaf_int(SymInt(shown[0][0])))
        groups.append(Group("format_%s.print_summary" % name, summary_run, [
            Def("verdict_%s" % name, "(easy verbose hard_to_maintain unmaintainable : Int)", "Nat × Int",
                "`%s.print_summary`: (0 = refactoring necessary because of unmaintainable code, 1 = ... hard-to-maintain code, 2 = no refactoring necessary; the percentage shown)" % name,
                verdict)]))

        def findings_run(mod=mod, name=name):
            seen = []
            log = []

            def units(*args, **kw):
                seen.append((list(args) + list(kw.values()) + [None])[0])
                return SymList(SymInt("total"), log)
            outs = []
            for repo in (None, GithubRepository("o", "n", "b")):
                del log[:]
                rep = new_report(all_report_units_sorted_by_length_asc=units, repository=repo)
                full = SymBool("full")
                with rebound("codelimit", len=sym_len), capture() as cap:
                    if name == "text":
                        mod.print_findings(Console(file=io.StringIO()), rep, full)
                    else:
                        mod.print_findings(rep, Console(file=io.StringIO()), full)
                more = [t for t in cap.texts() if "more rows" in t]
                if len(more) > 1:
                    raise Refuse("%s.print_findings printed %d `more rows` lines" % (name, len(more)))
                iters = [c for k, c in log if k == "iter"]
                cut = only(iters, "iteration over the findings in %s.print_findings" % name)
                outs.append((cut, more[0] if more else None))
                if name == "text":
                    break
            if len(set((c, resolved(m)) for c, m in outs)) != 1:
                raise Refuse("%s.print_findings cuts differently with and without a repository" % name)
            thr = set(seen)
            if len(thr) != 1 or type(seen[0]) is not int:
                raise Refuse("%s.print_findings: thresholds passed to all_report_units_sorted_by_length_asc: %r" % (name, seen))
            cut, more = outs[0]
            if (cut is None) != (more is None):
                raise Refuse("%s.print_findings: the list is cut without a `more rows` line or vice versa" % name)
            return seen[0], cut, more

        def omitted(o, ph, name=name):
            if o[2] is None:
                return DC
            shown = shown_terms(o[2].split("more rows")[0], ph)
            if len(shown) != 1:
                raise Refuse("%s.print_findings: the `more rows` line does not show exactly one number" % name)
            return leaf_int(SymInt(shown[0][0]))
        groups.append(Group("format_%s.print_findings" % name, findings_run, [
            Def("findings_threshold_%s" % name, "", "Int", "`%s.print_findings`: threshold passed to `all_report_units_sorted_by_length_asc`" % name,
                lambda o, ph: leaf_int(o[0])),
            Def("findings_truncates_%s" % name, "(full : Bool) (total : Int)", "Prop", "`%s.print_findings`: the list is cut" % name,
                lambda o, ph: leaf_bool(o[1] is not None)),
            Def("findings_kept_%s" % name, "", "Nat", "`%s.print_findings`: rows kept when cut (`functions[:k]`)" % name,
                lambda o, ph: DC if o[1] is None else leaf_nat(o[1])),
            Def("findings_omitted_%s" % name, "(total : Int)", "Int", "`%s.print_findings`: the number of omitted rows shown" % name,
                omitted)]))

    for repo, suffix in ((None, "_without_repository"), (GithubRepository("o", "n", "b"), "_with_repository")):
        def cross_run(repo=repo):
            unit = ReportUnit("a.py", Measurement("fn", Location(1, 1), Location(2, 1), SymInt("v")))
            rep = new_report(all_report_units_sorted_by_length_asc=lambda *a, **k: [unit], repository=repo)
            with capture() as cap:
                format_markdown.print_findings(rep, Console(file=io.StringIO()), True)
            rows = [t for t in cap.texts() if "a.py" in t]
            row = only(rows, "findings row for the unit")
            cross, warn = "❌" in row, "⚠" in row
            if cross == warn:
                raise Refuse("format_markdown findings row shows neither / both symbols: %r" % row)
            return cross
        groups.append(Group("format_markdown.print_findings" + suffix, cross_run, [
            Def("md_cross" + suffix, "(v : Int)", "Prop",
                "`format_markdown._print_findings%s`: the cross (rather than the warning sign) is shown" % suffix,
                lambda o, ph: leaf_bool(o))]))

    # ---- SummaryTable ----------------------------------------------------------------------
    def table_run():
        st = SummaryTable(pct_report())
        cells = [c for col in st.columns for c in col._cells]
        if len(cells) != 3:
            raise Refuse("SummaryTable does not have one row of three cells")
        return tuple(str(getattr(c, "style", "")) for c in cells)
    groups.append(Group("SummaryTable", table_run, [
        Def("summary_red", "(unmaintainable : Int)", "Prop", "`SummaryTable`: unmaintainable cell is red", lambda o, ph: leaf_bool(o[2] == "red")),
        Def("summary_orange", "(hard_to_maintain : Int)", "Prop", "`SummaryTable`: hard-to-maintain cell is orange", lambda o, ph: leaf_bool(o[1] == "dark_orange")),
        Def("summary_green", "(hard_to_maintain unmaintainable : Int)", "Prop", "`SummaryTable`: easy/verbose cell is green", lambda o, ph: leaf_bool(o[0] == "green"))]))

    # ---- deltas ----------------------------------------------------------------------------
    def plain(o, ph):
        """`<total>` alone, or `<total> (<delta>)` with the signed delta"""
        if type(o) is not str:
            raise Refuse("expected a string, got %r" % (o,))
        shown = shown_terms(o, ph)
        if len(shown) == 1 and "(" not in o:
            return leaf_bool(True)
        if len(shown) == 2 and re.fullmatch("⟦\\d+⟧ \\(⟦\\d+⟧\\)", o) and shown[1][1].startswith("+"):
            return leaf_bool(False)
        raise Refuse("unexpected delta text %r" % o)

    lt_fields = ["files", "functions", "loc", "hard_to_maintain", "unmaintainable"]
    for f in lt_fields:
        def lt_run(f=f):
            cur, prev = LanguageTotals("Python"), LanguageTotals("Python")
            setattr(cur, f, SymInt("delta"))
            return getattr(LanguageTotalsDelta(cur, prev), f)()
        groups.append(Group("LanguageTotalsDelta." + f, lt_run, [
            Def("LanguageTotalsDelta_%s_plain" % f, "(delta : Int)", "Prop", "`LanguageTotalsDelta.%s`: the figure is shown WITHOUT annotation" % f, plain)]))

    class Totals:
        def __init__(self, **vals):
            self.vals = vals

        def __getattr__(self, name):
            if name.startswith("total_"):
                return lambda: self.vals.get(name, 0)
            raise AttributeError(name)

    for f in lt_fields:
        def st_run(f=f):
            cur, prev = Totals(**{"total_" + f: SymInt("delta")}), Totals()
            return getattr(ScanTotalsDelta(cur, prev), "total_" + f)()
        groups.append(Group("ScanTotalsDelta.total_" + f, st_run, [
            Def("ScanTotalsDelta_total_%s_plain" % f, "(delta : Int)", "Prop", "`ScanTotalsDelta.total_%s`: the figure is shown WITHOUT annotation" % f, plain)]))

    # ---- comparison primitives of the scope pipeline -----------------------------------------
    def ranges():
        return TokenRange(SymInt("s"), SymInt("e")), TokenRange(SymInt("os"), SymInt("oe"))
    for meth in ("lt", "contains", "overlaps"):
        def range_run(meth=meth):
            a, b = ranges()
            return bool(getattr(a, meth)(b))
        groups.append(Group("TokenRange." + meth, range_run, [
            Def("range_" + meth, "(s e os oe : Int)", "Prop", "`TokenRange.%s`" % meth, lambda o, ph: leaf_bool(o))]))

    def scope_run():
        a = Scope(Header(None, TokenRange(SymInt("hs"), SymInt("he"))), TokenRange(SymInt("bs"), SymInt("be")))
        b = Scope(Header(None, TokenRange(SymInt("ohs"), SymInt("ohe"))), TokenRange(SymInt("obs"), SymInt("obe")))
        return bool(a.contains(b))
    groups.append(Group("Scope.contains", scope_run, [
        Def("scope_contains", "(hs be ohs obe : Int)", "Prop", "`Scope.contains`", lambda o, ph: leaf_bool(o))]))

    def nearest_run():
        block = TokenRange(SymInt("bs"), SymInt("be"))
        header = TokenRange(SymInt("hs"), SymInt("he"))
        res = scope_utils._get_nearest_block(header, [block])
        if res is not None and res is not block:
            raise Refuse("_get_nearest_block returned something that is not one of the blocks")
        if block.contains(header):
            return None         # the site is about a block that does not contain the header
        return res is block
    groups.append(Group("_get_nearest_block", nearest_run, [
        Def("nearest_candidate", "(bs be hs he : Int)", "Prop", "`_get_nearest_block`: a block that does not contain the header becomes the candidate",
            lambda o, ph: DC if o is None else leaf_bool(o))]))

    class Tok:
        def __init__(self, index):
            self.index = index
            self.location = Location(1, 1)

    class Tokens:
        """token list stub: any index gives a token that remembers the index"""
        def __getitem__(self, k):
            return Tok(k)

        def __len__(self):
            return 10 ** 9

    def scope_tokens_run():
        i, j = SymInt("i"), SymInt("j")
        cs, ce = SymInt("cs"), SymInt("ce")

        def sym_range(*args):
            if any(isinstance(a, SymInt) for a in args):
                return iter((i, j))         # two successive indices of the loop, both arbitrary
            return range(*args)
        child = Scope(Header(None, TokenRange(cs, SymInt("che"))), TokenRange(SymInt("cbs"), ce))
        scope = Scope(Header(None, TokenRange(SymInt("hs"), SymInt("he"))), TokenRange(SymInt("bs"), SymInt("be")))
        scope.children.append(child)
        with rebound("codelimit", range=sym_range):
            res = scope_utils._scope_tokens(scope, Tokens())
        kept = [t.index for t in res]
        if any(k is not i and k is not j for k in kept) or len(kept) > 2:
            raise Refuse("_scope_tokens returned tokens other than those at the visited indices")
        kept_i, kept_j = any(k is i for k in kept), any(k is j for k in kept)
        # at a later index inside the child's range (cs <= j < ce) the token is dropped exactly
        # when the child range is still there, i.e. when it was not popped at index i
        popped_at_i = DC if (j >= ce or j < cs) else kept_j
        # the keep test "given a remaining child range": only where the range was not popped at i
        keeps_i = DC if i >= ce else kept_i
        return popped_at_i, keeps_i
    groups.append(Group("_scope_tokens", scope_tokens_run, [
        Def("scope_tokens_pops", "(i ce : Int)", "Prop", "`_scope_tokens`: the first remaining child range is dropped at index `i`",
            lambda o, ph: DC if o[0] is DC else leaf_bool(o[0])),
        Def("scope_tokens_keeps", "(i cs : Int)", "Prop", "`_scope_tokens`: the token at index `i` is kept, given a remaining child range starting at `cs`",
            lambda o, ph: DC if o[1] is DC else leaf_bool(o[1]))]))
    # ---- Balanced.accept ---------------------------------------------------------------------
    from codelimit.common.token_matching.predicate.Balanced import Balanced
    from codelimit.common.token_matching.predicate.TokenPredicate import TokenPredicate

    class SidePredicate(TokenPredicate):
        """`left` / `right` of a Balanced: whether the token is the opening / closing symbol is an input"""
        def __init__(self, name):
            super().__init__()
            self.name = name

        def accept(self, token):
            return SymBool(self.name)

        def __eq__(self, other):
            return self is other

        def __hash__(self):
            return id(self)

    def balanced_run():
        b = Balanced(SidePredicate("isLeft"), SidePredicate("isRight"))
        b.depth = SymInt("depth")
        res = b.accept(Tok(0))
        return bool(res), b.depth
    groups.append(Group("Balanced.accept", balanced_run, [
        Def("balanced_accept", "(isLeft isRight : Bool) (depth : Int)", "Bool × Int",
            "`Balanced.accept` at nesting depth `depth`, given whether `left` / `right` accept the token: (accepted, new depth)",
            lambda o, ph: leaf_tuple(leaf_bool(o[0]), leaf_int(o[1])))]))

    # ---- matcher.find_all: the pre-emption guards -----------------------------------------------
    from codelimit.common.gsm import matcher

    class State:
        transition = [("p", "q")]

    def find_all_scenario(accepts_b, start_of, end_of):
        """find_all over the items a, b with stub patterns: pattern k is created at index k;
        accepts_b[k]: pattern k can consume `b`; start_of / end_of: which pattern reports a
        symbolic `start` / (once set) a symbolic `end`"""
        consumed = []

        class P:
            made = 0

            def __init__(self, start, automata):
                self.k = P.made
                P.made += 1
                self._start, self._end, self.end_set = start, start, False
                self.state, self.tokens = State(), []

            @property
            def start(self):
                return SymInt("start") if self.k == start_of else self._start

            @property
            def end(self):
                return SymInt("lastEnd") if (self.k == end_of and self.end_set) else self._end

            @end.setter
            def end(self, v):
                self._end, self.end_set = v, True

            def consume(self, item):
                consumed.append((self.k, item))
                return self.state if (item == "a" or accepts_b[self.k]) else None

            def is_accepting(self):
                return True
        saved = {k: getattr(matcher, k) for k in ("Pattern", "nfa_to_dfa", "expression_to_nfa")}
        matcher.Pattern, matcher.nfa_to_dfa, matcher.expression_to_nfa = P, (lambda nfa: "dfa"), (lambda e: "nfa")
        try:
            res = matcher.find_all(["x"], ["a", "b"])
        finally:
            for k, v in saved.items():
                setattr(matcher, k, v)
        return consumed, [p.k for p in res]

    def preempt_run():
        # pattern 0 matches `a` and ends at index 1; pattern 1 (created at 1) is then examined
        consumed, res = find_all_scenario({0: False, 1: False}, 1, 0)
        if res != [0] and res != [0, 1]:
            raise Refuse("find_all scenario 1: unexpected matches %r" % (res,))
        return (1, "b") not in consumed and res == [0]

    def preempt_final_run():
        # pattern 0 consumes both items and is still active at the end; pattern 1 matches the
        # empty sequence at index 1 (cannot consume `b`, accepting)
        consumed, res = find_all_scenario({0: True, 1: False}, 0, 1)
        if res != [1] and res != [1, 0]:
            raise Refuse("find_all scenario 2: unexpected matches %r" % (res,))
        return res == [1]
    groups.append(Group("matcher.find_all (guard in the loop)", preempt_run, [
        Def("find_all_preempts", "(start lastEnd : Int)", "Prop",
            "`matcher.find_all`: inside the loop an active pattern that started at `start` is dropped when the latest match ends at `lastEnd`",
            lambda o, ph: leaf_bool(o))]))
    groups.append(Group("matcher.find_all (guard after the loop)", preempt_final_run, [
        Def("find_all_preempts_final", "(start lastEnd : Int)", "Prop",
            "`matcher.find_all`: after the loop a still active accepting pattern that started at `start` is dropped when the latest match ends at `lastEnd`",
            lambda o, ph: leaf_bool(o))]))

    # ---- Scanner.scan_file: end location ---------------------------------------------------------
    from codelimit.common import Scanner

    class SymStr:
        """a token text of which only lengths are known: `len(text)`, the number of pieces of
        `text.split("\n")`, and the length of the last piece"""
        def __init__(self, length, pieces=None, last=None):
            self.length, self.pieces, self.last = length, pieces, last

        def sym_len(self):
            return SymInt(self.length)

        def split(self, sep=None, maxsplit=-1):
            if sep != "\n" or maxsplit != -1 or self.pieces is None:
                raise Refuse("only text.split(\"\\n\") of the last token's text is modelled")
            return SymLines(self)

        def splitlines(self, *a):
            raise Refuse("str.splitlines of the last token's text is not modelled (differs from split on a trailing newline)")

    class SymLines:
        def __init__(self, text):
            self.text = text

        def sym_len(self):
            return SymInt(self.text.pieces)

        def __getitem__(self, k):
            if k == -1:
                return SymStr(self.text.last)
            raise Refuse("only the last piece of the split text is modelled (index %r)" % (k,))

    def end_location_run():
        nlines = SymInt("nlines")
        if nlines < 1:
            return None             # str.split always gives at least one piece
        tok = Tok(0)
        tok.location = Location(SymInt("line"), SymInt("col"))
        tok.value = SymStr("vlen", "nlines", "lastlen")
        first = Tok(0)
        first.location = Location(7, 3)
        scope = Scope(Header(Tok(0), TokenRange(0, 1)), TokenRange(1, 2))
        scope.header.name_token.value = "f"
        names = ("build_scopes", "unfold_scopes", "filter_tokens", "count_lines")
        saved = {k: getattr(Scanner, k) for k in names}
        Scanner.build_scopes = lambda tokens, language: [scope]
        Scanner.unfold_scopes = lambda scopes: list(scopes)
        Scanner.filter_tokens = lambda tokens, *a, **k: tokens
        Scanner.count_lines = lambda sc, tokens: SymInt("length")
        try:
            with rebound("codelimit", len=sym_len):
                ms = Scanner.scan_file([first, tok], None)
        finally:
            for k, v in saved.items():
                setattr(Scanner, k, v)
        m = only(ms, "measurement from scan_file for one scope")
        if m.unit_name != "f" or m.start is not first.location or not isinstance(m.value, SymInt) or m.value.term != ("var", "length"):
            raise Refuse("scan_file: name / start location / length of the measurement are not the header's name, the first token's location and count_lines")
        return m.end.line, m.end.column
    groups.append(Group("Scanner.scan_file", end_location_run, [
        Def("scan_end_location", "(line col vlen nlines lastlen : Int)", "Int × Int",
            "`Scanner.scan_file`: end location of a function whose last token is at (`line`, `col`), has `vlen` characters, `nlines` = number of pieces of `value.split(\"\\n\")` (at least 1), the last piece `lastlen` characters long",
            lambda o, ph: DC if o is None else leaf_tuple(leaf_int(o[0]), leaf_int(o[1])))]))

    # ---- languages/Python.py: indentation tests ----------------------------------------------------
    from codelimit.languages.Python import Python
    from pygments.token import Name as PygName

    def python_block_run():
        ln, lc, hl, hc = SymInt("ln"), SymInt("lc"), SymInt("hl"), SymInt("hc")

        def token(line, col, text):
            t = Tok(0)
            t.location, t.value, t.token_type = Location(line, col), text, PygName
            return t
        # `def` (start of the header), the token after the header (same line), one token on a later line
        toks = [token(hl, hc, "def"), token(hl, SymInt("ac"), ":"), token(ln, lc, "x")]
        header = Header(toks[0], TokenRange(0, 1))
        res = Python().extract_blocks(toks, [header])
        if len(res) > 1:
            raise Refuse("Python.extract_blocks returned %d blocks for one header" % len(res))
        has_block = len(res) == 1
        if has_block and (res[0].start, res[0].end) != (2, 3):
            raise Refuse("Python.extract_blocks: the block is not the later line")
        stops = DC if not (lc > hc) else (not has_block)
        in_block = DC if ln <= hl else has_block
        return stops, in_block
    groups.append(Group("Python.extract_blocks", python_block_run, [
        Def("python_line_stops", "(ln hl : Int)", "Prop",
            "`Python.extract_blocks`: a line with number `ln` ends the search for block lines of a header whose last line is `hl`",
            lambda o, ph: DC if o[0] is DC else leaf_bool(o[0])),
        Def("python_line_in_block", "(ln lc hl hc : Int)", "Prop",
            "`Python.extract_blocks`: a later line (`ln > hl`) indented at column `lc` belongs to the block of a header indented at `hc`",
            lambda o, ph: DC if o[1] is DC else leaf_bool(o[1]))]))
    return groups


HEADER = ["import CodeLimit.Model.Pct", "set_option linter.unusedVariables false",
          "/-! GENERATED by translator/logic.py from the Python source in /repo - do not edit.",
          "Integer decision logic of Code Limit, one definition per decision site, obtained by running",
          "the real functions on symbolic integers and collecting one leaf per path. -/",
          "namespace CL.Gen.Logic", ""]


def translate_here(stats=None):
    """must run in a process whose `codelimit` is the tree to translate"""
    stats = [] if stats is None else stats
    defs = []
    for g in build_groups():
        try:
            defs.extend(emit_group(g, stats))
        except Refuse as e:
            msg = str(e)
            raise Refuse(msg if msg.startswith(g.name) else "%s: %s" % (g.name, msg))
    return "\n".join(HEADER + defs + ["end CL.Gen.Logic"]) + "\n"
