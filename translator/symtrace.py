"""Symbolic tracing of real Python code over named integers (the engine of translator/logic.py).

A `SymInt` wraps a Lean term over named `Int` variables and mimics the part of `int` that the
decision logic of Code Limit uses.  Comparisons produce a `SymBool`; whenever Python needs a
concrete truth value (`if`, `and`, `or`, `not`, `while`, `min`, `max`, `sorted`, `bisect`, ...)
`SymBool.__bool__` asks the active `Explorer` which way to go.  The explorer re-runs the traced
callable once per path (depth first), collects (path condition, outcome) leaves and builds a
decision tree from them.  See the header of logic.py for what is trusted about this.
"""
import builtins
import os
import sys
import traceback


class Refuse(Exception):
    pass


# ---------------------------------------------------------------------------------------------
# where are we in the traced source?

_ROOT = [None]          # repository root: refusals name the innermost frame below it


def set_root(path):
    _ROOT[0] = os.path.realpath(path) + os.sep


def _rel(filename):
    real = os.path.realpath(filename)
    root = _ROOT[0]
    if root and real.startswith(root):
        return real[len(root):]
    return None


def here():
    """file:line of the innermost active frame that belongs to the traced repository"""
    f = sys._getframe(1)
    while f is not None:
        r = _rel(f.f_code.co_filename)
        if r:
            return "%s:%d" % (r, f.f_lineno)
        f = f.f_back
    return "<tracer>"


def where_tb(tb):
    """file:line of the innermost traceback entry that belongs to the traced repository"""
    best = None
    for fs in traceback.extract_tb(tb):
        r = _rel(fs.filename)
        if r:
            best = "%s:%d" % (r, fs.lineno)
    return best or "<tracer>"


def refuse(msg):
    raise Refuse("%s at %s" % (msg, here()))


# ---------------------------------------------------------------------------------------------
# terms (plain tuples):  ('var', name) ('lit', n) ('add', a, b) ('sub', a, b) ('mul', a, b)
#                        ('neg', a) ('pct', x, t)
# atoms:                 ('cmp', op, a, b) with op one of < ≤ > ≥ = ≠     ('bvar', name)

def lit(n):
    return ("lit", int(n))


def term_str(t):
    k = t[0]
    if k == "var":
        return t[1]
    if k == "lit":
        return "(%d : Int)" % t[1]
    if k == "neg":
        return "(-%s)" % term_str(t[1])
    if k == "pct":
        return "(CL.pct %s %s)" % (term_str(t[1]), term_str(t[2]))
    o = {"add": "+", "sub": "-", "mul": "*"}[k]
    return "(%s %s %s)" % (term_str(t[1]), o, term_str(t[2]))


def term_vars(t, out=None):
    out = set() if out is None else out
    if t[0] in ("var", "bvar"):
        out.add(t[1])
    elif t[0] != "lit":
        for s in t[1:]:
            if isinstance(s, tuple):
                term_vars(s, out)
    return out


def atom_str(a):
    if a[0] == "bvar":
        return "(%s = true)" % a[1]
    return "(%s %s %s)" % (term_str(a[2]), a[1], term_str(a[3]))


_NEG = {"<": "≥", "≥": "<", ">": "≤", "≤": ">", "=": "≠", "≠": "="}


def canon(a):
    """atom -> (key, polarity): every comparison is `x < y`, `x = y` or a negation of one (Int
    is a linear order), so that `v <= 60` and `v > 60` are recognised as one decision"""
    if a[0] == "bvar":
        return a, True
    _, op, x, y = a
    if op == "<":
        return ("lt", x, y), True
    if op == ">":
        return ("lt", y, x), True
    if op == "≤":
        return ("lt", y, x), False
    if op == "≥":
        return ("lt", x, y), False
    lo, hi = sorted((x, y), key=repr)
    return ("eq", lo, hi), op == "="


# ---------------------------------------------------------------------------------------------
# symbolic values

def _fold(op, a, b):
    """integer ring identities only: constants are folded, `x + 0`, `0 + x`, `x - 0`, `x * 1`,
    `1 * x` are `x`, `x * 0` and `0 * x` are `0`"""
    if a[0] == "lit" and b[0] == "lit":
        x, y = a[1], b[1]
        return lit(x + y if op == "add" else x - y if op == "sub" else x * y)
    if op == "add":
        if a == lit(0):
            return b
        if b == lit(0):
            return a
    if op == "sub" and b == lit(0):
        return a
    if op == "mul":
        if a == lit(1):
            return b
        if b == lit(1):
            return a
        if a == lit(0) or b == lit(0):
            return lit(0)
    return (op, a, b)


def _as_term(x):
    """term of an int-like operand, None if it is not int-like"""
    if isinstance(x, SymInt):
        return x.term
    if isinstance(x, bool):
        return lit(int(x))
    if isinstance(x, int):
        return lit(x)
    if isinstance(x, SymBool):
        return lit(1 if bool(x) else 0)
    return None


def _operand(x, what):
    t = _as_term(x)
    if t is None:
        if isinstance(x, (float, complex, SymRatio)):
            refuse("float arithmetic on a symbolic integer (`%s` with %r) is outside the translated fragment" % (what, x))
        return None
    return t


def wrap(t):
    """a term as a Python value: literals become plain ints again"""
    return t[1] if t[0] == "lit" else SymInt(t)


class SymInt:
    """an `int` whose value is the Lean term `self.term`"""
    __slots__ = ("term",)

    def __init__(self, term):
        self.term = ("var", term) if isinstance(term, str) else term

    # -- arithmetic ---------------------------------------------------------------------------
    def _bin(self, other, op, swap=False):
        t = _operand(other, op)
        if t is None:
            return NotImplemented
        a, b = (t, self.term) if swap else (self.term, t)
        return wrap(_fold(op, a, b))

    def __add__(self, o): return self._bin(o, "add")
    def __radd__(self, o): return self._bin(o, "add", True)
    def __sub__(self, o): return self._bin(o, "sub")
    def __rsub__(self, o): return self._bin(o, "sub", True)
    def __mul__(self, o): return self._bin(o, "mul")
    def __rmul__(self, o): return self._bin(o, "mul", True)
    def __neg__(self): return wrap(("neg", self.term))
    def __pos__(self): return self

    def __abs__(self):
        return -self if self < 0 else self

    def __truediv__(self, o):
        t = _operand(o, "/")
        return NotImplemented if t is None else SymRatio(0, self.term, t)

    def __rtruediv__(self, o):
        t = _operand(o, "/")
        return NotImplemented if t is None else SymRatio(0, t, self.term)

    def _unsupported(name):
        def f(self, *a, **k):
            refuse("`%s` on a symbolic integer is outside the translated fragment" % name)
        return f

    for _n in ("floordiv", "rfloordiv", "mod", "rmod", "divmod", "rdivmod", "pow", "rpow", "lshift", "rlshift",
               "rshift", "rrshift", "and", "rand", "or", "ror", "xor", "rxor", "invert", "float", "complex"):
        locals()["__%s__" % _n] = _unsupported(_n)
    del _n

    # an int is its own ceiling / floor / rounding
    def __ceil__(self): return self
    def __floor__(self): return self
    def __trunc__(self): return self

    def __round__(self, ndigits=None):
        if ndigits is not None:
            refuse("round(x, ndigits) on a symbolic integer")
        return self

    def __int__(self):
        refuse("int() of a symbolic integer needs a concrete value")

    def __index__(self):
        refuse("a symbolic integer is used as an index, a length, a repetition count or a range bound (needs a concrete value)")

    def __hash__(self):
        refuse("a symbolic integer is used as a dictionary key or set element")

    # -- comparisons --------------------------------------------------------------------------
    def _cmp(self, other, op):
        t = _operand(other, op)
        if t is None:
            return NotImplemented
        if self.term[0] == "lit" and t[0] == "lit":      # cannot happen (wrap), kept for safety
            x, y = self.term[1], t[1]
            return {"<": x < y, "≤": x <= y, ">": x > y, "≥": x >= y, "=": x == y, "≠": x != y}[op]
        return SymBool(("cmp", op, self.term, t))

    def __lt__(self, o): return self._cmp(o, "<")
    def __le__(self, o): return self._cmp(o, "≤")
    def __gt__(self, o): return self._cmp(o, ">")
    def __ge__(self, o): return self._cmp(o, "≥")
    def __eq__(self, o): return self._cmp(o, "=")
    def __ne__(self, o): return self._cmp(o, "≠")

    def __bool__(self):
        return bool(self != 0)

    # -- text ---------------------------------------------------------------------------------
    def __format__(self, spec):
        return Explorer.current().placeholder(self.term, spec)

    def __str__(self):
        return self.__format__("")

    def __repr__(self):
        return self.__format__("")


class SymRatio:
    """the one float idiom `ceil((x / t) * 100 - 0.001)`: stage 0 = `x / t`, 1 = `* 100`,
    2 = `- 0.001`; `__ceil__` at stage 2 gives `CL.pct x t` (the exact rational reading)"""
    __slots__ = ("stage", "num", "den")

    def __init__(self, stage, num, den):
        self.stage, self.num, self.den = stage, num, den

    def _no(self, what):
        refuse("float arithmetic other than ceil((x / t) * 100 - 0.001) (%s on `%s / %s` at stage %d)"
               % (what, term_str(self.num), term_str(self.den), self.stage))

    def __mul__(self, o):
        if self.stage == 0 and type(o) is int and o == 100:
            return SymRatio(1, self.num, self.den)
        self._no("* %r" % (o,))

    __rmul__ = __mul__

    def __sub__(self, o):
        if self.stage == 1 and type(o) is float and o == 0.001:
            return SymRatio(2, self.num, self.den)
        self._no("- %r" % (o,))

    def __ceil__(self):
        if self.stage == 2:
            return SymInt(("pct", self.num, self.den))
        self._no("ceil")

    def _other(name):
        def f(self, *a, **k):
            self._no(name)
        return f

    for _n in ("add", "radd", "rsub", "truediv", "rtruediv", "floordiv", "rfloordiv", "mod", "rmod", "pow", "rpow",
               "neg", "pos", "abs", "lt", "le", "gt", "ge", "eq", "ne", "bool", "float", "int", "floor", "trunc",
               "round", "format", "str", "repr", "hash", "index"):
        locals()["__%s__" % _n] = _other(_n)
    del _n


class SymBool:
    """a truth value that is the Lean proposition `atom` (or its negation)"""
    __slots__ = ("atom", "positive")

    def __init__(self, atom, positive=True):
        self.atom = ("bvar", atom) if isinstance(atom, str) else atom
        self.positive = positive

    def __bool__(self):
        v = Explorer.current().decide(self.atom)
        return v if self.positive else not v

    # `&`, `|`, `^`, `==`, `!=`, int(), str() need the concrete value: a decision like any other
    def __and__(self, o): return bool(self) & o
    def __rand__(self, o): return o & bool(self)
    def __or__(self, o): return bool(self) | o
    def __ror__(self, o): return o | bool(self)
    def __xor__(self, o): return bool(self) ^ o
    def __rxor__(self, o): return o ^ bool(self)
    def __eq__(self, o): return bool(self) == (bool(o) if isinstance(o, SymBool) else o)
    def __ne__(self, o): return bool(self) != (bool(o) if isinstance(o, SymBool) else o)
    def __int__(self): return int(bool(self))
    def __index__(self): return int(bool(self))
    def __add__(self, o): return int(self) + o
    def __radd__(self, o): return o + int(self)
    def __format__(self, spec): return format(bool(self), spec)
    def __str__(self): return str(bool(self))
    def __repr__(self): return repr(bool(self))

    def __hash__(self):
        refuse("a symbolic truth value is used as a dictionary key or set element")


class SymList:
    """a list of unknown (symbolic) length: `len` (rebound in the traced modules, see `rebound`)
    gives a `SymInt`; a prefix slice `[:k]` with concrete `k` is recorded; iteration yields
    nothing (the elements are not part of the decision) and is recorded"""

    def __init__(self, length, log=None, cut=None):
        self.length = length
        self.log = log if log is not None else []
        self.cut = cut

    def sym_len(self):
        if self.cut is not None:
            refuse("len() of an already truncated symbolic list")
        return self.length

    def __len__(self):
        refuse("len() of a symbolic list through a binding the tracer did not replace")

    def __bool__(self):
        return bool(self.sym_len() > 0)

    def __getitem__(self, k):
        if (isinstance(k, slice) and k.start is None and k.step is None and type(k.stop) is int and k.stop >= 0
                and self.cut is None):
            return SymList(self.length, self.log, k.stop)
        refuse("only a prefix slice [:k] with a concrete k of a symbolic list is supported (got %r)" % (k,))

    def __iter__(self):
        self.log.append(("iter", self.cut))
        return iter(())


class DontCare:
    """leaf value: the site says nothing on this path (e.g. the number shown in a message that is
    not printed); merges with any other leaf"""
    def __repr__(self):
        return "DC"


DC = DontCare()


# ---------------------------------------------------------------------------------------------
# path exploration

class PathError:
    """outcome of a path on which the traced code raised (cross-check exploration only)"""


class Explorer:
    _current = None
    MAX_PATHS = 4096

    def __init__(self, name, prune=True, errors_are_dontcare=False):
        self.name = name
        self.prune = prune and not os.environ.get("TRACER_NO_PRUNE")
        self.errors_are_dontcare = errors_are_dontcare
        self.prefix = []
        self.trace = []         # [(atom as first asked, value of that atom)]
        self.known = {}         # canonical key -> value of the canonical atom
        self.bounds = {}        # term -> [lo, hi, excluded set]
        self.placeholders = []

    @classmethod
    def current(cls):
        if cls._current is None:
            raise Refuse("a symbolic value is used outside a traced run")
        return cls._current

    def placeholder(self, term, spec):
        self.placeholders.append((term, spec))
        return "⟦%d⟧" % (len(self.placeholders) - 1)

    # -- deciding -----------------------------------------------------------------------------
    def _lit_bound(self, key):
        """key about one term and one literal -> (term, kind, c) meaning term<=c / term>=c / term=c"""
        k, x, y = key
        if k == "lt":
            if y[0] == "lit" and x[0] != "lit":
                return x, "le", y[1] - 1        # x < c  <->  x <= c-1
            if x[0] == "lit" and y[0] != "lit":
                return y, "ge", x[1] + 1        # c < y  <->  y >= c+1
        elif k == "eq":
            if y[0] == "lit" and x[0] != "lit":
                return x, "eq", y[1]
            if x[0] == "lit" and y[0] != "lit":
                return y, "eq", x[1]
        return None

    def _implied(self, key):
        """truth value of the canonical atom if the integer bounds collected on this path decide it"""
        if key[0] == "bvar":
            return None
        if key[1][0] == "lit" and key[2][0] == "lit":
            return key[1][1] < key[2][1] if key[0] == "lt" else key[1][1] == key[2][1]
        if key[1] == key[2]:
            return key[0] == "eq"
        if not self.prune:
            return None
        b = self._lit_bound(key)
        if b is None or b[0] not in self.bounds:
            return None
        t, kind, c = b
        lo, hi, excl = self.bounds[t]
        if kind == "le":
            if hi is not None and hi <= c:
                return True
            if lo is not None and lo > c:
                return False
        elif kind == "ge":
            if lo is not None and lo >= c:
                return True
            if hi is not None and hi < c:
                return False
        else:
            if lo is not None and hi is not None and lo == hi == c:
                return True
            if (lo is not None and c < lo) or (hi is not None and c > hi) or c in excl:
                return False
        return None

    def _learn(self, key, value):
        self.known[key] = value
        if key[0] == "bvar":
            return
        b = self._lit_bound(key)
        if b is None:
            return
        t, kind, c = b
        rec = self.bounds.setdefault(t, [None, None, set()])
        if kind == "eq":
            if value:
                rec[0] = c if rec[0] is None else max(rec[0], c)
                rec[1] = c if rec[1] is None else min(rec[1], c)
            else:
                rec[2].add(c)
            return
        if not value:                               # not (t <= c) = t >= c+1 ; not (t >= c) = t <= c-1
            kind, c = ("ge", c + 1) if kind == "le" else ("le", c - 1)
        if kind == "le":
            rec[1] = c if rec[1] is None else min(rec[1], c)
        else:
            rec[0] = c if rec[0] is None else max(rec[0], c)

    def decide(self, atom):
        key, pol = canon(atom)
        v = self.known.get(key)
        if v is None:
            v = self._implied(key)
        if v is None:
            k = len(self.trace)
            if k < len(self.prefix):
                want_atom, asked = self.prefix[k]
                if want_atom != atom:
                    raise Refuse("%s: the traced code is not deterministic (decision %d was %s, now %s) at %s"
                                 % (self.name, k, atom_str(want_atom), atom_str(atom), here()))
            else:
                asked = True
            self.trace.append((atom, asked))
            v = asked if pol else not asked
            self._learn(key, v)
        return v if pol else not v

    # -- running ------------------------------------------------------------------------------
    def explore(self, fn):
        """fn() -> outcome, run once per path; returns [(trace, outcome, placeholders)]"""
        leaves = []
        self.prefix = []
        self.entry = None       # "file:line (function)" of the first repository function entered

        def first_call(frame, event, arg):
            if event == "call" and self.entry is None:
                r = _rel(frame.f_code.co_filename)
                if r:
                    self.entry = "%s:%d (%s)" % (r, frame.f_code.co_firstlineno, frame.f_code.co_name)
                    sys.setprofile(None)
        while True:
            self.trace, self.known, self.bounds, self.placeholders = [], {}, {}, []
            prev, Explorer._current = Explorer._current, self
            try:
                try:
                    if not leaves:
                        sys.setprofile(first_call)
                    try:
                        out = fn()
                    finally:
                        sys.setprofile(None)
                except Refuse:
                    raise
                except RecursionError:
                    raise Refuse("%s: recursion limit reached while tracing" % self.name)
                except Exception as e:      # noqa
                    if self.errors_are_dontcare:
                        out = PathError
                    else:
                        tb = sys.exc_info()[2]
                        raise Refuse("%s: the traced code raised %s: %s at %s on the path [%s]"
                                     % (self.name, type(e).__name__, e, where_tb(tb),
                                        ", ".join(("" if v else "¬") + atom_str(a) for a, v in self.trace)))
            finally:
                Explorer._current = prev
            if len(self.trace) < len(self.prefix):
                raise Refuse("%s: the traced code is not deterministic (path became shorter)" % self.name)
            leaves.append((list(self.trace), out, list(self.placeholders)))
            if len(leaves) > self.MAX_PATHS:
                raise Refuse("%s: more than %d paths" % (self.name, self.MAX_PATHS))
            nxt = list(self.trace)
            while nxt and not nxt[-1][1]:
                nxt.pop()
            if not nxt:
                return leaves
            nxt[-1] = (nxt[-1][0], False)
            self.prefix = nxt


# ---------------------------------------------------------------------------------------------
# decision trees:  ('leaf', value)  |  ('ite', atom, then, else)

def build_tree(leaves, project):
    """leaves from Explorer.explore (depth-first order); project(outcome, placeholders) -> leaf value"""
    def rec(items, depth):
        if len(items) == 1 and len(items[0][0]) == depth:
            return ("leaf", project(items[0][1], items[0][2]))
        atom = items[0][0][depth][0]
        yes = [it for it in items if it[0][depth][1]]
        no = [it for it in items if not it[0][depth][1]]
        if not yes or not no or any(len(it[0]) <= depth or it[0][depth][0] != atom for it in items):
            raise Refuse("internal: malformed exploration tree")
        return ("ite", atom, rec(yes, depth + 1), rec(no, depth + 1))
    return rec(leaves, 0)


def merge(x, y):
    """the common refinement of two trees that agree wherever neither is a don't-care, else None"""
    if x[0] == "leaf" and x[1] is DC:
        return y
    if y[0] == "leaf" and y[1] is DC:
        return x
    if x[0] == "leaf" or y[0] == "leaf":
        return x if x == y else None
    if x[1] != y[1]:
        return None
    a, b = merge(x[2], y[2]), merge(x[3], y[3])
    if a is None or b is None:
        return None
    return ("ite", x[1], a, b)


def simplify(t):
    """bottom-up: `if c then X else X` is `X` (don't-care leaves agree with everything)"""
    if t[0] == "leaf":
        return t
    a, b = simplify(t[2]), simplify(t[3])
    m = merge(a, b)
    if m is not None:
        return m
    return ("ite", t[1], a, b)


def tree_vars(t, out=None):
    out = set() if out is None else out
    if t[0] == "ite":
        if t[1][0] == "bvar":
            out.add(t[1][1])
        else:
            term_vars(t[1][2], out)
            term_vars(t[1][3], out)
        tree_vars(t[2], out)
        tree_vars(t[3], out)
    elif isinstance(t[1], Leaf):
        for x in t[1].terms():
            term_vars(x, out)
    return out


def count_leaves(t):
    return 1 if t[0] == "leaf" else count_leaves(t[2]) + count_leaves(t[3])


class Leaf:
    """a leaf value: ('int', term) ('nat', n) ('str', s) ('bool', b) ('tuple', leaves)"""
    __slots__ = ("kind", "val")

    def __init__(self, kind, val):
        self.kind, self.val = kind, val

    def __eq__(self, o):
        return isinstance(o, Leaf) and (o.kind, o.val) == (self.kind, self.val)

    def __hash__(self):
        return hash((self.kind, self.val))

    def __repr__(self):
        return "Leaf(%s, %r)" % (self.kind, self.val)

    def terms(self):
        if self.kind == "int":
            return [self.val]
        if self.kind == "tuple":
            return [t for p in self.val for t in p.terms()]
        return []

    def text(self, names=None):
        if self.kind == "int":
            return term_text(self.val, names, True)
        if self.kind == "nat":
            return "(%d : Nat)" % self.val
        if self.kind == "str":
            return lean_string(self.val)
        if self.kind == "bool":
            return "true" if self.val else "false"
        return "(" + ", ".join(p.text(names) for p in self.val) + ")"


def leaf_int(x):
    t = _as_term(x)
    if t is None:
        raise Refuse("expected an integer result, got %r" % (x,))
    return Leaf("int", t)


def leaf_nat(n):
    if type(n) is not int or n < 0:
        raise Refuse("expected a concrete natural number, got %r" % (n,))
    return Leaf("nat", n)


def lean_string(s):
    return '"' + s.replace("\\", "\\\\").replace('"', '\\"') + '"'


def leaf_str(s):
    if type(s) is not str:
        raise Refuse("expected a concrete string, got %r" % (s,))
    return Leaf("str", s)


def leaf_bool(b):
    if type(b) is not bool:
        raise Refuse("expected a concrete truth value, got %r" % (b,))
    return Leaf("bool", b)


def leaf_tuple(*parts):
    return Leaf("tuple", tuple(parts))


# -- rendering ---------------------------------------------------------------------------------
# Repeated compound subterms are named by `let`s in front of the tree (pure abbreviation: Lean's
# `let x := e; b` is `b[e/x]`, and every term is total).

def term_text(t, names=None, top=False):
    """fully parenthesised (no reliance on precedence) except at the top of a let / leaf"""
    if names and t in names:
        return names[t]
    k = t[0]
    if k == "var":
        return t[1]
    if k == "lit":
        return "(%d : Int)" % t[1]
    if k == "neg":
        r = "-%s" % term_text(t[1], names)
    elif k == "pct":
        r = "CL.pct %s %s" % (term_text(t[1], names), term_text(t[2], names))
    else:
        r = "%s %s %s" % (term_text(t[1], names), {"add": "+", "sub": "-", "mul": "*"}[k], term_text(t[2], names))
    return r if top else "(%s)" % r


def atom_text(a, names=None, top=False):
    if a[0] == "bvar":
        r = "%s = true" % a[1]
    else:
        r = "%s %s %s" % (term_text(a[2], names), a[1], term_text(a[3], names))
    return r if top else "(%s)" % r


def shared_terms(tree):
    """[(name, term)]: the percentage terms `CL.pct x t` of a definition and their compound
    operands, when written more than once (operands first)"""
    acc = {}

    def occ(t):
        if t[0] in ("var", "lit"):
            return
        acc[t] = acc.get(t, 0) + 1
        for x in t[1:]:
            occ(x)

    def walk(t):
        if t[0] == "ite":
            if t[1][0] == "cmp":
                occ(t[1][2])
                occ(t[1][3])
            walk(t[2])
            walk(t[3])
        elif isinstance(t[1], Leaf):
            for x in t[1].terms():
                occ(x)
    walk(tree)
    pcts = sorted((t for t in acc if t[0] == "pct" and acc[t] >= 2), key=repr)
    ops = sorted({x for t in pcts for x in t[1:] if x[0] not in ("var", "lit")}, key=repr)
    return [("t%d" % (i + 1), t) for i, t in enumerate(ops + pcts)]


def render_lets(shared):
    names, lines = {}, []
    for name, t in shared:
        lines.append("let %s : Int := %s" % (name, term_text(t, names, True)))
        names[t] = name
    return names, lines


def render_value(t, names=None, indent="  "):
    """value-typed tree -> Lean `if .. then .. else ..`"""
    if t[0] == "leaf":
        if t[1] is DC:
            raise Refuse("internal: don't-care leaf left in a value tree")
        return t[1].text(names)
    c = atom_text(t[1], names, True)
    b = render_value(t[3], names, indent)
    if t[2][0] == "ite":
        a = render_value(t[2], names, indent + "  ")
        return "if %s then\n%s  %s\n%selse %s" % (c, indent, a, indent, b)
    return "if %s then %s\n%selse %s" % (c, render_value(t[2], names, indent), indent, b)


def render_prop(t, names=None):
    """tree with true/false leaves -> an equivalent Lean proposition
    (`if c then A else B` is `(c ∧ A) ∨ (¬c ∧ B)`, simplified when a branch is a constant)"""
    if t[0] == "leaf":
        if t[1] is DC:
            raise Refuse("internal: don't-care leaf left in a proposition tree")
        if t[1].kind != "bool":
            raise Refuse("internal: non-boolean leaf in a proposition tree")
        return "True" if t[1].val else "False"
    c = atom_text(t[1], names)
    a, b = render_prop(t[2], names), render_prop(t[3], names)
    if a == "True" and b == "False":
        return c
    if a == "False" and b == "True":
        return "(¬ %s)" % c
    if b == "False":
        return "(%s ∧ %s)" % (c, a)
    if a == "True":
        return "(%s ∨ %s)" % (c, b)
    if a == "False":
        return "((¬ %s) ∧ %s)" % (c, b)
    if b == "True":
        return "((¬ %s) ∨ %s)" % (c, a)
    return "((%s ∧ %s) ∨ ((¬ %s) ∧ %s))" % (c, a, c, b)


def render_def(tree, is_prop):
    names, lines = render_lets(shared_terms(tree))
    body = render_prop(tree, names) if is_prop else render_value(tree, names)
    return "\n  ".join(lines + [body])


# ---------------------------------------------------------------------------------------------
# self-check of the explorer: on sample points exactly one explored path applies, and the
# simplified tree gives that path's leaf (validates caching, pruning and merging)

def eval_term(t, env):
    k = t[0]
    if k == "var":
        return env[t[1]]
    if k == "lit":
        return t[1]
    if k == "neg":
        return -eval_term(t[1], env)
    if k == "pct":
        x, d = eval_term(t[1], env), eval_term(t[2], env)
        return 0 if d == 0 else -((d - 100000 * x) // (1000 * d))   # only compared with itself
    a, b = eval_term(t[1], env), eval_term(t[2], env)
    return a + b if k == "add" else a - b if k == "sub" else a * b


def eval_atom(a, env):
    if a[0] == "bvar":
        return bool(env[a[1]])
    x, y = eval_term(a[2], env), eval_term(a[3], env)
    return {"<": x < y, "≤": x <= y, ">": x > y, "≥": x >= y, "=": x == y, "≠": x != y}[a[1]]


def eval_leaf(v, env):
    if v is DC or not isinstance(v, Leaf):
        return v
    if v.kind == "int":
        return eval_term(v.val, env)
    if v.kind == "tuple":
        return tuple(eval_leaf(p, env) for p in v.val)
    return (v.kind, v.val)


def eval_tree(t, env):
    while t[0] == "ite":
        t = t[2] if eval_atom(t[1], env) else t[3]
    return eval_leaf(t[1], env)


def _literals(x, out):
    if isinstance(x, tuple):
        if x and x[0] == "lit":
            out.add(x[1])
        else:
            for y in x:
                _literals(y, out)


def sample_points(leaf_sets, int_vars, bool_vars, samples):
    import itertools
    import random
    lits = set()
    for leaves in leaf_sets:
        for trace, _o, _p in leaves:
            for a, _v in trace:
                _literals(a, lits)
    cand = sorted({c + d for c in lits | {0} for d in (-1, 0, 1)} | {-7, 100, 1000})
    rnd = random.Random(12345)
    int_vars, bool_vars = sorted(int_vars), sorted(bool_vars)
    space = len(cand) ** len(int_vars) * 2 ** len(bool_vars)
    if space <= samples:
        points = [dict(zip(int_vars + bool_vars, vals)) for vals in
                  itertools.product(*([cand] * len(int_vars) + [[False, True]] * len(bool_vars)))]
    else:
        points = [dict([(v, rnd.choice(cand)) for v in int_vars] + [(v, rnd.random() < 0.5) for v in bool_vars])
                  for _ in range(samples)]
    return points


def selfcheck(name, leaves, tree, project, int_vars, bool_vars, plain_leaves=None, samples=1500):
    """`plain_leaves`: the same callable explored WITHOUT bound pruning (paths on which it raised
    are don't-cares): its tree must agree with the pruned one on every sample point"""
    points = sample_points([leaves] + ([plain_leaves] if plain_leaves else []), int_vars, bool_vars, samples)
    plain_tree = None
    if plain_leaves:
        plain_tree = simplify(build_tree(plain_leaves, lambda o, ph: DC if o is PathError else project(o, ph)))
    for env in points:
        hits = [(o, ph) for trace, o, ph in leaves if all(eval_atom(a, env) == v for a, v in trace)]
        if len(hits) != 1:
            raise Refuse("%s: internal self-check failed: %d explored paths apply at %r" % (name, len(hits), env))
        want = eval_leaf(project(*hits[0]), env)
        got = eval_tree(tree, env)
        if want is not DC and got != want:
            raise Refuse("%s: internal self-check failed: tree gives %r, the explored path %r at %r" % (name, got, want, env))
        if plain_tree is not None:
            other = eval_tree(plain_tree, env)
            if other is not DC and got is not DC and other != got:
                raise Refuse("%s: internal self-check failed: with bound pruning %r, without %r at %r" % (name, got, other, env))


# ---------------------------------------------------------------------------------------------
# rebinding builtins inside the traced modules

def sym_len(x):
    """`len` for the traced modules: objects with a symbolic length answer for themselves"""
    f = getattr(type(x), "sym_len", None)
    return f(x) if f is not None else builtins.len(x)


class rebound:
    """temporarily bind names (e.g. `len`, `range`) in the globals of every loaded module whose
    name starts with `prefix`: functions look builtins up in their module globals first, so the
    real, unmodified code then calls the symbolic-aware version"""

    def __init__(self, prefix, **names):
        self.prefix, self.names, self.saved = prefix, names, []

    def __enter__(self):
        for mname, mod in list(sys.modules.items()):
            if mod is not None and (mname == self.prefix or mname.startswith(self.prefix + ".")):
                for k, v in self.names.items():
                    self.saved.append((mod, k, mod.__dict__.get(k, self)))
                    mod.__dict__[k] = v
        return self

    def __exit__(self, *exc):
        for mod, k, old in reversed(self.saved):
            if old is self:
                mod.__dict__.pop(k, None)
            else:
                mod.__dict__[k] = old
        return False
