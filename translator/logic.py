"""Source -> Lean translator for the integer decision logic of Code Limit, by SYMBOLIC TRACING.

    logic.py <repo path>        prints lean/CodeLimit/Gen/Logic.lean (namespace CL.Gen.Logic)
    logic.translate(repo)       the same text (raises logic.Refuse); used by harness/ and tools/regen.py

One Lean definition per decision site (profile buckets, colours, check's counters / exit code /
quiet condition, findings thresholds and cut-offs, `quality_profile_percentage`, the verdict
chains of both formats, SummaryTable styles, ten `delta == 0` guards, `TokenRange` / `Scope`
comparisons, the index tests of `_get_nearest_block` / `_scope_tokens`, `Balanced.accept`, the
pre-emption guard of `find_all`, `scan_file`'s end location, Python's indentation tests).  The
property theorems are proved ABOUT these definitions, so a semantic change of the code changes
the Lean term and breaks a proof, while a behaviour-preserving refactoring yields an equivalent
term (usually the identical one) and the proofs, which go through automation, still compile.

How it works (symtrace.py = engine, sites.py = the sites)
----------------------------------------------------------
The REAL functions of the repository given on the command line are imported in a fresh
subprocess (the repository is put first on `sys.path`; the run is refused if `codelimit` resolves
to any other tree) and CALLED with `SymInt` arguments: objects that wrap a Lean term over named
`Int` variables.  Comparisons give a `SymBool`; whenever Python needs its truth value the path
explorer picks a branch, and the function is re-run once per path (depth first, at most 4096
paths).  Each path ends in a concrete outcome that a per-site classifier maps to the finite class
the definition's type needs (bucket index, colour name, verdict code + the expression shown,
Bool, tuple of terms); the (path condition, class) leaves become a Lean `if c then .. else ..`
tree (`Prop`-valued sites: the equivalent proposition).  Nothing looks at the shape of the source.

What is trusted about the tracer (all of it is small and in symtrace.py)
------------------------------------------------------------------------
* Python semantics mirrored by `SymInt` (a Python `int` is read as a Lean `Int`, both unbounded):
  `+ - *`, unary `-`/`+`, `abs` (a decision), `< <= > >= == !=` against ints and SymInts (reflected
  operators included, `bool` operands count as 0/1), truthiness = `!= 0`, `math.ceil/floor/trunc`
  and `round(x)` of an int are the int itself, `sum`, `min`, `max`, `sorted`, `bisect` work through
  `+` and `<`.  Comparison with a non-number (`None`, `str`) is `NotImplemented`, i.e. Python's own
  fallback (`==` False, `<` TypeError).  Constant folding uses ring identities only
  (`0 + x`, `x - 0`, `1 * x`, `0 * x`, literal op literal).
* The one float idiom `ceil((x / t) * 100 - 0.001)` (also `100 * (x / t)`) is read EXACTLY as
  `CL.pct x t` (Model/Pct.lean); IEEE evaluation is tied by C19's correspondence run, not here.
* `__format__` / `str` / `repr` of a SymInt give a placeholder `⟦k⟧`; classifiers recover which
  expression a message shows from it (format specs such as `:n`, `:+n`, `:3` are recorded, not
  interpreted).
* `SymBool.__bool__` is the only source of branching; `and` / `or` / `not` / chained comparisons /
  conditional expressions / `if` / `while` / comprehension filters all go through it because
  CPython evaluates them through `__bool__`.  Decisions are cached per path on a canonical form
  (`a <= b` is `not b < a`, `a > b` is `b < a`, `a != b` is `not a == b`: Int is a linear order)
  and decided without branching when integer BOUNDS against literals collected on the path imply
  them (`v <= 15` known, `v <= 30` asked).  This pruning only removes unreachable branches; set
  TRACER_NO_PRUNE=1 to emit them instead.  `if c then X else X` is emitted as `X`.
* Self-check on every run (symtrace.selfcheck): every callable is explored a second time WITHOUT
  bound pruning (paths on which it raises count as don't-care); on a grid of sample points around
  every literal (a) exactly one explored path applies, (b) the emitted tree gives that path's leaf,
  (c) the pruned and the unpruned tree agree.  A disagreement is a refusal.
* Don't-care leaves: where a site observes nothing (the number in a message that is not printed,
  a block that contains the header for `nearest_candidate`) the leaf merges with its sibling; the
  conditions are spelled out in sites.py next to each site.
* `len` and `range` are rebound in the globals of the `codelimit.*` modules for three sites only
  (`print_findings` of both formats: a `SymList` of symbolic length that records the prefix slice
  and the iteration; `_scope_tokens`: `range(a, b)` with symbolic bounds yields two arbitrary
  successive indices `i`, `j`).  The code itself is not modified or recompiled.
* Stubs are duck-typed stand-ins for DATA only (a report whose `quality_profile()` returns four
  SymInts, a `CheckResult` with symbolic counters, `scan_file` / `lex` / `_read_file` replaced as in
  harness/props/C02.py, predicates whose `accept` returns a symbolic truth value); output is
  observed by recording `Console.print`, `rich.print` and stdout.

What is refused (always with file:line of the innermost frame inside the repository)
----------------------------------------------------------------------------------
floats other than the one idiom; `// % ** << >> & | ^ ~`, `int()`, `float()`, hashing (dict key /
set element), `__index__` (list index, slice bound, `range`, repetition `"x" * n`) of a symbolic
integer; an exception raised by the traced code on some path; non-deterministic re-execution;
more than 4096 paths; a failed self-check; an outcome the classifier does not know (e.g. an unknown verdict message,
a delta text that is neither `<n>` nor `<n> (<+d>)`); a definition that would depend on a
variable that is not a parameter of the site.  NOT detected: `isinstance(x, int)` / `type(x)`
tests on a symbolic value take the non-int branch silently (none exist in the translated sites;
the generated definitions are also run against the real functions by the correspondence checks).
"""
import os
import subprocess
import sys

HERE = os.path.dirname(os.path.abspath(__file__))
if HERE not in sys.path:
    sys.path.insert(0, HERE)

from symtrace import Refuse  # noqa: E402  (re-exported: harness code catches logic.Refuse)


def _child(repo, stats_to=None):
    """runs in a fresh interpreter: import the tree under `repo` and trace it"""
    import warnings
    warnings.simplefilter("ignore")
    repo = os.path.realpath(repo)
    sys.path[:] = [repo] + [p for p in sys.path if os.path.realpath(p or ".") != repo]
    for name in [m for m in sys.modules if m == "codelimit" or m.startswith("codelimit.")]:
        del sys.modules[name]
    import symtrace
    symtrace.set_root(repo)
    try:
        import codelimit
        origin = os.path.realpath(os.path.dirname(codelimit.__file__))
        if origin != os.path.join(repo, "codelimit"):
            raise Refuse("`import codelimit` resolves to %s, not to the tree under %s" % (origin, repo))
        import sites
        stats = []
        text = sites.translate_here(stats)
    except Refuse as e:
        print("REFUSED:", e)
        return 1
    except Exception as e:  # noqa
        import traceback
        tb = sys.exc_info()[2]
        print("REFUSED: %s: %s at %s (while importing or tracing)" % (type(e).__name__, e, symtrace.where_tb(tb)))
        if os.environ.get("TRACER_DEBUG"):
            traceback.print_exc()
        return 1
    sys.stdout.write(text)
    if stats_to:
        with open(stats_to, "w") as f:
            for name, paths, leaves in stats:
                f.write("%s %d %d\n" % (name, paths, leaves))
    return 0


def translate(repo):
    """the Lean text for the tree under `repo` (always traced in a fresh subprocess so that the
    caller's own `codelimit` import, whichever tree it is from, plays no role)"""
    env = dict(os.environ)
    env.pop("PYTHONPATH", None)
    env["PYTHONIOENCODING"] = "utf-8"
    env["PYTHONHASHSEED"] = "0"
    p = subprocess.run([sys.executable, os.path.abspath(__file__), "--child", repo], capture_output=True, env=env,
                       cwd=HERE, timeout=600)
    out = p.stdout.decode("utf-8", "replace")
    if p.returncode == 0 and out.startswith("import "):
        return out
    for line in out.splitlines():
        if line.startswith("REFUSED:"):
            raise Refuse(line[len("REFUSED:"):].strip())
    raise Refuse("tracer subprocess failed (exit %d): %s" % (p.returncode, (out + p.stderr.decode("utf-8", "replace")).strip()[-2000:]))


if __name__ == "__main__":
    args = sys.argv[1:]
    if args and args[0] == "--child":
        sys.exit(_child(args[1], os.environ.get("TRACER_STATS")))
    try:
        sys.stdout.write(translate(args[0] if args else "/repo"))
    except Refuse as e:
        print("REFUSED:", e)
        sys.exit(1)
