"""Python `ast` -> Lean translator for the integer decision logic of Code Limit.

Emits lean/CodeLimit/Gen/Logic.lean (namespace CL.Gen.Logic): one definition per decision site,
over `Int`, so that the property theorems are proved *about what the source says now*.
Only a tiny pure subset is accepted; anything else raises Refuse (a broken tie).
"""
import ast
import os
import sys
import warnings

warnings.simplefilter("ignore", SyntaxWarning)


class Refuse(Exception):
    pass


CMP = {ast.Lt: "<", ast.LtE: "≤", ast.Gt: ">", ast.GtE: "≥", ast.Eq: "=", ast.NotEq: "≠"}


def where(node, path):
    return "%s:%s" % (path, getattr(node, "lineno", "?"))


class Tr:
    """expression translator with an environment: python source text -> lean term"""

    def __init__(self, env, path):
        self.env = dict(env)
        self.path = path

    def int(self, e):
        key = ast.unparse(e)
        if key in self.env:
            return self.env[key]
        if isinstance(e, ast.Constant) and isinstance(e.value, int) and not isinstance(e.value, bool):
            return "(%d : Int)" % e.value
        if isinstance(e, ast.UnaryOp) and isinstance(e.op, ast.USub):
            return "(-%s)" % self.int(e.operand)
        if isinstance(e, ast.BinOp) and type(e.op) in (ast.Add, ast.Sub, ast.Mult):
            o = {ast.Add: "+", ast.Sub: "-", ast.Mult: "*"}[type(e.op)]
            return "(%s %s %s)" % (self.int(e.left), o, self.int(e.right))
        if isinstance(e, ast.IfExp):
            return "(if %s then %s else %s)" % (self.prop(e.test), self.int(e.body), self.int(e.orelse))
        if isinstance(e, ast.Call) and isinstance(e.func, ast.Name) and e.func.id == "min" and len(e.args) == 2 and not e.keywords:
            return "(min %s %s)" % (self.int(e.args[0]), self.int(e.args[1]))
        if isinstance(e, ast.Call) and isinstance(e.func, ast.Name) and e.func.id == "max" and len(e.args) == 2 and not e.keywords:
            return "(max %s %s)" % (self.int(e.args[0]), self.int(e.args[1]))
        m = self.pct(e)
        if m:
            return m
        raise Refuse("unsupported integer expression `%s` at %s" % (key, where(e, self.path)))

    def pct(self, e):
        """ceil((X / T) * 100 - 0.001)  ->  CL.pct X T   (exact rational reading; see C19)"""
        if not (isinstance(e, ast.Call) and isinstance(e.func, ast.Name) and e.func.id == "ceil" and len(e.args) == 1):
            return None
        a = e.args[0]
        if not (isinstance(a, ast.BinOp) and isinstance(a.op, ast.Sub) and isinstance(a.right, ast.Constant) and a.right.value == 0.001):
            return None
        b = a.left
        if not (isinstance(b, ast.BinOp) and isinstance(b.op, ast.Mult) and isinstance(b.right, ast.Constant) and b.right.value == 100 and not isinstance(b.right.value, bool)):
            return None
        c = b.left
        if not (isinstance(c, ast.BinOp) and isinstance(c.op, ast.Div)):
            return None
        return "(CL.pct %s %s)" % (self.int(c.left), self.int(c.right))

    def prop(self, e):
        key = ast.unparse(e)
        if key in self.env and self.env[key].startswith("(P:"):
            return self.env[key][3:-1]
        if isinstance(e, ast.Compare):
            parts = []
            left = e.left
            for op, right in zip(e.ops, e.comparators):
                if type(op) not in CMP:
                    raise Refuse("unsupported comparison `%s` at %s" % (key, where(e, self.path)))
                parts.append("(%s %s %s)" % (self.int(left), CMP[type(op)], self.int(right)))
                left = right
            return "(" + " ∧ ".join(parts) + ")"
        if isinstance(e, ast.BoolOp):
            j = " ∧ " if isinstance(e.op, ast.And) else " ∨ "
            return "(" + j.join(self.prop(v) for v in e.values) + ")"
        if isinstance(e, ast.UnaryOp) and isinstance(e.op, ast.Not):
            return "(¬ %s)" % self.prop(e.operand)
        if isinstance(e, ast.Constant) and isinstance(e.value, bool):
            return "True" if e.value else "False"
        raise Refuse("unsupported condition `%s` at %s" % (key, where(e, self.path)))


def chain(stmts, tr, leaf):
    """an if/elif/else chain whose leaves are classified by leaf(stmts) -> lean term"""
    if len(stmts) == 1 and isinstance(stmts[0], ast.If):
        i = stmts[0]
        if not i.orelse:
            raise Refuse("if without else at %s" % where(i, tr.path))
        return "if %s then %s else %s" % (tr.prop(i.test), chain(i.body, tr, leaf), chain(i.orelse, tr, leaf))
    return leaf(stmts)


def block(stmts, tr, live, result):
    """straight-line integer code with if/else and (aug)assignments to local variables ->
    nested lets ending in `result` (a lean term over the variable names)"""
    if not stmts:
        return result
    s, rest = stmts[0], stmts[1:]
    if isinstance(s, ast.Assign) and len(s.targets) == 1 and isinstance(s.targets[0], ast.Name):
        v = s.targets[0].id
        rhs = tr.int(s.value)
        tr.env[v] = v
        live.add(v)
        return "let %s : Int := %s;\n  %s" % (v, rhs, block(rest, tr, live, result))
    if isinstance(s, ast.AugAssign) and isinstance(s.target, ast.Name) and type(s.op) in (ast.Add, ast.Sub):
        v = s.target.id
        if v not in live:
            raise Refuse("augmented assignment to unknown variable at %s" % where(s, tr.path))
        o = "+" if isinstance(s.op, ast.Add) else "-"
        return "let %s : Int := %s %s %s;\n  %s" % (v, v, o, tr.int(s.value), block(rest, tr, live, result))
    if isinstance(s, ast.If):
        assigned = sorted(assigned_vars(s))
        for v in assigned:
            if v not in live:
                raise Refuse("variable %s first assigned inside an if at %s" % (v, where(s, tr.path)))
        tup = "(" + ", ".join(assigned) + ")" if len(assigned) > 1 else assigned[0]
        cond = tr.prop(s.test)
        b1 = block(s.body, tr, set(live), tup)
        b2 = block(s.orelse, tr, set(live), tup) if s.orelse else tup
        return "let %s := (if %s then (%s) else (%s));\n  %s" % (tup, cond, b1, b2, block(rest, tr, live, result))
    raise Refuse("unsupported statement `%s` at %s" % (ast.unparse(s).splitlines()[0], where(s, tr.path)))


def assigned_vars(node):
    out = set()
    for n in ast.walk(node):
        if isinstance(n, ast.Assign):
            for t in n.targets:
                if isinstance(t, ast.Name):
                    out.add(t.id)
                else:
                    raise Refuse("unsupported assignment target")
        elif isinstance(n, ast.AugAssign):
            if isinstance(n.target, ast.Name):
                out.add(n.target.id)
            else:
                raise Refuse("unsupported assignment target")
    return out


class Source:
    def __init__(self, repo, rel):
        self.rel = rel
        self.path = os.path.join(repo, rel)
        self.tree = ast.parse(open(self.path).read())

    def func(self, name, cls=None):
        scope = self.tree
        if cls:
            for n in ast.walk(self.tree):
                if isinstance(n, ast.ClassDef) and n.name == cls:
                    scope = n
                    break
            else:
                raise Refuse("%s: class %s not found" % (self.rel, cls))
        for n in ast.walk(scope):
            if isinstance(n, ast.FunctionDef) and n.name == name:
                return n
        raise Refuse("%s: function %s not found" % (self.rel, name))


def lean_string(s):
    return '"' + s.replace("\\", "\\\\").replace('"', '\\"') + '"'


def color_leaf_return(stmts, path):
    (s,) = stmts
    if isinstance(s, ast.Return) and isinstance(s.value, ast.Call) and getattr(s.value.func, "id", None) == "Style":
        kw = {k.arg: k.value for k in s.value.keywords}
        if set(kw) == {"color"} and isinstance(kw["color"], ast.Constant):
            return lean_string(kw["color"].value)
    raise Refuse("expected `return Style(color=...)` at %s" % where(s, path))


def str_leaf_return(stmts, path):
    (s,) = stmts
    if isinstance(s, ast.Return) and isinstance(s.value, ast.Constant) and isinstance(s.value.value, str):
        return lean_string(s.value.value)
    raise Refuse("expected `return <string>` at %s" % where(s, path))


def bucket_leaf(expect_value):
    def leaf(stmts, path=None):
        (s,) = stmts
        if (isinstance(s, ast.AugAssign) and isinstance(s.op, ast.Add) and isinstance(s.target, ast.Subscript)
                and isinstance(s.target.slice, ast.Constant) and ast.unparse(s.target.value) == "result"
                and ast.unparse(s.value) == expect_value):
            return "(%d : Nat)" % s.target.slice.value
        raise Refuse("expected `result[i] += %s`, got `%s`" % (expect_value, ast.unparse(s)))
    return leaf


def translate(repo):
    defs = []

    def emit(sig, body, doc):
        kw = "abbrev" if sig.rstrip().endswith(": Prop") else "def"
        defs.append("/-- %s -/\n%s %s :=\n  %s\n" % (doc, kw, sig, body))

    # ---- utils.py ------------------------------------------------------------------
    u = Source(repo, "codelimit/common/utils.py")
    for fn, inc in (("make_profile", "m.value"), ("make_count_profile", "1")):
        f = u.func(fn)
        loops = [s for s in f.body if isinstance(s, ast.For)]
        if len(loops) != 1 or ast.unparse(loops[0].iter) != "measurements" or ast.unparse(loops[0].target) != "m":
            raise Refuse("%s: unexpected loop" % fn)
        init = f.body[0]
        if ast.unparse(init) != "result = [0, 0, 0, 0]" or ast.unparse(f.body[-1]) != "return result":
            raise Refuse("%s: unexpected accumulator" % fn)
        tr = Tr({"m.value": "v"}, u.rel)
        emit("%s_bucket (v : Int) : Nat" % fn, chain(loops[0].body, tr, bucket_leaf(inc)),
             "`utils.%s`: the index of `result` that a measurement of length `v` is added to (`+= %s`)" % (fn, inc))
    f = u.func("merge_profiles")
    if ast.unparse(f.body[0]) != "return [rc1[0] + rc2[0], rc1[1] + rc2[1], rc1[2] + rc2[2], rc1[3] + rc2[3]]":
        raise Refuse("merge_profiles: unexpected body")
    f = u.func("get_style_for_measurement")
    emit("style_color (value : Int) : String", chain(f.body, Tr({"value": "value"}, u.rel), lambda s: color_leaf_return(s, u.rel)),
         "`utils.get_style_for_measurement`")
    f = u.func("get_emoji_for_measurement")
    emit("emoji (value : Int) : String", chain(f.body, Tr({"value": "value"}, u.rel), lambda s: str_leaf_return(s, u.rel)),
         "`utils.get_emoji_for_measurement`")
    f = u.func("format_unit")
    first = f.body[0]

    def color_assign(stmts):
        (s,) = stmts
        if isinstance(s, ast.Assign) and ast.unparse(s.targets[0]) == "color" and isinstance(s.value, ast.Constant):
            return lean_string(s.value.value)
        raise Refuse("format_unit: expected `color = ...`")
    emit("format_unit_color (length : Int) : String", chain([first], Tr({"length": "length"}, u.rel), color_assign),
         "`utils.format_unit`: colour of the separator")
    # ---- CheckResult.py ------------------------------------------------------------
    c = Source(repo, "codelimit/common/CheckResult.py")
    f = c.func("add", "CheckResult")
    seen = {}
    for s in f.body:
        if isinstance(s, ast.AugAssign) and isinstance(s.target, ast.Attribute) and isinstance(s.op, ast.Add):
            v = s.value
            ok = (isinstance(v, ast.Call) and getattr(v.func, "id", None) == "len" and len(v.args) == 1
                  and isinstance(v.args[0], ast.ListComp) and len(v.args[0].generators) == 1)
            if not ok:
                raise Refuse("CheckResult.add: unexpected counter update at %s" % where(s, c.rel))
            g = v.args[0].generators[0]
            if ast.unparse(g.iter) != "measurements" or len(g.ifs) != 1 or ast.unparse(v.args[0].elt) != ast.unparse(g.target):
                raise Refuse("CheckResult.add: unexpected comprehension at %s" % where(s, c.rel))
            seen[s.target.attr] = Tr({ast.unparse(g.target) + ".value": "v"}, c.rel).prop(g.ifs[0])
    if set(seen) != {"hard_to_maintain", "unmaintainable"}:
        raise Refuse("CheckResult.add: counters %s" % sorted(seen))
    emit("check_counts_hard (v : Int) : Prop", seen["hard_to_maintain"], "`CheckResult.add`: a measurement of length `v` increments `hard_to_maintain`")
    emit("check_counts_unmaintainable (v : Int) : Prop", seen["unmaintainable"], "`CheckResult.add`: ... increments `unmaintainable`")
    f = c.func("report", "CheckResult")
    ifs = [s for s in f.body if isinstance(s, ast.If)]
    if len(ifs) != 1:
        raise Refuse("CheckResult.report: unexpected shape")
    tr = Tr({"self.hard_to_maintain": "hard", "self.unmaintainable": "unm"}, c.rel)
    emit("check_says_refactoring (hard unm : Int) : Prop", tr.prop(ifs[0].test), "`CheckResult.report`: the summary line says functions need refactoring")
    txt = ast.unparse(ifs[0].body[0])
    if "{self.hard_to_maintain + self.unmaintainable} functions need" not in txt.replace("' f'", "").replace('" f"', ""):
        raise Refuse("CheckResult.report: unexpected summary count expression")
    emit("check_summary_count (hard unm : Int) : Int", "hard + unm", "`CheckResult.report`: the number shown in the summary line")
    # ---- commands/check.py ---------------------------------------------------------
    k = Source(repo, "codelimit/commands/check.py")
    f = k.func("check_command")
    exit_assign = [s for s in f.body if isinstance(s, ast.Assign) and ast.unparse(s.targets[0]) == "exit_code"]
    if len(exit_assign) != 1:
        raise Refuse("check_command: exit_code assignment not found")
    tr = Tr({"check_result.unmaintainable": "unm", "check_result.hard_to_maintain": "hard", "quiet": "(P:quiet = true)"}, k.rel)
    emit("check_exit_code (unm : Int) : Int", tr.int(exit_assign[0].value), "`check_command`: process exit status")
    last_if = [s for s in f.body if isinstance(s, ast.If)]
    if len(last_if) != 1 or ast.unparse(last_if[0].body[0]) != "check_result.report()" or last_if[0].orelse:
        raise Refuse("check_command: report condition not found")
    emit("check_prints (quiet : Bool) (hard unm : Int) : Prop", tr.prop(last_if[0].test), "`check_command`: anything is printed")
    if ast.unparse(f.body[-1]) != "raise typer.Exit(code=exit_code)":
        raise Refuse("check_command: does not end by raising typer.Exit(code=exit_code)")
    f = k.func("check_file")
    risks = [n for n in ast.walk(f) if isinstance(n, ast.Assign) and ast.unparse(n.targets[0]) == "risks"]
    if len(risks) != 1:
        raise Refuse("check_file: risks not found")
    call = risks[0].value
    ok = (isinstance(call, ast.Call) and getattr(call.func, "id", None) == "sorted" and isinstance(call.args[0], ast.ListComp)
          and {kw.arg: ast.unparse(kw.value) for kw in call.keywords} == {"key": "lambda measurement: measurement.value", "reverse": "True"})
    if not ok:
        raise Refuse("check_file: risks is not sorted([...], key=value, reverse=True)")
    g = call.args[0].generators[0]
    if ast.unparse(g.iter) != "measurements" or len(g.ifs) != 1:
        raise Refuse("check_file: unexpected comprehension")
    emit("check_lists (v : Int) : Prop", Tr({ast.unparse(g.target) + ".value": "v"}, k.rel).prop(g.ifs[0]), "`check_file`: a measurement of length `v` is listed as a risk")
    # ---- Report.py -----------------------------------------------------------------
    r = Source(repo, "codelimit/common/report/Report.py")
    f = r.func("all_report_units_sorted_by_length_asc", "Report")
    conds = [n for n in ast.walk(f) if isinstance(n, ast.If)]
    if len(conds) != 1:
        raise Refuse("all_report_units_sorted_by_length_asc: unexpected shape")
    emit("units_keeps (v threshold : Int) : Prop", Tr({"m.value": "v", "threshold": "threshold"}, r.rel).prop(conds[0].test),
         "`Report.all_report_units_sorted_by_length_asc(threshold)`: a measurement of length `v` is kept")
    srt = [n for n in ast.walk(f) if isinstance(n, ast.Call) and getattr(n.func, "id", None) == "sorted"]
    if len(srt) != 1 or {kw.arg: ast.unparse(kw.value) for kw in srt[0].keywords} != {"key": "lambda unit: unit.measurement.value", "reverse": "True"}:
        raise Refuse("all_report_units_sorted_by_length_asc: not sorted by value descending")
    f = r.func("quality_profile_percentage", "Report")
    body = list(f.body)
    if ast.unparse(body[0]) != "profile = self.quality_profile()" or ast.unparse(body[1]) != "total = sum(profile)":
        raise Refuse("quality_profile_percentage: unexpected prologue")
    if ast.unparse(body[-1]) != "return (easy, verbose, hard_to_maintain, unmaintainable)":
        raise Refuse("quality_profile_percentage: unexpected return `%s`" % ast.unparse(body[-1]))
    tr = Tr({"profile[0]": "p0", "profile[1]": "p1", "profile[2]": "p2", "profile[3]": "p3", "total": "(p0 + p1 + p2 + p3)"}, r.rel)
    emit("quality_profile_percentage (p0 p1 p2 p3 : Int) : Int × Int × Int × Int",
         block(body[2:-1], tr, set(), "(easy, verbose, hard_to_maintain, unmaintainable)"),
         "`Report.quality_profile_percentage` with `ceil(x / total * 100 - 0.001)` read exactly (`CL.pct`)")
    # ---- verdicts ------------------------------------------------------------------
    for rel, name in (("codelimit/common/report/format_text.py", "text"), ("codelimit/common/report/format_markdown.py", "markdown")):
        src = Source(repo, rel)
        f = src.func("print_summary")
        ifs = [s for s in f.body if isinstance(s, ast.If)]
        if len(ifs) != 1:
            raise Refuse("%s.print_summary: unexpected shape" % rel)

        def verdict_leaf(stmts, rel=rel):
            txt = " ".join(ast.unparse(s) for s in stmts)
            if "no refactoring necessary" in txt:
                shown = "easy + verbose" if "{easy + verbose}%" in txt else None
                code = 2
            elif "refactoring necessary" in txt and "stop_sign" in txt:
                shown = "unmaintainable" if "{unmaintainable}%" in txt else None
                code = 0
            elif "refactoring necessary" in txt and "warning" in txt:
                shown = "hard_to_maintain" if "{hard_to_maintain}%" in txt else None
                code = 1
            else:
                raise Refuse("%s.print_summary: unknown verdict message" % rel)
            if shown is None:
                raise Refuse("%s.print_summary: verdict message shows an unexpected number" % rel)
            return "((%d : Nat), %s)" % (code, shown)
        tr = Tr({"easy": "easy", "verbose": "verbose", "hard_to_maintain": "hard_to_maintain", "unmaintainable": "unmaintainable"}, rel)
        emit("verdict_%s (easy verbose hard_to_maintain unmaintainable : Int) : Nat × Int" % name, chain(ifs, tr, verdict_leaf),
             "`%s.print_summary`: (0 = refactoring necessary because of unmaintainable code, 1 = ... hard-to-maintain code, 2 = no refactoring necessary; the percentage shown)" % name)
        f = src.func("print_findings")
        thr = [n for n in ast.walk(f) if isinstance(n, ast.Call) and ast.unparse(n.func) == "report.all_report_units_sorted_by_length_asc"]
        if len(thr) != 1 or len(thr[0].args) != 1:
            raise Refuse("%s.print_findings: threshold call not found" % rel)
        emit("findings_threshold_%s : Int" % name, Tr({}, rel).int(thr[0].args[0]), "`%s.print_findings`: threshold passed to `all_report_units_sorted_by_length_asc`" % name)
        ifs = [s for s in f.body if isinstance(s, ast.If) and "total_findings" in ast.unparse(s.test)]
        if len(ifs) != 2 or ast.unparse(ifs[0].test) != ast.unparse(ifs[1].test):
            raise Refuse("%s.print_findings: truncation conditions" % rel)
        tr = Tr({"total_findings": "total", "full": "(P:full = true)"}, rel)
        emit("findings_truncates_%s (full : Bool) (total : Int) : Prop" % name, tr.prop(ifs[0].test), "`%s.print_findings`: the list is cut" % name)
        if ast.unparse(ifs[0].body[0]) != "functions = functions[:10]":
            raise Refuse("%s.print_findings: unexpected cut `%s`" % (rel, ast.unparse(ifs[0].body[0])))
        more = [n for n in ast.walk(ifs[1]) if isinstance(n, ast.FormattedValue)]
        if len(more) != 1:
            raise Refuse("%s.print_findings: omitted-rows message" % rel)
        emit("findings_kept_%s : Nat" % name, "10", "`%s.print_findings`: rows kept when cut (`functions[:10]`)" % name)
        emit("findings_omitted_%s (total : Int) : Int" % name, tr.int(more[0].value), "`%s.print_findings`: the number of omitted rows shown" % name)
    md = Source(repo, "codelimit/common/report/format_markdown.py")
    for fn in ("_print_findings_without_repository", "_print_findings_with_repository"):
        f = md.func(fn)
        exps = [n for n in ast.walk(f) if isinstance(n, ast.IfExp)]
        if len(exps) != 1 or not (isinstance(exps[0].body, ast.Constant) and exps[0].body.value == "❌" and exps[0].orelse.value == "⚠"):
            raise Refuse("%s: symbol choice not found" % fn)
        emit("md_cross%s (v : Int) : Prop" % fn.replace("_print_findings", ""), Tr({"unit.measurement.value": "v"}, md.rel).prop(exps[0].test),
             "`format_markdown.%s`: the cross (rather than the warning sign) is shown" % fn)
    st = Source(repo, "codelimit/common/SummaryTable.py")
    f = st.func("__init__", "SummaryTable")
    styles = {}
    for s in f.body:
        if isinstance(s, ast.If) and len(s.body) == 1 and isinstance(s.body[0], ast.Assign):
            tgt = ast.unparse(s.body[0].targets[0])
            styles[tgt] = Tr({"easy": "easy", "verbose": "verbose", "hard_to_maintain": "hard_to_maintain", "unmaintainable": "unmaintainable"}, st.rel).prop(s.test)
    want = {"unmaintainable_text.style", "hard_to_maintain_text.style", "easy_verbose_text.style"}
    if set(styles) != want:
        raise Refuse("SummaryTable: style conditions %s" % sorted(styles))
    emit("summary_red (unmaintainable : Int) : Prop", styles["unmaintainable_text.style"], "`SummaryTable`: unmaintainable cell is red")
    emit("summary_orange (hard_to_maintain : Int) : Prop", styles["hard_to_maintain_text.style"], "`SummaryTable`: hard-to-maintain cell is orange")
    emit("summary_green (hard_to_maintain unmaintainable : Int) : Prop", styles["easy_verbose_text.style"], "`SummaryTable`: easy/verbose cell is green")
    # ---- deltas --------------------------------------------------------------------
    for rel, cls, methods in (("codelimit/common/LanguageTotalsDelta.py", "LanguageTotalsDelta", ["files", "functions", "loc", "hard_to_maintain", "unmaintainable"]),
                              ("codelimit/common/ScanTotalsDelta.py", "ScanTotalsDelta", ["total_files", "total_functions", "total_loc", "total_hard_to_maintain", "total_unmaintainable"])):
        src = Source(repo, rel)
        for mname in methods:
            f = src.func(mname, cls)
            exps = [n for n in ast.walk(f) if isinstance(n, ast.IfExp) and isinstance(n.body, ast.JoinedStr)]
            if not exps:
                raise Refuse("%s.%s: no conditional format" % (cls, mname))
            for e in exps:
                plain, annotated = ast.unparse(e.body), ast.unparse(e.orelse)
                if "delta" in plain or "({delta:+n})" not in annotated:
                    raise Refuse("%s.%s: unexpected formats" % (cls, mname))
            conds = {Tr({"delta": "delta"}, rel).prop(e.test) for e in exps}
            if len(conds) != 1:
                raise Refuse("%s.%s: differing delta tests" % (cls, mname))
            emit("%s_%s_plain (delta : Int) : Prop" % (cls, mname), conds.pop(), "`%s.%s`: the figure is shown WITHOUT annotation" % (cls, mname))
    # ---- comparison primitives of the scope pipeline --------------------------------
    trg = Source(repo, "codelimit/common/TokenRange.py")
    tr = Tr({"self.start": "s", "self.end": "e", "other.start": "os", "other.end": "oe"}, trg.rel)
    f = trg.func("lt", "TokenRange")
    emit("range_lt (s e os oe : Int) : Prop", tr.prop(f.body[0].value), "`TokenRange.lt`")
    f = trg.func("contains", "TokenRange")
    emit("range_contains (s e os oe : Int) : Prop", tr.prop(f.body[0].value), "`TokenRange.contains`")
    f = trg.func("overlaps", "TokenRange")
    tr2 = Tr(tr.env, trg.rel)
    a = Tr(tr.env, trg.rel).prop(f.body[0].value)
    b = Tr(tr.env, trg.rel).prop(f.body[1].value)
    if ast.unparse(f.body[2]) != "return start_overlap or end_overlap":
        raise Refuse("TokenRange.overlaps: unexpected return")
    emit("range_overlaps (s e os oe : Int) : Prop", "(%s ∨ %s)" % (a, b), "`TokenRange.overlaps`")
    sc = Source(repo, "codelimit/common/scope/Scope.py")
    f = sc.func("contains", "Scope")
    tr = Tr({"self.header.token_range.start": "hs", "self.block.end": "be", "other.header.token_range.start": "ohs", "other.block.end": "obe"}, sc.rel)
    emit("scope_contains (hs be ohs obe : Int) : Prop", tr.prop(f.body[0].value), "`Scope.contains`")
    su = Source(repo, "codelimit/common/scope/scope_utils.py")
    f = su.func("_get_nearest_block")
    loop = [s for s in f.body if isinstance(s, ast.For)][0]
    i0 = loop.body[0]
    if not (isinstance(i0, ast.If) and ast.unparse(i0.test) == "block.contains(header)" and isinstance(i0.orelse[0], ast.If)):
        raise Refuse("_get_nearest_block: unexpected shape")
    i1 = i0.orelse[0]
    tr = Tr({"block.start": "bs", "block.end": "be", "header.start": "hs", "header.end": "he", "block.lt(header)": "(P:bs < hs)"}, su.rel)
    emit("nearest_candidate (bs be hs he : Int) : Prop", tr.prop(i1.test), "`_get_nearest_block`: a block that does not contain the header becomes the candidate")
    f = su.func("_scope_tokens")
    loop = [s for s in f.body if isinstance(s, ast.For) and ast.unparse(s.target) == "index"][0]
    w = loop.body[0]
    if not isinstance(w, ast.While):
        raise Refuse("_scope_tokens: unexpected shape")
    tr = Tr({"index": "i", "children_token_ranges[0].end": "ce", "children_token_ranges[0].start": "cs",
             "len(children_token_ranges) > 0": "(P:True)", "len(children_token_ranges) == 0": "(P:False)"}, su.rel)
    emit("scope_tokens_pops (i ce : Int) : Prop", tr.prop(w.test), "`_scope_tokens`: the first remaining child range is dropped at index `i`")
    emit("scope_tokens_keeps (i cs : Int) : Prop", tr.prop(loop.body[1].test), "`_scope_tokens`: the token at index `i` is kept, given a remaining child range starting at `cs`")
    out = ["import CodeLimit.Model.Pct", "set_option linter.unusedVariables false",
           "/-! GENERATED by translator/logic.py from the Python source in /repo - do not edit.",
           "Integer decision logic of Code Limit, one definition per decision site. -/",
           "namespace CL.Gen.Logic", ""] + defs + ["end CL.Gen.Logic"]
    return "\n".join(out) + "\n"


if __name__ == "__main__":
    try:
        print(translate(sys.argv[1] if len(sys.argv) > 1 else "/repo"))
    except Refuse as e:
        print("REFUSED:", e)
        sys.exit(1)
