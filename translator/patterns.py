"""Extract, from the *running* code, the header / follow-up expressions every supported
language passes to scope_utils.get_headers, and serialise them (a) for the model driver's
`lang` request and (b) as Lean literals in lean/CodeLimit/Gen/Languages.lean.

Refusals (raise Refuse) = the tie cannot be established for the current source."""
import ast
import importlib
import inspect
import os
import sys
import textwrap

LANGS = ["C", "C++", "C#", "Java", "JavaScript", "Python", "TypeScript"]
LEXERS = {"C": "c", "C++": "cpp", "C#": "csharp", "Java": "java", "JavaScript": "javascript",
          "Python": "python", "TypeScript": "typescript"}


class Refuse(Exception):
    pass


def _s(text):
    cps = [ord(c) for c in text]
    return "%d%s" % (len(cps), "".join(" %d" % c for c in cps))


def _lean_str(text):
    return "[" + ", ".join(str(ord(c)) for c in text) + "]"


def pred(p, nested=False):
    """-> (driver form, lean form)"""
    from codelimit.common.gsm.predicate.Identity import Identity
    from codelimit.common.token_matching.predicate.And import And
    from codelimit.common.token_matching.predicate.Balanced import Balanced
    from codelimit.common.token_matching.predicate.Keyword import Keyword
    from codelimit.common.token_matching.predicate.Name import Name
    from codelimit.common.token_matching.predicate.Not import Not
    from codelimit.common.token_matching.predicate.Operator import Operator
    from codelimit.common.token_matching.predicate.Or import Or
    from codelimit.common.token_matching.predicate.Symbol import Symbol
    from codelimit.common.token_matching.predicate.TokenValue import TokenValue
    t = type(p)
    if t is Name:
        return "N", ".name"
    if t is Keyword:
        return "K " + _s(p.keyword), "(.keyword %s)" % _lean_str(p.keyword)
    if t is Symbol:
        return "S " + _s(p.symbol), "(.symbol %s)" % _lean_str(p.symbol)
    if t is Operator:
        return "O " + _s(p.symbol), "(.operator %s)" % _lean_str(p.symbol)
    if t is TokenValue:
        return "V " + _s(p.value), "(.value %s)" % _lean_str(p.value)
    if t is Identity:
        if not isinstance(p.item, str):
            raise Refuse("Identity over a non-string item: %r" % (p.item,))
        return "I " + _s(p.item), "(.ident %s)" % _lean_str(p.item)
    if t is Not:
        a = pred(p.predicate, True)
        return "! " + a[0], "(.not %s)" % a[1]
    if t in (And, Or):
        a, b = pred(p.left, True), pred(p.right, True)
        return ("& " if t is And else "| ") + a[0] + " " + b[0], "(.%s %s %s)" % ("and" if t is And else "or", a[1], b[1])
    if t is Balanced:
        if nested:
            raise Refuse("Balanced nested inside another predicate")
        if p.depth != 0:
            raise Refuse("Balanced template with non-zero depth")
        a, b = pred(p.left, True), pred(p.right, True)
        return "B " + a[0] + " " + b[0], "(.balanced %s %s)" % (a[1], b[1])
    raise Refuse("unknown predicate class %s" % t.__name__)


def expr(e, seen):
    """expression (list / operator / predicate / plain item) -> (driver, lean)"""
    from codelimit.common.gsm.operator.Atom import Atom
    from codelimit.common.gsm.operator.OneOrMore import OneOrMore
    from codelimit.common.gsm.operator.Operator import Operator as Op
    from codelimit.common.gsm.operator.Optional import Optional
    from codelimit.common.gsm.operator.Union import Union
    from codelimit.common.gsm.operator.ZeroOrMore import ZeroOrMore
    from codelimit.common.gsm.predicate.Predicate import Predicate
    from codelimit.common.gsm.predicate.Identity import Identity
    from codelimit.common.token_matching.predicate.Balanced import Balanced

    def item(x):
        if isinstance(x, Op):
            t = type(x)
            if t is Atom:
                return item(x.item)
            if t in (Optional, ZeroOrMore, OneOrMore):
                a = seq(x.expression)
                k = {Optional: ("o", "opt"), ZeroOrMore: ("s", "star"), OneOrMore: ("p", "plus")}[t]
                return k[0] + " " + a[0], "(.%s %s)" % (k[1], a[1])
            if t is Union:
                a, b = seq(x.left), seq(x.right)
                return "u " + a[0] + " " + b[0], "(.alt %s %s)" % (a[1], b[1])
            raise Refuse("unknown operator class %s" % t.__name__)
        if isinstance(x, Predicate):
            if isinstance(x, Balanced):
                for other in seen:
                    if other is not x and other == x:
                        raise Refuse("two distinct but equal Balanced instances in one pattern")
                seen.append(x)
            a = pred(x)
            return "a " + a[0], "(.atom %s)" % a[1]
        a = pred(Identity(x))
        return "a " + a[0], "(.atom %s)" % a[1]

    def seq(xs):
        if not isinstance(xs, list):
            xs = [xs]
        if not xs:
            raise Refuse("empty sequence expression")
        acc = item(xs[0])
        for x in xs[1:]:
            b = item(x)
            acc = ("c " + acc[0] + " " + b[0], "(.cat %s %s)" % (acc[1], b[1]))
        return acc

    return seq(e)


def extract(repo):
    """-> list of dicts per language (in LANGS order)"""
    if repo not in sys.path:
        sys.path.insert(0, repo)
    from codelimit.languages import Languages
    out = []
    for name in LANGS:
        if name not in Languages.by_name:
            raise Refuse("language %s not registered" % name)
        lang = Languages.by_name[name]
        mod = importlib.import_module(type(lang).__module__)
        calls = []

        def fake(tokens, expression, followed_by=None, *args, _calls=calls, **kwargs):
            _calls.append((expression, followed_by))
            return []
        if not hasattr(mod, "get_headers"):
            raise Refuse("%s does not use scope_utils.get_headers" % mod.__name__)
        saved = mod.get_headers
        mod.get_headers = fake
        try:
            lang.extract_headers([])
        finally:
            mod.get_headers = saved
        if not calls:
            raise Refuse("%s.extract_headers made no get_headers call" % name)
        pats = []
        for (e, f) in calls:
            seen = []
            de = expr(e, seen)
            df = expr(f, []) if f else None
            pats.append((de, df))
        prev = None
        if hasattr(mod, "filter_headers"):
            prev = _prev_keyword_filter(mod)
        src = inspect.getsource(type(lang).extract_blocks)
        python_blocks = "_get_token_lines" in src
        if not python_blocks and "get_blocks(tokens, \"{\", \"}\")" not in src.replace("'", '"'):
            raise Refuse("%s.extract_blocks is neither the brace nor the indentation extractor" % name)
        out.append({"name": name, "pats": pats, "python": python_blocks,
                    "nested": bool(lang.allow_nested_functions), "prev": prev})
    extra = sorted(set(Languages.by_name) - set(LANGS))
    if extra:
        raise Refuse("languages not known to the model: %s" % extra)
    return out


def _prev_keyword_filter(mod):
    """Java.filter_headers: `keywords = <pred expr>` ... `keywords.accept(tokens[start - 1])`"""
    src = textwrap.dedent(inspect.getsource(mod.filter_headers))
    tree = ast.parse(src)
    fn = tree.body[0]
    assigns = [s for s in fn.body if isinstance(s, ast.Assign) and len(s.targets) == 1
               and isinstance(s.targets[0], ast.Name) and s.targets[0].id == "keywords"]
    if len(assigns) != 1:
        raise Refuse("filter_headers: cannot find the `keywords` predicate")
    want = "header.token_range.start > 0 and keywords.accept(tokens[header.token_range.start - 1])"
    if want not in " ".join(src.split()):
        raise Refuse("filter_headers: unexpected filter condition")
    obj = eval(compile(ast.Expression(assigns[0].value), "<filter_headers>", "eval"), vars(mod))
    return pred(obj, True)


def driver_lines(langs):
    lines = []
    for i, L in enumerate(langs):
        parts = ["lang", str(i), "1" if L["python"] else "0", "1" if L["nested"] else "0"]
        if L["prev"]:
            parts += ["1", L["prev"][0]]
        else:
            parts += ["0"]
        parts.append(str(len(L["pats"])))
        for (e, f) in L["pats"]:
            parts.append(e[0])
            if f:
                parts += ["1", f[0]]
            else:
                parts.append("0")
        lines.append(" ".join(parts))
    return lines


def lean_ident(name):
    return {"C": "c", "C++": "cpp", "C#": "csharp", "Java": "java", "JavaScript": "javascript",
            "Python": "python", "TypeScript": "typescript"}[name]


def lean_module(langs):
    out = ["import CodeLimit.Model.Scopes",
           "/-! GENERATED by translator/patterns.py from the running code in /repo - do not edit.",
           "The header / follow-up expressions each language passes to `get_headers`. -/",
           "namespace CL.Gen", ""]
    for L in langs:
        pats = []
        for (e, f) in L["pats"]:
            pats.append("⟨%s, %s⟩" % (e[1], "some %s" % f[1] if f else "none"))
        out.append("def %s : Language :=\n  ⟨[%s],\n   %s, %s, %s⟩\n" % (
            lean_ident(L["name"]), ",\n    ".join(pats), "true" if L["python"] else "false",
            "true" if L["nested"] else "false", ("some %s" % L["prev"][1]) if L["prev"] else "none"))
    out.append("def all : List (String × Language) :=\n  [%s]\n" % ", ".join(
        '("%s", %s)' % (L["name"], lean_ident(L["name"])) for L in langs))
    out.append("end CL.Gen")
    return "\n".join(out) + "\n"


if __name__ == "__main__":
    repo = sys.argv[1] if len(sys.argv) > 1 else "/repo"
    ls = extract(repo)
    print(lean_module(ls))
    for l in driver_lines(ls):
        print(l)
