"""Extract, from the *running* code, the header / follow-up expressions every supported
language passes to scope_utils.get_headers, and serialise them (a) for the model driver's
`lang` request and (b) as Lean literals in lean/CodeLimit/Gen/Languages.lean.

Refusals (raise Refuse) = the tie cannot be established for the current source."""
import ast
import importlib
import inspect
import os
import sys
import textwrap

LANGS = ["C", "C++", "C#", "Java", "JavaScript", "Python", "TypeScript"]
LEXERS = {"C": "c", "C++": "cpp", "C#": "csharp", "Java": "java", "JavaScript": "javascript",
          "Python": "python", "TypeScript": "typescript"}


class Refuse(Exception):
    pass


def _s(text):
    cps = [ord(c) for c in text]
    return "%d%s" % (len(cps), "".join(" %d" % c for c in cps))


def _lean_str(text):
    return "[" + ", ".join(str(ord(c)) for c in text) + "]"


def pred(p, nested=False):
    """-> (driver form, lean form)"""
    from codelimit.common.gsm.predicate.Identity import Identity
    from codelimit.common.token_matching.predicate.And import And
    from codelimit.common.token_matching.predicate.Balanced import Balanced
    from codelimit.common.token_matching.predicate.Keyword import Keyword
    from codelimit.common.token_matching.predicate.Name import Name
    from codelimit.common.token_matching.predicate.Not import Not
    from codelimit.common.token_matching.predicate.Operator import Operator
    from codelimit.common.token_matching.predicate.Or import Or
    from codelimit.common.token_matching.predicate.Symbol import Symbol
    from codelimit.common.token_matching.predicate.TokenValue import TokenValue
    t = type(p)
    if t is Name:
        return "N", ".name"
    if t is Keyword:
        return "K " + _s(p.keyword), "(.keyword %s)" % _lean_str(p.keyword)
    if t is Symbol:
        return "S " + _s(p.symbol), "(.symbol %s)" % _lean_str(p.symbol)
    if t is Operator:
        return "O " + _s(p.symbol), "(.operator %s)" % _lean_str(p.symbol)
    if t is TokenValue:
        return "V " + _s(p.value), "(.value %s)" % _lean_str(p.value)
    if t is Identity:
        if not isinstance(p.item, str):
            raise Refuse("Identity over a non-string item: %r" % (p.item,))
        return "I " + _s(p.item), "(.ident %s)" % _lean_str(p.item)
    if t is Not:
        a = pred(p.predicate, True)
        return "! " + a[0], "(.not %s)" % a[1]
    if t in (And, Or):
        a, b = pred(p.left, True), pred(p.right, True)
        return ("& " if t is And else "| ") + a[0] + " " + b[0], "(.%s %s %s)" % ("and" if t is And else "or", a[1], b[1])
    if t is Balanced:
        if nested:
            raise Refuse("Balanced nested inside another predicate")
        if p.depth != 0:
            raise Refuse("Balanced template with non-zero depth")
        a, b = pred(p.left, True), pred(p.right, True)
        return "B " + a[0] + " " + b[0], "(.balanced %s %s)" % (a[1], b[1])
    raise Refuse("unknown predicate class %s" % t.__name__)


def expr(e, seen):
    """expression (list / operator / predicate / plain item) -> (driver, lean)"""
    from codelimit.common.gsm.operator.Atom import Atom
    from codelimit.common.gsm.operator.OneOrMore import OneOrMore
    from codelimit.common.gsm.operator.Operator import Operator as Op
    from codelimit.common.gsm.operator.Optional import Optional
    from codelimit.common.gsm.operator.Union import Union
    from codelimit.common.gsm.operator.ZeroOrMore import ZeroOrMore
    from codelimit.common.gsm.predicate.Predicate import Predicate
    from codelimit.common.gsm.predicate.Identity import Identity
    from codelimit.common.token_matching.predicate.Balanced import Balanced

    def item(x):
        if isinstance(x, Op):
            t = type(x)
            if t is Atom:
                return item(x.item)
            if t in (Optional, ZeroOrMore, OneOrMore):
                a = seq(x.expression)
                k = {Optional: ("o", "opt"), ZeroOrMore: ("s", "star"), OneOrMore: ("p", "plus")}[t]
                return k[0] + " " + a[0], "(.%s %s)" % (k[1], a[1])
            if t is Union:
                a, b = seq(x.left), seq(x.right)
                return "u " + a[0] + " " + b[0], "(.alt %s %s)" % (a[1], b[1])
            raise Refuse("unknown operator class %s" % t.__name__)
        if isinstance(x, Predicate):
            if isinstance(x, Balanced):
                for other in seen:
                    if other is not x and other == x:
                        raise Refuse("two distinct but equal Balanced instances in one pattern")
                seen.append(x)
            a = pred(x)
            return "a " + a[0], "(.atom %s)" % a[1]
        a = pred(Identity(x))
        return "a " + a[0], "(.atom %s)" % a[1]

    def seq(xs):
        if not isinstance(xs, list):
            xs = [xs]
        if not xs:
            raise Refuse("empty sequence expression")
        acc = item(xs[0])
        for x in xs[1:]:
            b = item(x)
            acc = ("c " + acc[0] + " " + b[0], "(.cat %s %s)" % (acc[1], b[1]))
        return acc

    return seq(e)


def extract(repo):
    """-> list of dicts per language (in LANGS order)"""
    if repo not in sys.path:
        sys.path.insert(0, repo)
    from codelimit.languages import Languages
    out = []
    for name in LANGS:
        if name not in Languages.by_name:
            raise Refuse("language %s not registered" % name)
        lang = Languages.by_name[name]
        mod = importlib.import_module(type(lang).__module__)
        calls = []

        def fake(tokens, expression, followed_by=None, *args, _calls=calls, **kwargs):
            _calls.append((expression, followed_by))
            return []
        if not hasattr(mod, "get_headers"):
            raise Refuse("%s does not use scope_utils.get_headers" % mod.__name__)
        saved = mod.get_headers
        mod.get_headers = fake
        try:
            lang.extract_headers([])
        finally:
            mod.get_headers = saved
        if not calls:
            raise Refuse("%s.extract_headers made no get_headers call" % name)
        pats = []
        for (e, f) in calls:
            seen = []
            de = expr(e, seen)
            df = expr(f, []) if f else None
            pats.append((de, df))
        prev = None
        if hasattr(mod, "filter_headers"):
            prev = _prev_keyword_filter(mod)
        src = inspect.getsource(type(lang).extract_blocks)
        python_blocks = "_get_token_lines" in src
        if not python_blocks and "get_blocks(tokens, \"{\", \"}\")" not in src.replace("'", '"'):
            raise Refuse("%s.extract_blocks is neither the brace nor the indentation extractor" % name)
        out.append({"name": name, "pats": pats, "python": python_blocks,
                    "nested": bool(lang.allow_nested_functions), "prev": prev})
    extra = sorted(set(Languages.by_name) - set(LANGS))
    if extra:
        raise Refuse("languages not known to the model: %s" % extra)
    return out


def _prev_keyword_filter(mod):
    """`<language module>.filter_headers(headers, tokens)` (Java: drop a header preceded by `record` / `new`), OBSERVED, not read
    off the source: the real function is run on probe inputs while `accept` of every predicate class is wrapped, so the
    top-level predicate it asks about the token BEFORE the header is captured as an object; then the behaviour is
    verified on probe tokens built from that predicate's own constants (a header is dropped iff it does not start at
    token 0 and the predicate accepts the previous token; order and identity of the kept headers preserved). v1 matched
    the `ast` of the function and refused behaviour-preserving rewrites (comprehension, helper, `start - 1 >= 0`)."""
    import importlib
    from pygments.token import Keyword as KW, Name as NM, Punctuation as PU, Operator as OP, Literal as LI, Text as TX
    from codelimit.common.Location import Location
    from codelimit.common.Token import Token
    from codelimit.common.TokenRange import TokenRange
    from codelimit.common.scope.Header import Header
    names = ["Name", "Keyword", "Symbol", "Operator", "TokenValue", "Not", "And", "Or", "Balanced"]
    classes = [getattr(importlib.import_module("codelimit.common.token_matching.predicate." + n), n) for n in names]

    def tok(tt, val, i):
        return Token(Location(1, i + 1), tt, val)

    def run(tokens, starts):
        hs = [Header(tokens[s], TokenRange(s, s + 1)) for s in starts]
        out = mod.filter_headers(list(hs), list(tokens))
        if any(not any(o is h for h in hs) for o in out):
            raise Refuse("filter_headers returns objects that are not the given headers")
        return [next(i for i, h in enumerate(hs) if h is o) for o in out]

    # 1. capture the predicate asked about the previous token
    sentinel_prev = tok(KW, "\u0000prev-probe", 0)
    asked, depth = [], [0]
    saved = {}
    for c in classes:
        orig = c.accept
        saved[c] = orig

        def wrapped(self, token, _orig=orig):
            if depth[0] == 0 and token is sentinel_prev:
                asked.append(self)
            depth[0] += 1
            try:
                return _orig(self, token)
            finally:
                depth[0] -= 1
        c.accept = wrapped
    try:
        kept = run([sentinel_prev, tok(NM, "f", 1)], [1])
    finally:
        for c, o in saved.items():
            c.accept = o
    tops = []
    for a in asked:
        if not any(a is t for t in tops):
            tops.append(a)
    if len(tops) != 1:
        raise Refuse("filter_headers: %d predicates are asked about the token before a header (expected one)" % len(tops))
    if kept != [0]:
        raise Refuse("filter_headers drops a header although its predicate rejects the previous token")
    p = tops[0]
    form = pred(p, True)
    # 2. verify the behaviour on probe tokens made from the predicate's own constants
    consts = set()

    def walk(q):
        for attr in ("keyword", "symbol", "value"):
            if isinstance(getattr(q, attr, None), str):
                consts.add(getattr(q, attr))
        for attr in ("left", "right", "predicate"):
            if hasattr(q, attr) and not isinstance(getattr(q, attr), str):
                walk(getattr(q, attr))
    walk(p)
    probes = [(tt, v) for v in sorted(consts) + ["zz-other"] for tt in (KW, NM, PU, OP, LI, TX)]
    for (tt, v) in probes:
        prev = tok(tt, v, 0)
        expect_drop = bool(type(p).accept(_fresh(p), prev))
        toks = [tok(NM, "a", 0), prev, tok(NM, "f", 2), tok(NM, "g", 3)]
        toks[0] = prev                      # header at 1 is preceded by `prev`; header at 0 has no predecessor
        got = run([prev, tok(NM, "f", 1), tok(NM, "g", 2), prev, tok(NM, "h", 4)], [0, 1, 2, 4])
        want = [0] + ([] if expect_drop else [1]) + [2] + ([] if expect_drop else [3])
        if got != want:
            raise Refuse("filter_headers does not behave as 'drop a header iff it is not first and %s accepts the previous token' "
                         "(previous token %s %r: kept %s, expected %s)" % (form[0], tt, v, got, want))
    return form


def _fresh(p):
    import copy
    return copy.deepcopy(p)


def driver_lines(langs):
    lines = []
    for i, L in enumerate(langs):
        parts = ["lang", str(i), "1" if L["python"] else "0", "1" if L["nested"] else "0"]
        if L["prev"]:
            parts += ["1", L["prev"][0]]
        else:
            parts += ["0"]
        parts.append(str(len(L["pats"])))
        for (e, f) in L["pats"]:
            parts.append(e[0])
            if f:
                parts += ["1", f[0]]
            else:
                parts.append("0")
        lines.append(" ".join(parts))
    return lines


def lean_ident(name):
    return {"C": "c", "C++": "cpp", "C#": "csharp", "Java": "java", "JavaScript": "javascript",
            "Python": "python", "TypeScript": "typescript"}[name]


def lean_module(langs):
    out = ["import CodeLimit.Model.Scopes",
           "/-! GENERATED by translator/patterns.py from the running code in /repo - do not edit.",
           "The header / follow-up expressions each language passes to `get_headers`. -/",
           "namespace CL.Gen", ""]
    for L in langs:
        pats = []
        for (e, f) in L["pats"]:
            pats.append("⟨%s, %s⟩" % (e[1], "some %s" % f[1] if f else "none"))
        out.append("def %s : Language :=\n  ⟨[%s],\n   %s, %s, %s⟩\n" % (
            lean_ident(L["name"]), ",\n    ".join(pats), "true" if L["python"] else "false",
            "true" if L["nested"] else "false", ("some %s" % L["prev"][1]) if L["prev"] else "none"))
    out.append("def all : List (String × Language) :=\n  [%s]\n" % ", ".join(
        '("%s", %s)' % (L["name"], lean_ident(L["name"])) for L in langs))
    out.append("end CL.Gen")
    return "\n".join(out) + "\n"


if __name__ == "__main__":
    repo = sys.argv[1] if len(sys.argv) > 1 else "/repo"
    ls = extract(repo)
    print(lean_module(ls))
    for l in driver_lines(ls):
        print(l)
