import sys, random, collections
from pygments.lexers import CLexer, CppLexer, JavaLexer, PythonLexer, JavascriptLexer, TypeScriptLexer, CSharpLexer
from codelimit.common.lexer_utils import lex
from codelimit.common.Scanner import scan_file
from codelimit.languages import Languages as L
rnd = random.Random(int(sys.argv[1]) if len(sys.argv)>1 else 1)
# ---- generic program tree: Func(name, items), Stmt(kind), Class(name, items)
class Gen:
    def __init__(s, lang): s.lang=lang; s.n=0; s.lines=[]; s.expected=[]
    def name(s): s.n+=1; return f"fn{s.n}"
    def emit(s, text, code=True): s.lines.append((text, code)); return len(s.lines)
def comment(lang):
    if lang=='Py': return rnd.choice(['# a comment','# def x():','#(','# {'])
    return rnd.choice(['// a comment','/* block */','// f() {','/* { */', '// }'])
def stmts(lang):
    if lang=='Py': return ['x = 1','g(x)','x = "):{(def"','return x','y = [1, 2]','z = {1: 2}','pass', 'x = g(h(1))']
    return ['x = 1;','g(x);','s = "}{(";','return x;','y = g(h(1));', "c = '{';"]
def gen_brace(g, depth, ind, allow_nested, in_class_ok=True):
    lang=g.lang
    for _ in range(rnd.randint(1,4)):
        r=rnd.random()
        pad=' '*ind
        if r<0.12: g.emit('', False)
        elif r<0.24: g.emit(pad+comment(lang), False)
        elif r<0.5 and depth>0:
            st=rnd.choice(stmts(lang))
            if rnd.random()<0.2: st += ' '+comment(lang)
            g.emit(pad+st)
        elif r<0.62 and depth>0:
            kw=rnd.choice(['if (x > 1)','while (x)','for (;;)'])
            if rnd.random()<0.5: g.emit(pad+kw+' {')
            else: g.emit(pad+kw); g.emit(pad+'{')
            gen_brace(g, depth, ind+2, False)  # control bodies: stmts only
            g.emit(pad+'}')
        elif r<0.7 and depth==0 and lang in ('Java','CS','Cpp','JS','TS') and in_class_ok:
            g.emit(pad+f'class K{g.n} {{'); g.n+=1
            gen_brace_members(g, ind+2)
            g.emit(pad+'}')
        elif r<0.75 and depth==0 and lang in ('C','Cpp'):
            g.emit(pad+'int arr[] = {1, 2};')
        elif depth==0 or (allow_nested and depth<4 and r<0.85):
            gen_func(g, depth, ind)
        else:
            g.emit(pad+rnd.choice(stmts(lang)) if depth>0 else pad+'int x = 1;' if lang in('C','Cpp','Java','CS') else pad+'x = 1;')
def gen_brace_members(g, ind):
    for _ in range(rnd.randint(1,3)):
        if rnd.random()<0.3: g.emit(' '*ind+('int x = 1;' if g.lang in ('Java','CS','Cpp') else 'x = 1;'))
        else: gen_func(g, 0, ind, method=True)
def header(g, name, method):
    lang=g.lang
    params = rnd.choice(['', 'a', 'a, b'])
    if lang in ('C','Cpp','Java','CS'):
        p = ', '.join('int '+x for x in params.split(', ')) if params else ''
        if lang in ('C','Cpp') and rnd.random()<0.15: p = 'struct s a = {1, 2}'
        return ('static ' if rnd.random()<0.3 else '')+f'int {name}({p})', len(('static ' if False else ''))
    if lang in ('JS','TS'):
        if lang=='JS' and rnd.random()<0.15: params='{a, b}'
        if method: return f'{name}({params})', 0
        k=rnd.random()
        if k<0.5: return ('async ' if rnd.random()<0.3 else '')+f'function {name}({params})',0
        return f'const {name} = '+('async ' if rnd.random()<0.3 else '')+f'({params}) =>',0
def gen_func(g, depth, ind, method=False):
    lang=g.lang; name=g.name(); pad=' '*ind
    h,_=header(g,name,method)
    multi = rnd.random()<0.2 and '(' in h and ', ' in h
    rec={'name':name,'lines':set(),'prefix': not (h.startswith(name) or h.startswith('function') or h.startswith('const'))}
    g.expected.append(rec)
    idx=len(g.expected)-1
    if multi:
        a,b=h.split(', ',1)
        l1=g.emit(pad+a+','); l2=g.emit(pad+'    '+b+(' {' if True else ''))
        rec['lines']|={l1,l2}; rec['start_line']=l1
    else:
        if rnd.random()<0.3:
            l1=g.emit(pad+h); l2=g.emit(pad+'{'); rec['lines']|={l1,l2}
        else:
            l1=g.emit(pad+h+' {'); rec['lines'].add(l1)
        rec['start_line']=l1
    before=len(g.lines)
    nested_ok = lang not in ('C',)
    mark=len(g.expected)
    gen_brace(g, depth+1, ind+2, nested_ok)
    lend=g.emit(pad+'}')
    # own lines = code lines in (before, lend] not belonging to nested funcs
    nested=set()
    for r2 in g.expected[mark:]:
        nested |= set(range(r2['start_line']+(1 if r2['prefix'] else 0), r2['end_line']+1))
    for ln in range(before+1, lend+1):
        if g.lines[ln-1][1] and ln not in nested: rec['lines'].add(ln)
    rec['end_line']=lend
def gen_py(g, depth, ind, in_func):
    made=False
    for _ in range(rnd.randint(1,4)):
        r=rnd.random(); pad=' '*ind
        if r<0.12: g.emit('', False)
        elif r<0.24: g.emit(' '*rnd.choice([0,ind,ind+4])+comment('Py'), False)
        elif r<0.5 or (depth>=4):
            st=rnd.choice(stmts('Py'))
            if not in_func and st.startswith('return'): st='x = 2'
            if rnd.random()<0.2: st+='  '+comment('Py')
            g.emit(pad+st); made=True
        elif r<0.6:
            g.emit(pad+rnd.choice(['if x:','while x:','for i in y:','with a as b:'])); gen_py_body(g, depth, ind+4, in_func, funcs=False); made=True
        elif r<0.68 and not in_func:
            g.emit(pad+f'class K{g.n}:'); g.n+=1; gen_py_body(g, depth, ind+4, False, funcs=True); made=True
        else:
            gen_pyfunc(g, depth, ind); made=True
    return made
def gen_py_body(g, depth, ind, in_func, funcs):
    n0=len([l for l in g.lines if l[1]])
    if funcs: gen_py(g, depth, ind, in_func)
    else:
        for _ in range(rnd.randint(1,3)):
            g.emit(' '*ind+rnd.choice(['x = 1','g(x)','pass']))
    if len([l for l in g.lines if l[1]])==n0: g.emit(' '*ind+'pass')
def gen_pyfunc(g, depth, ind):
    name=g.name(); pad=' '*ind
    pre = 'async ' if rnd.random()<0.25 else ''
    rec={'name':name,'lines':set(),'prefix':bool(pre)}; g.expected.append(rec); mark=len(g.expected)
    params=rnd.choice(['','a','a, b=1','a: int, b: str = "x)"'])
    ret=rnd.choice(['',' -> int'])
    if ', ' in params and rnd.random()<0.3:
        a,b=params.split(', ',1)
        l1=g.emit(pad+pre+f'def {name}({a},'); l2=g.emit(pad+'        '+b+f'){ret}:'); rec['lines']|={l1,l2}
    else:
        l1=g.emit(pad+pre+f'def {name}({params}){ret}:'); rec['lines'].add(l1)
    rec['start_line']=l1
    before=len(g.lines)
    gen_py_body(g, depth+1, ind+4, True, funcs=True)
    # end line = last code line
    lend=max(i+1 for i,l in enumerate(g.lines) if l[1])
    nested=set()
    for r2 in g.expected[mark:]: nested|=set(range(r2['start_line']+(1 if r2['prefix'] else 0), r2['end_line']+1))
    for ln in range(before+1, lend+1):
        if g.lines[ln-1][1] and ln not in nested: rec['lines'].add(ln)
    rec['end_line']=lend
LEX={'C':(CLexer(),L.C),'Cpp':(CppLexer(),L.Cpp),'CS':(CSharpLexer(),L.CSharp),'Java':(JavaLexer(),L.Java),'JS':(JavascriptLexer(),L.JavaScript),'TS':(TypeScriptLexer(),L.TypeScript),'Py':(PythonLexer(),L.Python)}
fails=collections.Counter(); ex={}
N=int(sys.argv[2]) if len(sys.argv)>2 else 300
for i in range(N):
    lang=list(LEX)[i%7]
    g=Gen(lang)
    if lang=='Py': gen_py(g,0,0,False)
    else: gen_brace(g,0,0,True)
    code='\n'.join(l[0] for l in g.lines)+('\n' if rnd.random()<0.8 else '')
    exp=[(r['name'], r['start_line'], r['end_line'], len(r['lines'])) for r in g.expected]
    if lang=='C':  # nested not generated for C
        pass
    try:
        ms=scan_file(lex(LEX[lang][0], code, False), LEX[lang][1])
        got=[(m.unit_name, m.start.line, m.end.line, m.value) for m in ms]
    except Exception as e:
        got=('EXC',type(e).__name__)
    if got!=exp:
        fails[lang]+=1; ex.setdefault(lang,(code,exp,got))
print(N, dict(fails))
for k,(code,exp,got) in ex.items():
    print('=====',k); print(code); print('EXP',exp); print('GOT',got)
