import Mathlib.Tactic.Linarith
import Mathlib.Tactic.Positivity

/-- exact model of ceil(p/t*100 - 0.001) for t > 0:  ceil((100000 p - t) / (1000 t)) -/
def pct (p t : Int) : Int := -((t - 100000 * p) / (1000 * t))

theorem pct_lower (p t : Int) (ht : 0 < t) : 100000 * p - t ≤ pct p t * (1000 * t) := by
  unfold pct
  have hD : (0:Int) < 1000 * t := by positivity
  have := Int.ediv_mul_le (t - 100000 * p) (ne_of_gt hD)
  nlinarith

theorem pct_upper (p t : Int) (ht : 0 < t) : pct p t * (1000 * t) < 100000 * p - t + 1000 * t := by
  unfold pct
  have hD : (0:Int) < 1000 * t := by positivity
  have := Int.lt_ediv_add_one_mul_self (t - 100000 * p) hD
  nlinarith

theorem pct_nonneg (p t : Int) (ht : 0 < t) (hp : 0 ≤ p) : 0 ≤ pct p t := by
  have h := pct_upper p t ht
  by_contra hneg
  have : pct p t ≤ -1 := by omega
  nlinarith

theorem pct_le_100 (p t : Int) (ht : 0 < t) (hp : p ≤ t) : pct p t ≤ 100 := by
  have h := pct_lower p t ht
  by_contra hgt
  have : 101 ≤ pct p t := by omega
  nlinarith

theorem two_sum (p q t : Int) (ht : 0 < t) (hp : 0 ≤ p) (hq : 0 ≤ q) (hpq : p + q ≤ t) :
    pct p t + pct q t ≤ 101 := by
  have h1 := pct_upper p t ht
  have h2 := pct_upper q t ht
  by_contra hgt
  have : 102 ≤ pct p t + pct q t := by omega
  nlinarith

#print axioms two_sum
#eval pct 62 93
#eval pct 31 93
