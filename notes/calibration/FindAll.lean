/-! Scratch calibration: faithful model of matcher.find_all over an abstract deterministic automaton. -/

structure DAut (α σ : Type) where
  init : σ
  step : σ → α → Option σ
  acc  : σ → Bool
  dead : σ → Bool          -- `len(state.transition) == 0`

structure Att (σ : Type) where
  start : Nat
  st    : σ
  deriving Repr

structure M where
  s : Nat
  e : Nat
  deriving Repr, DecidableEq

structure FS (σ : Type) where
  ms   : List M            -- reversed (latest first)
  next : List (Att σ)      -- reversed

variable {α σ : Type}

def lastEnd (ms : List M) : Nat := match ms with | [] => 0 | m :: _ => m.e

/-- one attempt processed at index `idx` with item `x` (body of the inner for loop) -/
def procOne (A : DAut α σ) (idx : Nat) (x : α) (fs : FS σ) (p : Att σ) : FS σ :=
  if !fs.ms.isEmpty && p.start < lastEnd fs.ms then fs
  else if A.dead p.st && A.acc p.st then { fs with ms := ⟨p.start, idx⟩ :: fs.ms }
  else match A.step p.st x with
    | some q => { fs with next := { p with st := q } :: fs.next }
    | none => if A.acc p.st then { fs with ms := ⟨p.start, idx⟩ :: fs.ms } else fs

def outer (A : DAut α σ) : Nat → List α → List M → List (Att σ) → List M × List (Att σ)
  | _, [], ms, act => (ms, act)
  | idx, x :: xs, ms, act =>
    let act' := act ++ [⟨idx, A.init⟩]
    let fs := act'.foldl (procOne A idx x) ⟨ms, []⟩
    outer A (idx + 1) xs fs.ms fs.next.reverse

def finalize (A : DAut α σ) (n : Nat) (ms : List M) (act : List (Att σ)) : List M :=
  act.foldl (fun ms p =>
    if !ms.isEmpty && p.start < lastEnd ms then ms
    else if A.acc p.st then ⟨p.start, n⟩ :: ms else ms) ms

def findAll (A : DAut α σ) (xs : List α) : List M :=
  let (ms, act) := outer A 0 xs [] []
  (finalize A xs.length ms act).reverse

/-- invariant on the reversed match list: ends increasing, disjoint, s<e -/
def Ordered : List M → Prop
  | [] => True
  | [m] => m.s < m.e
  | m :: m' :: rest => m.s < m.e ∧ m'.e ≤ m.s ∧ Ordered (m' :: rest)

-- tiny executable sanity: automaton for  a b c d | b c   over Nat letters 0..3
def U : DAut Nat Nat where
  init := 0
  step := fun q x => match q, x with
    | 0, 0 => some 1 | 1, 1 => some 2 | 2, 2 => some 3 | 3, 3 => some 4
    | 0, 1 => some 5 | 5, 2 => some 6
    | _, _ => none
  acc := fun q => q == 4 || q == 6
  dead := fun q => q == 4 || q == 6

#eval findAll U [0,1,2,3]      -- python (fixed): [(1,3)]   (unfixed: [(1,3),(0,4)])
#eval findAll U [0,1,2,3,9]    -- [(1,3)]

/-! ### invariant proof attempt -/

theorem Ordered_cons {m : M} {ms : List M} (h : Ordered ms) (hm : m.s < m.e)
    (hle : ms = [] ∨ lastEnd ms ≤ m.s) : Ordered (m :: ms) := by
  cases ms with
  | nil => simpa [Ordered] using hm
  | cons m' rest =>
    simp [Ordered]
    refine ⟨hm, ?_, h⟩
    cases hle with
    | inl h0 => cases h0
    | inr h1 => simpa [lastEnd] using h1

/-- attempt well-formedness at time idx: started before idx, or is the fresh one still in init -/
def AttOk (A : DAut α σ) (idx : Nat) (p : Att σ) : Prop :=
  p.start < idx ∨ (p.start = idx ∧ A.acc p.st = false)

theorem procOne_inv (A : DAut α σ) (idx : Nat) (x : α) (fs : FS σ) (p : Att σ)
    (hO : Ordered fs.ms) (hL : lastEnd fs.ms ≤ idx) (hp : AttOk A idx p) :
    Ordered (procOne A idx x fs p).ms ∧ lastEnd (procOne A idx x fs p).ms ≤ idx := by
  unfold procOne
  split
  · exact ⟨hO, hL⟩
  · rename_i hguard
    have hge : fs.ms = [] ∨ lastEnd fs.ms ≤ p.start := by
      cases hms : fs.ms with
      | nil => left; rfl
      | cons m r =>
        right
        simp [hms] at hguard
        simpa [hms] using hguard
    split
    · rename_i hda
      simp at hda
      have hlt : p.start < idx := by
        cases hp with
        | inl h => exact h
        | inr h => simp [h.2] at hda
      exact ⟨Ordered_cons hO hlt hge, by simp [lastEnd]⟩
    · split
      · exact ⟨hO, hL⟩
      · split
        · rename_i hacc
          have hlt : p.start < idx := by
            cases hp with
            | inl h => exact h
            | inr h => simp [h.2] at hacc
          exact ⟨Ordered_cons hO hlt hge, by simp [lastEnd]⟩
        · exact ⟨hO, hL⟩
