import Proto.Gen
def cat (L : Int) : Nat := if L ≤ 15 then 0 else if L ≤ 30 then 1 else if L ≤ 60 then 2 else 3
theorem profile_bucket (v : Int) : Gen.make_profile_bucket v = cat v := by
  unfold Gen.make_profile_bucket cat; repeat' split <;> omega
theorem count_bucket (v : Int) : Gen.make_count_profile_bucket v = cat v := by
  unfold Gen.make_count_profile_bucket cat; grind
theorem style_red (v : Int) : Gen.get_style_for_measurement v = "Style(color='red')" ↔ cat v = 3 := by
  unfold Gen.get_style_for_measurement cat; grind
theorem emoji_ok (v : Int) : Gen.get_emoji_for_measurement v = "'✓'" ↔ cat v ≤ 1 := by
  unfold Gen.get_emoji_for_measurement cat; grind
theorem hard (v : Int) : Gen.check_hard_to_maintain v ↔ cat v = 2 := by
  unfold Gen.check_hard_to_maintain cat; grind
theorem unm (v : Int) : Gen.check_unmaintainable v ↔ cat v = 3 := by
  unfold Gen.check_unmaintainable cat; grind
#print axioms style_red
