-- GENERATED from /repo by translator; do not edit
namespace Gen

def make_profile_bucket (v : Int) : Nat := if ((v ≤ (15 : Int))) then (0 : Nat) else if ((v ≤ (30 : Int))) then (1 : Nat) else if ((v ≤ (60 : Int))) then (2 : Nat) else (3 : Nat)
def make_count_profile_bucket (v : Int) : Nat := if ((v ≤ (15 : Int))) then (0 : Nat) else if ((v ≤ (30 : Int))) then (1 : Nat) else if ((v ≤ (60 : Int))) then (2 : Nat) else (3 : Nat)
def get_style_for_measurement (value : Int) : String := if ((value > (60 : Int))) then "Style(color='red')" else if ((value > (30 : Int))) then "Style(color='dark_orange')" else if ((value > (15 : Int))) then "Style(color='yellow')" else "Style(color='green')"
def get_emoji_for_measurement (value : Int) : String := if ((value > (60 : Int))) then "'✖'" else if ((value > (30 : Int))) then "'⚠'" else "'✓'"
def check_hard_to_maintain (v : Int) : Prop := (((30 : Int) < v) ∧ (v ≤ (60 : Int)))
def check_unmaintainable (v : Int) : Prop := ((v > (60 : Int)))

end Gen
