/-! Scratch calibration for C13: Thompson construction with integer ids, Concat by merging. -/

inductive Rx (α : Type) where
  | atom : α → Rx α
  | cat  : Rx α → Rx α → Rx α
  | alt  : Rx α → Rx α → Rx α
  | opt  : Rx α → Rx α
  | star : Rx α → Rx α
  | plus : Rx α → Rx α

variable {α : Type}

/-- denotational language -/
inductive Lang : Rx α → List α → Prop where
  | atom (a : α) : Lang (.atom a) [a]
  | cat {r s u v} : Lang r u → Lang s v → Lang (.cat r s) (u ++ v)
  | altL {r s u} : Lang r u → Lang (.alt r s) u
  | altR {r s u} : Lang s u → Lang (.alt r s) u
  | optNil {r} : Lang (.opt r) []
  | optSome {r u} : Lang r u → Lang (.opt r) u
  | starNil {r} : Lang (.star r) []
  | starCons {r u v} : Lang r u → Lang (.star r) v → Lang (.star r) (u ++ v)
  | plusOne {r u} : Lang r u → Lang (.plus r) u
  | plusCons {r u v} : Lang r u → Lang (.plus r) v → Lang (.plus r) (u ++ v)

inductive Edge (α : Type) where
  | eps : Nat → Nat → Edge α
  | sym : Nat → α → Nat → Edge α

structure Frag (α : Type) where
  acc   : Nat
  next  : Nat
  edges : List (Edge α)

/-- `build r s n`: fragment for `r` whose start state is the given `s`, fresh ids from `n`. -/
def build : Rx α → Nat → Nat → Frag α
  | .atom a, s, n => ⟨n, n + 1, [.sym s a n]⟩
  | .cat r1 r2, s, n =>
      let f1 := build r1 s n
      let f2 := build r2 f1.acc f1.next
      ⟨f2.acc, f2.next, f1.edges ++ f2.edges⟩
  | .alt r1 r2, s, n =>
      let f1 := build r1 n (n + 2)
      let f2 := build r2 (n + 1) f1.next
      let a := f2.next
      ⟨a, a + 1, [.eps s n, .eps s (n + 1), .eps f1.acc a, .eps f2.acc a] ++ (f1.edges ++ f2.edges)⟩
  | .opt r, s, n =>
      let f := build r n (n + 1)
      let a := f.next
      ⟨a, a + 1, [.eps s n, .eps s a, .eps f.acc a] ++ f.edges⟩
  | .star r, s, n =>
      let f := build r n (n + 1)
      let a := f.next
      ⟨a, a + 1, [.eps s n, .eps s a, .eps f.acc n, .eps f.acc a] ++ f.edges⟩
  | .plus r, s, n =>
      let f := build r n (n + 1)
      let a := f.next
      ⟨a, a + 1, [.eps s n, .eps f.acc n, .eps f.acc a] ++ f.edges⟩

def Edge.src : Edge α → Nat | .eps p _ => p | .sym p _ _ => p
def Edge.dst : Edge α → Nat | .eps _ q => q | .sym _ _ q => q

/-- paths with a step count -/
inductive Path (E : List (Edge α)) : Nat → List α → Nat → Nat → Prop where
  | nil (q) : Path E q [] q 0
  | eps {p q r w k} : Edge.eps p q ∈ E → Path E q w r k → Path E p w r (k + 1)
  | sym {p q r a w k} : Edge.sym p a q ∈ E → Path E q w r k → Path E p (a :: w) r (k + 1)

theorem Path.mono {E E' : List (Edge α)} (h : ∀ e, e ∈ E → e ∈ E') {p w q k} :
    Path E p w q k → Path E' p w q k := by
  intro hp
  induction hp with
  | nil q => exact .nil q
  | eps he _ ih => exact .eps (h _ he) ih
  | sym he _ ih => exact .sym (h _ he) ih

theorem Path.trans {E : List (Edge α)} {p q r u v k l} :
    Path E p u q k → Path E q v r l → Path E p (u ++ v) r (k + l) := by
  intro h1 h2
  induction h1 with
  | nil q => simpa using h2
  | eps he _ ih => have := Path.eps he (ih h2); simpa [Nat.add_right_comm] using this
  | sym he _ ih => have := Path.sym he (ih h2); simpa [Nat.add_right_comm] using this

/-- structural invariants of a fragment built at start `s` with fresh ids from `n` (`s < n`). -/
structure FragOk (s n : Nat) (f : Frag α) : Prop where
  next_gt : n < f.next
  acc_rng : n ≤ f.acc ∧ f.acc < f.next
  src_rng : ∀ e ∈ f.edges, e.src = s ∨ (n ≤ e.src ∧ e.src < f.next)
  dst_rng : ∀ e ∈ f.edges, n ≤ e.dst ∧ e.dst < f.next
  acc_out : ∀ e ∈ f.edges, e.src ≠ f.acc

theorem build_ok (r : Rx α) : ∀ s n, s < n → FragOk s n (build r s n) := by
  induction r with
  | atom a =>
    intro s n h
    refine ⟨by simp [build], by simp [build], ?_, ?_, ?_⟩ <;>
      intro e he <;> simp [build] at he <;> subst he <;> simp [Edge.src, Edge.dst, build] <;> omega
  | cat r1 r2 ih1 ih2 =>
    intro s n h
    have o1 := ih1 s n h
    have o2 := ih2 (build r1 s n).acc (build r1 s n).next o1.acc_rng.2
    refine ⟨?_, ?_, ?_, ?_, ?_⟩
    · have := o1.next_gt; have := o2.next_gt; simp [build]; omega
    · have := o1.next_gt; have := o2.acc_rng; simp [build]; omega
    · intro e he
      simp [build] at he
      rcases he with he | he
      · have := o1.src_rng e he; have := o2.next_gt; simp [build]; omega
      · have := o2.src_rng e he; have := o1.acc_rng; have := o1.next_gt; have := o2.next_gt; simp [build]; omega
    · intro e he
      simp [build] at he
      rcases he with he | he
      · have := o1.dst_rng e he; have := o2.next_gt; simp [build]; omega
      · have := o2.dst_rng e he; have := o1.next_gt; simp [build]; omega
    · intro e he
      simp [build] at he
      rcases he with he | he
      · have := o1.src_rng e he; have := o2.acc_rng; have := o1.next_gt; simp [build]; omega
      · exact o2.acc_out e he
  | alt r1 r2 ih1 ih2 =>
    intro s n h
    have o1 := ih1 n (n + 2) (by omega)
    have o2 := ih2 (n + 1) (build r1 n (n + 2)).next (by have := o1.next_gt; omega)
    have h1 := o1.next_gt; have h2 := o2.next_gt; have h3 := o1.acc_rng; have h4 := o2.acc_rng
    refine ⟨by simp [build]; omega, by simp [build]; omega, ?_, ?_, ?_⟩
    all_goals
      intro e he
      simp [build] at he
      rcases he with he | he | he | he | he | he
      all_goals first
        | (subst he; simp [Edge.src, Edge.dst, build] <;> omega)
        | (have a1 := o1.src_rng e he; have a2 := o1.dst_rng e he; have a3 := o1.acc_out e he
           simp [build]; omega)
        | (have a1 := o2.src_rng e he; have a2 := o2.dst_rng e he; have a3 := o2.acc_out e he
           simp [build]; omega)
  | opt r ih =>
    intro s n h
    have o := ih n (n + 1) (by omega)
    have h1 := o.next_gt; have h3 := o.acc_rng
    refine ⟨by simp [build]; omega, by simp [build]; omega, ?_, ?_, ?_⟩
    all_goals
      intro e he
      simp [build] at he
      rcases he with he | he | he | he
      all_goals first
        | (subst he; simp [Edge.src, Edge.dst, build] <;> omega)
        | (have a1 := o.src_rng e he; have a2 := o.dst_rng e he; have a3 := o.acc_out e he
           simp [build]; omega)
  | star r ih =>
    intro s n h
    have o := ih n (n + 1) (by omega)
    have h1 := o.next_gt; have h3 := o.acc_rng
    refine ⟨by simp [build]; omega, by simp [build]; omega, ?_, ?_, ?_⟩
    all_goals
      intro e he
      simp [build] at he
      rcases he with he | he | he | he | he
      all_goals first
        | (subst he; simp [Edge.src, Edge.dst, build] <;> omega)
        | (have a1 := o.src_rng e he; have a2 := o.dst_rng e he; have a3 := o.acc_out e he
           simp [build]; omega)
  | plus r ih =>
    intro s n h
    have o := ih n (n + 1) (by omega)
    have h1 := o.next_gt; have h3 := o.acc_rng
    refine ⟨by simp [build]; omega, by simp [build]; omega, ?_, ?_, ?_⟩
    all_goals
      intro e he
      simp [build] at he
      rcases he with he | he | he | he
      all_goals first
        | (subst he; simp [Edge.src, Edge.dst, build] <;> omega)
        | (have a1 := o.src_rng e he; have a2 := o.dst_rng e he; have a3 := o.acc_out e he
           simp [build]; omega)
