import ast, sys, pathlib
REPO = pathlib.Path(sys.argv[1] if len(sys.argv) > 1 else '/repo')
class Refuse(Exception): pass
CMP = {ast.Lt:'<', ast.LtE:'≤', ast.Gt:'>', ast.GtE:'≥', ast.Eq:'=', ast.NotEq:'≠'}
def expr(e, env):
    if isinstance(e, ast.Constant) and isinstance(e.value, bool): return 'True' if e.value else 'False'
    if isinstance(e, ast.Constant) and isinstance(e.value, int): return f'({e.value} : Int)'
    if isinstance(e, ast.Name) and e.id in env: return env[e.id]
    if isinstance(e, ast.Attribute):
        k = ast.unparse(e)
        if k in env: return env[k]
    if isinstance(e, ast.Compare):
        parts=[]; left=e.left
        for op, right in zip(e.ops, e.comparators):
            if type(op) not in CMP: raise Refuse(ast.unparse(e))
            parts.append(f'({expr(left,env)} {CMP[type(op)]} {expr(right,env)})'); left=right
        return '(' + ' ∧ '.join(parts) + ')'
    if isinstance(e, ast.BoolOp):
        j = ' ∧ ' if isinstance(e.op, ast.And) else ' ∨ '
        return '(' + j.join(expr(v,env) for v in e.values) + ')'
    if isinstance(e, ast.UnaryOp) and isinstance(e.op, ast.Not): return f'(¬ {expr(e.operand,env)})'
    if isinstance(e, ast.BinOp) and type(e.op) in (ast.Add, ast.Sub, ast.Mult):
        o = {ast.Add:'+',ast.Sub:'-',ast.Mult:'*'}[type(e.op)]
        return f'({expr(e.left,env)} {o} {expr(e.right,env)})'
    raise Refuse(f'{type(e).__name__}: {ast.unparse(e)} @ line {getattr(e,"lineno","?")}')
def chain(stmts, env, leaf):
    """if/elif/else chain whose leaves are classified by `leaf(stmt_list) -> lean term`"""
    if len(stmts)==1 and isinstance(stmts[0], ast.If):
        i = stmts[0]
        els = chain(i.orelse, env, leaf) if i.orelse else None
        if els is None: raise Refuse(f'if without else @ line {i.lineno}')
        return f'if {expr(i.test, env)} then {chain(i.body, env, leaf)} else {els}'
    return leaf(stmts)
def func(path, name):
    tree = ast.parse((REPO/path).read_text())
    for n in ast.walk(tree):
        if isinstance(n, ast.FunctionDef) and n.name == name: return n
    raise Refuse(f'{path}:{name} not found')
out = ['-- GENERATED from /repo by translator; do not edit', 'namespace Gen', '']
# make_profile / make_count_profile: for m in measurements: if-chain of result[i] += ...
def bucket_leaf(stmts):
    (s,) = stmts
    if isinstance(s, ast.AugAssign) and isinstance(s.op, ast.Add) and isinstance(s.target, ast.Subscript) and isinstance(s.target.slice, ast.Constant):
        return f'({s.target.slice.value} : Nat)'
    raise Refuse(ast.unparse(s))
for fn in ('make_profile','make_count_profile'):
    f = func('codelimit/common/utils.py', fn)
    loop = next(s for s in f.body if isinstance(s, ast.For))
    env = {f'{loop.target.id}.value':'v'}
    out.append(f'def {fn}_bucket (v : Int) : Nat := {chain(loop.body, env, bucket_leaf)}')
# get_style_for_measurement / emoji: if-chain of returns
def ret_leaf(stmts):
    (s,) = stmts
    if isinstance(s, ast.Return): return '"' + ast.unparse(s.value).replace('"',"'").replace('\\','/') + '"'
    raise Refuse(ast.unparse(s))
for fn in ('get_style_for_measurement','get_emoji_for_measurement'):
    f = func('codelimit/common/utils.py', fn)
    out.append(f'def {fn} (value : Int) : String := {chain(f.body, {"value":"value"}, ret_leaf)}')
# CheckResult.add comprehension conditions
f = func('codelimit/common/CheckResult.py', 'add')
for s in f.body:
    if isinstance(s, ast.AugAssign) and isinstance(s.target, ast.Attribute):
        comp = s.value.args[0]  # len([...])
        gen = comp.generators[0]
        out.append(f'def check_{s.target.attr} (v : Int) : Prop := {expr(gen.ifs[0], {gen.target.id+".value":"v"})}')
out += ['', 'end Gen']
print('\n'.join(out))
