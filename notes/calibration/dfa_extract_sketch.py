import sys, json
from codelimit.common.scope import scope_utils
from codelimit.common.gsm.Expression import expression_to_nfa, nfa_to_dfa
from codelimit.common.gsm.matcher import find_all as real_find_all, starts_with as real_starts_with
from codelimit.languages import Languages
from codelimit.common.token_matching.predicate import Balanced, Name, Keyword, Symbol, Operator, TokenValue, Not, And, Or
from codelimit.common.gsm.predicate.Identity import Identity
captured = []
def fa(expr, toks): captured.append(('find_all', expr)); return real_find_all(expr, toks)
def sw(expr, toks): captured.append(('starts_with', expr)); return real_starts_with(expr, toks)
scope_utils.find_all = fa; scope_utils.starts_with = sw
def desc(p):
    n = type(p).__name__
    if n == 'Name': return ['Name']
    if n == 'Keyword': return ['Keyword', p.keyword]
    if n == 'Symbol': return ['Symbol', p.symbol]
    if n == 'Operator': return ['Operator', p.symbol]
    if n == 'TokenValue': return ['TokenValue', p.value]
    if n == 'Identity': return ['Identity', repr(p.item)]
    if n == 'Not': return ['Not', desc(p.predicate)]
    if n in ('And','Or','Balanced'): return [n, desc(p.left), desc(p.right)]
    raise ValueError(n)
def table(expr):
    dfa = nfa_to_dfa(expression_to_nfa(expr))
    ids = {}; order=[]; 
    def visit(s):
        if id(s) in ids: return
        ids[id(s)] = len(ids); order.append(s)
        for (p,t) in s.transition: visit(t)
    visit(dfa.start)
    preds = {}
    trans = []
    for s in order:
        for (p,t) in s.transition:
            preds.setdefault(id(p), (len(preds), desc(p)))
            trans.append((ids[id(s)], preds[id(p)][0], ids[id(t)]))
    return {'states': len(order), 'accepting': sorted(ids[id(a)] for a in dfa.accepting if id(a) in ids),
            'preds': [d for (_,d) in sorted(preds.values())], 'trans': sorted(trans)}
# a token list that makes every language call find_all and starts_with at least once
from pygments.lexers import get_lexer_by_name
from codelimit.common.lexer_utils import lex
samples = {'C':'int f() {}','C++':'int f() {}','C#':'int f() {}','Java':'int f() throws E {}','JavaScript':'function f() {}\nconst g = () => {}','TypeScript':'function f(): number {}\nconst g = () => {}','Python':'def f():\n  pass\n'}
for name, lang in Languages.by_name.items():
    captured.clear()
    toks = lex(get_lexer_by_name(name), samples[name])
    lang.extract_headers(toks)
    seen=set()
    for kind, expr in captured:
        t = table(expr); key = json.dumps(t, sort_keys=True)
        if (kind,key) in seen: continue
        seen.add((kind,key))
        print(name, kind, json.dumps(t))
