#!/usr/bin/env python3
"""Run the checks against a BEHAVIOUR-PRESERVING change of /repo (a "neutral" patch written by an
independent sub-agent): none of them may raise an alarm.

usage: tools/neutralrun.py <id> <check ids...|all>
  reads /tmp/neutral/out/<id>.diff and <id>.txt
  uses  /tmp/neutral/wt-run-<id>   (a scratch git worktree of /repo, created and removed here)
        /tmp/neutralv/<id>         (a private copy of /verif incl. its Lean build output, removed afterwards)
Stores patch, description and the result under /verif/neutral/<id>/ ."""
import json
import os
import shutil
import subprocess
import sys
import time

VERIF = os.path.dirname(os.path.dirname(os.path.abspath(__file__)))
PY = "/venv/bin/python"
ALL = ["C%02d" % i for i in range(1, 20)]


def sh(cmd, cwd=None, env=None, timeout=7200):
    p = subprocess.run(cmd, shell=True, cwd=cwd, env=env, capture_output=True, text=True, timeout=timeout)
    return p.returncode, (p.stdout + p.stderr)


def main():
    nid = sys.argv[1]
    checks = ALL if sys.argv[2:] in ([], ["all"]) else sys.argv[2:]
    patch = "/tmp/neutral/out/%s.diff" % nid
    if not os.path.exists(patch):
        patch = os.path.join(VERIF, "neutral", nid, "patch.diff")
    desc = ""
    try:
        desc = open("/tmp/neutral/out/%s.txt" % nid).read()
    except OSError:
        pass
    wt = "/tmp/neutral/wt-run-%s" % nid
    vcopy = "/tmp/neutralv/%s" % nid
    sh("git -C /repo worktree remove --force %s" % wt)
    rc, out = sh("git -C /repo worktree add -f --detach %s HEAD" % wt)
    if rc != 0:
        print(out); return 2
    os.makedirs("/tmp/neutralv", exist_ok=True)
    sh("rsync -a --delete --exclude .git --exclude replays --exclude seeded --exclude neutral %s/ %s/" % (VERIF, vcopy))
    os.makedirs(os.path.join(vcopy, "replays"), exist_ok=True)
    res = {"id": nid, "ran_at": time.strftime("%Y-%m-%d %H:%M:%S"), "repo_commit": sh("git -C /repo rev-parse --short HEAD")[1].strip(),
           "verif_commit": sh("git rev-parse --short HEAD", VERIF)[1].strip()}
    try:
        rc, out = sh("git apply --check %s && git apply %s" % (patch, patch), wt)
        if rc != 0:
            # written against an earlier HEAD (fix: commits have landed since): three-way merge
            rc, out = sh("git apply --3way %s && git reset -q" % patch, wt)
            res["applied_3way"] = rc == 0
        res["applies"] = rc == 0
        if rc != 0:
            res["apply_error"] = out[-500:]
        else:
            env = dict(os.environ, PYTHONPATH=wt)
            rc, out = sh("%s -m pytest -q -p no:cacheprovider --timeout=900 2>&1 | tail -3" % PY, wt, env)
            res["tests_pass_with_change"] = "157 passed" in out and "failed" not in out
            cenv = dict(os.environ, VERIF_REPO=wt)
            cenv.pop("PYTHONPATH", None)
            cres = {}
            for cid in checks:
                t0 = time.time()
                rc, out = sh("./check %s quick" % cid, vcopy, cenv, 3600)
                lines = [l for l in out.splitlines() if l.startswith("VIOLATION") or "->" in l]
                cres[cid] = {"exit": rc, "lines": [l[:220] for l in lines][-3:], "wall_s": round(time.time() - t0, 1)}
                if rc != 0:
                    cres[cid]["tail"] = out[-1200:]
                    for l in lines:
                        if l.startswith("VIOLATION") and "replay=" in l:
                            try:
                                s = json.dumps(json.load(open(os.path.join(vcopy, l.split("replay=")[1].split()[0]))), default=str)
                                cres[cid]["first_replay"] = s[:2500]
                            except Exception:
                                pass
                            break
            res["checks"] = cres
    finally:
        sh("git -C /repo worktree remove --force %s" % wt)
        shutil.rmtree(vcopy, ignore_errors=True)
    dst = os.path.join(VERIF, "neutral", nid)
    os.makedirs(dst, exist_ok=True)
    shutil.copy(patch, os.path.join(dst, "patch.diff"))
    with open(os.path.join(dst, "description.txt"), "w") as f:
        f.write(desc)
    json.dump(res, open(os.path.join(dst, os.environ.get("NEUTRAL_RESULT", "result.json")), "w"), indent=1)
    alarms = sorted(c for c, v in res.get("checks", {}).items() if v["exit"] != 0)
    print(json.dumps({"id": nid, "applies": res.get("applies"), "tests": res.get("tests_pass_with_change"), "alarms": alarms}))
    return 0


if __name__ == "__main__":
    sys.exit(main())
