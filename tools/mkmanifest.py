#!/usr/bin/env python3
"""(Re)generate MANIFEST.json from the table below. Run from /verif."""
import json

ALL = ["C%02d" % i for i in range(1, 20)]

CLAIMS = {
 "C13": dict(
  text="Kernel-checked theorems (Props/C13.lean) over the executable model of the whole engine (Thompson construction with integer ids and Concat-by-aliasing, worklist epsilon-closure, worklist subset construction with the start-object quirk, Pattern.consume, match/starts_with/nfa_match): for every pattern, word, id base and set-iteration order, match <-> membership in the regular language, starts_with = shortest non-empty matching prefix, nfa_match agrees, and building terminates (fuel bounds proved sufficient). The model is tied to /repo by differential testing on every run (exhaustive small space + random); a broken proof/tie triggers a failing-input search on the real code with an independent derivative-based oracle.",
  note="Trusted: Lean kernel (+leanchecker in thorough), axioms propext/Classical.choice/Quot.sound, the correspondence harness and its generator. Modelled not verified: Python set iteration (parameter ord), object identity of State (ids).",
  design="6/C13", technique="Lean 4 proof over executable model + differential correspondence"),
 "C14": dict(
  text="Kernel-checked theorems (Props/C14.lean) about the model of matcher.find_all over an arbitrary deterministic machine: bounds, recorded items = spanned items, accepting and longest run, position order and disjointness including the end-of-input loop, completeness up to pre-emption (completeness_partial) and a kernel-checked counterexample to full completeness (known finding KF1). Tie: differential testing of find_all on Identity atoms (exhaustive non-nullable ASTs x sequences) and on the header shapes with real token predicates (exhaustive token sequences).",
  note="Trusted as C13. Completeness is proved only in the partial form; the full clause is false of the code (KF1, required by pinned tests).",
  design="6/C14", technique="Lean 4 proof (invariant over the find_all loop) + differential correspondence"),
 "C02": dict(
  text="Every comparison that classifies a function length (profile buckets, counters, colours, symbols, check's risk filter, exit code, quiet condition, findings thresholds, Markdown symbols) is re-translated from the Python source into Lean on every run (Gen/Logic.lean) and proved equal to the category definition for every integer length (Props/C02.lean); the list-level claims about check (exit 1 iff some function > 60, listed = per-file filter > 30 longest first, summary count, quiet) are proved about a model of check_command/CheckResult that uses those generated decisions. The generated definitions and the glue are compared with the real functions for every length 0..200 and for random multisets of lengths over files.",
  note="Trusted: Lean kernel; translator/logic.py (also exercised against the real functions); correspondence harness; rich/typer output capture.",
  design="6/C02", technique="Lean 4 proof over source-regenerated decision logic (ast->Lean translator) + correspondence"),
 "C04": dict(
  text="Kernel-checked theorems (Props/C04.lean) about the model of the whole pipeline from tokens to measurements: scanFile commutes with every strictly monotone line relabelling (for every token list and language; Python under the natural no-insertion-inside-a-token hypothesis), depends on its input only through the code tokens and the lines carrying a marker comment, and counts only lines that carry a code token. That inserting blank/comment lines or trailing comments/whitespace at token-safe points changes each real lexer's code-token stream only by such a relabelling is checked on every run by a metamorphic comparison on canonical programs and a vendored corpus (1..5 simultaneous insertions; thorough: every safe point).",
  note="Trusted: Lean kernel; correspondence harness incl. its computation of token-safe points; Pygments lexers (parameter).",
  design="6/C04", technique="Lean 4 proof (relabelling invariance of the pipeline model) + metamorphic correspondence"),
 "C06": dict(
  text="Kernel-checked theorems (Props/C06.lean): match/starts_with/nfa_match/find_all do not depend on the set-iteration order nor on the state-id counter (bisimulation of the compiled tables), also for the stateful token predicates up to get_headers; the model is a pure function of (language, content). The runtime counterpart (hash randomisation, process-wide counter, state surviving between files) is tied by analysing files in fresh interpreters under different PYTHONHASHSEEDs and permuted orders with malformed files interleaved, comparing every per-file result with the model's, and by scanning one tree twice.",
  note="Partial for the runtime: real hash randomisation and process state are represented as arbitrary iteration orders / id bases in the theorems; the link is the subprocess correspondence.",
  design="6/C06", technique="Lean 4 proof (order/id-base independence by bisimulation) + subprocess correspondence"),
 "C15": dict(
  text="The shipped header and follow-up expressions are extracted from the running code into Gen/Languages.lean on every run; a decidable checker with a kernel-checked soundness theorem (finite token abstraction, depth-0 invariant for Balanced) is evaluated by the kernel on them (Props/C15.lean: all_ok), giving: in every reachable matcher configuration, at any nesting depth, for every token at most one transition applies; header extraction never raises (no ambiguity error, no StopIteration, no fuel). Correspondence: real find_all vs model on all sequences of the abstract tokens each pattern can distinguish.",
  note="Trusted: Lean kernel; translator/patterns.py; correspondence harness.",
  design="6/C15", technique="Lean 4 proof: verified decidable checker evaluated in the kernel on source-extracted patterns"),
 "C16": dict(
  text="Kernel-checked theorems (Props/C16.lean) about the model of lex/get_newline_indices/location_to_index/filter_tokens for every text and every raw token stream satisfying the lexer contract: reported (line, column) = (1 + newlines before, distance from line start + 1), location_to_index round-trips, the text at the position equals the token text, kept tokens strictly increase and do not overlap, whitespace never kept, comments kept iff requested. Correspondence: the real lex with the 7 real lexers vs the model on edge-case texts, programs, malformed stream, corpus; the contract is checked on every input.",
  note="Trusted: Lean kernel; correspondence harness. Modelled not verified: Pygments lexers (contract RawOk + non-empty non-Text tokens, checked at run time).",
  design="6/C16", technique="Lean 4 proof over the lex model + differential correspondence with contract checking"),
 "C17": dict(
  text="Kernel-checked theorems (Props/C17.lean): an independent characterisation of the marker recogniser, exactly the scopes whose name line carries a marker comment are dropped, and removing an independent function (neither enclosing nor nested, in a list sorted by header start) leaves every other scope with exactly its children - end to end through scanFile. Correspondence + metamorphic oracle: canonical programs with random subsets of independent functions marked in every comment style/case/spacing, decoys, and comment texts through the recogniser.",
  note="Trusted: Lean kernel; correspondence harness and canonical generator. str.lower/strip modelled on code points. For languages without nested reporting a marker on an enclosing function reveals the inner one (reported_flat_full_fails; outside the canonical fragment).",
  design="6/C17", technique="Lean 4 proof (filter/fold commutation) + metamorphic correspondence"),
 "C19": dict(
  text="quality_profile_percentage, both verdicts and the summary styles are re-translated from the source on every run (Gen/Logic.lean) and proved (Props/C19.lean) for all non-negative profiles: shown percentages are integers in 0..100 summing to 100, within one point (easy/verbose: two) of the true share, a category above 0.001 % never shows 0, verdict necessary iff unmaintainable > 0 or hard > 20, identical in both formats - with the rounding formula read exactly. The float evaluation is tied by correspondence on all profiles up to a total, adversarial near-ties and random large profiles (+1 tolerance at exact ties).",
  note="Partial: IEEE-754 evaluation of the formula is not proved equal to the exact reading; it is checked on every explored profile. Trusted: Lean kernel; translator/logic.py; harness.",
  design="6/C19", technique="Lean 4 proof over source-regenerated arithmetic (exact reading) + correspondence for the float link"),
 "C03": dict(
  text="Kernel-checked theorems (Props/C03.lean): for each of the 7 shipped languages (patterns regenerated from the running code) and EVERY token list, the model of the whole pipeline (lex filtering, header extraction with the token-regex engine, brace / indentation blocks, scope building, folding, counting, spans) returns measurements - no index, ambiguity, StopIteration, list.index, min([]) or fuel error is reachable; all model functions are total. The model is tied to the code on the malformed stream. Runtime behaviour the model cannot exhibit (Pygments, decoding, path arithmetic, the CLI) is exercised directly: in-process analysis of every malformed input and subprocess runs of `python -m codelimit scan|check` on trees of such files named in every way.",
  note="Partial for the runtime: termination/exceptions of Pygments, OS errors and the interpreter's recursion limit are contracts exercised by the malformed stream and CLI runs, not proved.",
  design="6/C03", technique="Lean 4 proof (totality of the pipeline model for all token lists) + malformed-stream correspondence + CLI runs"),
 "C05": dict(
  text="Kernel-checked theorems (Props/C05.lean) for every shipped language and every token list with increasing positions (provided by C16): each measurement starts at a code token, ends just past a code token not before it, carries the text of a Name token inside its span, has 1 <= length <= code-bearing lines of the span; measurements are in source order with distinct starts (header starts proved distinct for all languages incl. the two-pattern ones); the file total is the sum. Tie + oracle: model vs real and the property stated directly on the real output, on the malformed stream, canonical programs and the corpus.",
  note="Trusted: Lean kernel; harness. The hypothesis of increasing positions is needed only for Python (kernel-checked witness) and is what C16 provides.",
  design="6/C05", technique="Lean 4 proof (index-bound invariants through the pipeline model) + correspondence with a direct oracle"),
 "C18": dict(
  text="Kernel-checked theorems (Props/C18.lean) about a model of the text and Markdown overview, the Delta classes and both findings printers (decisions taken from the source-regenerated Gen/Logic.lean): rows show exactly the stored figures, ordered by LOC (stable), footer/Totals = sums and present iff more than one language; with a previous report every figure of a language present in both, and every total, is annotated with current-previous iff they differ, identically in both formats; findings = length > 30, longest first, first 10 unless full, omitted = total-10. Correspondence: cells of the real ScanResultTable, console lines, Markdown rows and findings lines of real Report objects vs the model; oracle = the property on stored numbers.",
  note="Trusted: Lean kernel; translator/logic.py; harness (rich internals for cells). Locale: C (no thousands separators), asserted at run time.",
  design="6/C18", technique="Lean 4 proof over a cell-level rendering model using source-regenerated decisions + correspondence"),
 "C07": dict(
  text="Kernel-checked theorems (Props/C07.lean) about a faithful model of Codebase.add_file/add_folder/aggregate, LanguageTotals, ScanTotals and the profile functions (thresholds taken from the source-regenerated Gen/Logic.lean): for every list of files with pairwise distinct paths not starting with './' (any depth, shared prefixes, empty components, any insertion order, any languages/loc/measurements), building never raises and the fuel suffices; per-language totals, file profiles, folder profiles (= sum over all files beneath), root profile, grand totals, and the tree shape (every file once under its parent, every folder once under its parent, all ancestors present, nothing else) are exactly as the property states. Correspondence: the real Codebase object and the JSON report vs the model on random path sets, all insertion orders of small sets, malformed paths; oracle recomputes every number from the input.",
  note="Trusted: Lean kernel; translator/logic.py; harness. Python dicts modelled as insertion-ordered association lists; recursion depth assumed below the interpreter limit. A second aggregate() doubles profiles (observation outside the property).",
  design="6/C07", technique="Lean 4 proof over a model of the codebase builder + correspondence with independent oracle"),
 "C09": dict(
  text="Kernel-checked theorems (Props/C09.lean) about an abstract state-machine model of scan_command/_read_cached_report/_scan_file/read_report with parameters analyze, hash (injective), selected: the invariant `the cache is honest or unusable` holds initially and is preserved by every operation (write, delete, rename, touch, swap, change exclusions, replace the cache by junk / a foreign-version document with arbitrary entries / an honest one, truncation, scan), hence after EVERY finite history a cache-assisted scan reports exactly what a fresh scan reports; a result is reused only for a path whose cached hash equals the hash of the current content under the current version; report/findings refuse other versions. Correspondence: the real scan_command on temp dirs over bounded-exhaustive and random histories with _analyze_file instrumented; oracle = fresh scan of a copy + reuse audit.",
  note="Assumes md5 injective on the explored universe. The byte level (what _read_cached_report makes of arbitrary bytes) enters as the contract ByteContract, proved for the JSON model in C08 and checked at every byte offset in C10.",
  design="6/C09", technique="Lean 4 proof (inductive invariant over all operation histories) + history correspondence on the real CLI code"),
 "C10": dict(
  text="Kernel-checked theorems (Props/C10.lean) on the same model: for a missing, unreadable, ill-typed or foreign-version cache the scan completes, analyses everything, reports exactly the fresh result and leaves a usable honest cache; the same after any interleaving of faults, edits and scans; a truncated write (any prefix of the document) is harmless given the byte contract (round trip; proper prefixes are junk unless only whitespace is cut). Correspondence/fault enumeration on the real code: truncation at every byte offset, every key removed at every level, every value replaced by values of other JSON types, junk texts, cache directory without file/markers, random fault/edit/scan histories.",
  note="The byte contract is a hypothesis of truncated_write_harmless (C08 proves the round trip for the JSON model; prefix-junk is checked exhaustively by this run). Marker files are observed only.",
  design="6/C10", technique="Lean 4 proof (fault operations preserve the cache invariant) + exhaustive fault enumeration on the real code"),
 "C08": dict(
  text="Kernel-checked theorems (Props/C08.lean) about a character-exact model of ReportWriter (pretty and compact), json.dumps string escaping, a total pushdown model of json.loads on the emitted subset, and ReportReader: for every report whose strings contain no adjacent (high, low) surrogate pair, both forms parse to the same value (valid_json), reading back restores version/uuid/root/repository/files in order with checksum, language, loc and measurements and rebuilds totals and tree (read_back, round_trip), re-writing reproduces the document up to the timestamp (rewrite_stable), and NO proper prefix of an emitted document parses unless only trailing whitespace is cut (no_proper_prefix_parses - the byte contract of C10). Correspondence: the real writer character by character, json.loads vs the model parser incl. truncations and mutations, the real reader incl. structural faults.",
  note="`arbitrary Unicode strings` is read as: no adjacent lone high+low surrogate pair (json joins them; kernel-checked counterexample surrogate_pair_not_preserved; unreachable from file names or decoded text). The Codebase construction is an abstract deterministic parameter `build` here (proved in C07).",
  design="6/C08", technique="Lean 4 proof over writer/parser/reader models + character-level correspondence"),
 "C11": dict(
  text="Kernel-checked theorems (Props/C11.lean) about a model of scan_path over inductive directory trees with the external libraries as oracle parameters (excluded = pathspec on built-in + configured + .gitignore patterns, langOf = Pygments lexer lookup): the scanned key set is exactly the files with no hidden component, not excluded, of a supported language, each exactly once with language and checksum; analyse is applied only to those; files outside the set are irrelevant; listing order is irrelevant. The 26 built-in exclusions and the three exclusion sources are regenerated from the source (Gen/Excludes.lean) and pinned. Correspondence: real scan_path on random trees x exclusion sources (option, config file, .gitignore) x six root forms, with _analyze_file instrumented; direct oracle recomputed from the property text; twin tree with only the qualifying files.",
  note="Trusted: Lean kernel; harness; translator/excludes.py. pathspec and Pygments are oracle parameters answered by the real libraries per path.",
  design="6/C11", technique="Lean 4 proof over a tree-walk model with library oracles + correspondence on real directory trees"),
 "C12": dict(
  text="Kernel-checked theorems (Props/C12.lean) on the same model plus check_command/_handle_file_path/check_file: with the working directory at the root, for a relative file path, its parent directory, the root and an absolute directory, check lists exactly the functions longer than 30 (generated threshold) that scan measures for the file, longest first (stable), with the same decoding; excluded files are skipped however reached, hidden files when reached through a directory, every scanned file is checked (check_root_agrees_with_scan, scanned_file_checked_by_path/through_directory, excluded_file_skipped, hidden_file_skipped_through_directory). Correspondence: real check_command output vs scan_path on random trees for every file and every way of reaching it.",
  note="Outside the property and recorded, not judged: absolute file arguments get no exclusion test; hidden components of the directory argument itself are not tested; directories outside the working directory get no exclusions.",
  design="6/C12", technique="Lean 4 proof relating the check and scan selection models + correspondence on real trees"),
 "C01": dict(
  text="End to end on program trees, from tokens onwards (DESIGN 6.1). Brace languages: for every program FOREST (leaf / brace group / function node with header, gap, body; any number, order and nesting depth) in a decidable tree-level canonical fragment (headers `Name (…)+` / `[function] Name (…)+` without call-shaped group, balanced parentheses, no header-shaped tokens before a non-function block; Java: throws gap, not after new/record), `scanFile L (render p)` returns exactly the tree report: each function node once, own name, span from the first header token to just past the closing brace, length = distinct lines of its own tokens (Props/C01full.lean: scan_of_rendered_canon_tree, scan_java_…, scan_js_…, scan_ts_…; built from Props/C01.lean layout -> report, Props/C01tree.lean tree -> layout, Props/C01syn.lean syntactic discovery for all token lists; every clause of the fragment has a kernel-checked witness that it is needed). Python: for every well-formed indentation tree `scanFile Gen.python (pyRender t) = pyTreeReport t` (Props/C01py.lean, C01pyfull.lean: logical lines incl. continuation, indentation blocks, decorators, async, multi-line headers). Text level: `analyze L (textOf p) (rawOf p)` = tree report, where rawOf p is the token stream the lexer is assumed to produce (Props/C01text.lean). The shipped patterns are pinned by rfl against the regenerated Gen/Languages.lean. Tie: real analysis = Lean model = per-token expectation on programs of all 7 languages (sweep 1..75), and real analysis = TREE report computed by the model driver on random forests whose hypotheses the driver decides and whose tokens are compared with the real lexer's.",
  note="Not proved: that the Pygments lexers produce rawOf p for textOf p (compared on every generated forest); assigned arrow functions as function nodes, and comments / suppression markers at tree level (covered by the evaluated discovery flag resp. by the token-level theorems of C04/C17). `_partial` names mark the restriction no_adjacent (a block directly after a function body is merged: adjacent_block_is_merged). Known findings KF1 (call-shaped group in a parameter list hides the function, excluded from the fragment) and KF3 (TypeScript ':' follow-up vs conditional expressions).",
  design="6.1/C01", technique="Lean 4 proof (program tree -> tokens -> layout -> measurements, syntactic header discovery) + correspondence: Lean-forest stream with driver-evaluated hypotheses and per-token expectations"),
}

NA_REASON = "check under construction in this round (see DESIGN.md section 6); not yet claimed"


def main():
    checks = []
    for pid in ALL:
        if pid not in CLAIMS:
            continue
        c = CLAIMS[pid]
        checks.append({
            "property_id": pid,
            "quick_cmd": "./check %s quick" % pid,
            "thorough_cmd": "./check %s thorough" % pid,
            "evidence_file": "evidence/%s.json" % pid,
            "replay_cmd_template": "./check replay {path}",
            "engine": "lean4-model-proof",
            "level_claimed": {"category": "proof", "text": c["text"], "design_ref": c["design"]},
            "level_note": c["note"],
            "technique": c["technique"],
        })
    m = {
        "version": 1,
        "setup_cmd": "cd lean && lake build cldriver && (lake build CodeLimit || true)",
        "hooks": {
            "guard": "CODELIMIT_VERIF",
            "enable": "no source hooks are needed: the harness wraps codelimit functions from outside (monkeypatching in its own process); checks export CODELIMIT_VERIF=1 in their own environment only",
            "baseline_off_cmd": "cd /repo && /venv/bin/python -m pytest -ra -q -p no:cacheprovider --timeout=900 --continue-on-collection-errors",
            "source_commits": [],
            "add_only": True,
        },
        "engines": [{"name": "lean4-model-proof", "path": "lean/ harness/ translator/",
                     "serves_properties": sorted(CLAIMS),
                     "kind_free_text": "Lean 4 theorems about executable models; models tied to /repo by a regenerating translator (Gen/*.lean) and by a differential correspondence check through a native line-protocol driver"}],
        "checks": checks,
        "not_applicable": [{"property_id": p, "reason": NA_REASON} for p in ALL if p not in CLAIMS],
        "notes": "Every check: regenerate Gen/*.lean from /repo -> lake build Props/<id> -> #print axioms audit + banned-construct grep -> correspondence (model driver vs real code) -> on any break, failing-input search with a direct oracle. See DESIGN.md.",
    }
    json.dump(m, open("MANIFEST.json", "w"), indent=1)
    print("MANIFEST.json: %d checks, %d not claimed" % (len(checks), len(m["not_applicable"])))


if __name__ == "__main__":
    main()
