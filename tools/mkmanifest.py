#!/usr/bin/env python3
"""(Re)generate MANIFEST.json from the table below. Run from /verif."""
import json

ALL = ["C%02d" % i for i in range(1, 20)]

CLAIMS = {
 "C13": dict(
  text="Kernel-checked theorems (Props/C13.lean) over the executable model of the whole engine (Thompson construction with integer ids and Concat-by-aliasing, worklist epsilon-closure, worklist subset construction with the start-object quirk, Pattern.consume, match/starts_with/nfa_match): for every pattern, word, id base and set-iteration order, match <-> membership in the regular language, starts_with = shortest non-empty matching prefix, nfa_match agrees, and building terminates (fuel bounds proved sufficient). The model is tied to /repo by differential testing on every run (exhaustive small space + random); a broken proof/tie triggers a failing-input search on the real code with an independent derivative-based oracle.",
  note="Trusted: Lean kernel (+leanchecker in thorough), axioms propext/Classical.choice/Quot.sound, the correspondence harness and its generator. Modelled not verified: Python set iteration (parameter ord), object identity of State (ids).",
  design="6/C13", technique="Lean 4 proof over executable model + differential correspondence"),
 "C14": dict(
  text="Kernel-checked theorems (Props/C14.lean) about the model of matcher.find_all over an arbitrary deterministic machine: bounds, recorded items = spanned items, accepting and longest run, position order and disjointness including the end-of-input loop, completeness up to pre-emption (completeness_partial) and a kernel-checked counterexample to full completeness (known finding KF1). Tie: differential testing of find_all on Identity atoms (exhaustive non-nullable ASTs x sequences) and on the header shapes with real token predicates (exhaustive token sequences).",
  note="Trusted as C13. Completeness is proved only in the partial form; the full clause is false of the code (KF1, required by pinned tests).",
  design="6/C14", technique="Lean 4 proof (invariant over the find_all loop) + differential correspondence"),
}

NA_REASON = "check under construction in this round (see DESIGN.md section 6); not yet claimed"


def main():
    checks = []
    for pid in ALL:
        if pid not in CLAIMS:
            continue
        c = CLAIMS[pid]
        checks.append({
            "property_id": pid,
            "quick_cmd": "./check %s quick" % pid,
            "thorough_cmd": "./check %s thorough" % pid,
            "evidence_file": "evidence/%s.json" % pid,
            "replay_cmd_template": "./check replay {path}",
            "engine": "lean4-model-proof",
            "level_claimed": {"category": "proof", "text": c["text"], "design_ref": c["design"]},
            "level_note": c["note"],
            "technique": c["technique"],
        })
    m = {
        "version": 1,
        "setup_cmd": "cd lean && lake build CodeLimit cldriver",
        "hooks": {
            "guard": "CODELIMIT_VERIF",
            "enable": "no source hooks are needed: the harness wraps codelimit functions from outside (monkeypatching in its own process); checks export CODELIMIT_VERIF=1 in their own environment only",
            "baseline_off_cmd": "cd /repo && /venv/bin/python -m pytest -ra -q -p no:cacheprovider --timeout=900 --continue-on-collection-errors",
            "source_commits": [],
            "add_only": True,
        },
        "engines": [{"name": "lean4-model-proof", "path": "lean/ harness/ translator/",
                     "serves_properties": sorted(CLAIMS),
                     "kind_free_text": "Lean 4 theorems about executable models; models tied to /repo by a regenerating translator (Gen/*.lean) and by a differential correspondence check through a native line-protocol driver"}],
        "checks": checks,
        "not_applicable": [{"property_id": p, "reason": NA_REASON} for p in ALL if p not in CLAIMS],
        "notes": "Every check: regenerate Gen/*.lean from /repo -> lake build Props/<id> -> #print axioms audit + banned-construct grep -> correspondence (model driver vs real code) -> on any break, failing-input search with a direct oracle. See DESIGN.md.",
    }
    json.dump(m, open("MANIFEST.json", "w"), indent=1)
    print("MANIFEST.json: %d checks, %d not claimed" % (len(checks), len(m["not_applicable"])))


if __name__ == "__main__":
    main()
