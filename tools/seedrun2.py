#!/usr/bin/env python3
"""Validate a seeded change and run the checks against it WITHOUT touching /repo or /verif.

usage: tools/seedrun2.py <Cxx> <k> [extra check ids...]
  reads /tmp/seeded/<Cxx>/out/patch<k>.diff, demo<k>.py, meta<k>.json (written by a sub-agent)
  uses  /tmp/seeded/<Cxx>/wt   (a scratch git worktree of /repo, clean)
        /tmp/seedv/<Cxx>       (a private copy of /verif incl. its Lean build output)

The patch is applied to the scratch worktree, the pinned suite and the demonstration run with
PYTHONPATH=<worktree>, and the check runs from the private copy with VERIF_REPO=<worktree> (the
harness, translators and CLI subprocesses all honour VERIF_REPO), so several seeded changes can be
run in parallel and /repo stays untouched. Same record format as tools/seedrun.py; stored under
/verif/seeded/<Cxx>-<k>/."""
import json
import os
import shutil
import subprocess
import sys
import time

VERIF = os.path.dirname(os.path.dirname(os.path.abspath(__file__)))
PY = "/venv/bin/python"


def sh(cmd, cwd=None, env=None, timeout=3600):
    p = subprocess.run(cmd, shell=True, cwd=cwd, env=env, capture_output=True, text=True, timeout=timeout)
    return p.returncode, (p.stdout + p.stderr)


def main():
    pid, k = sys.argv[1], sys.argv[2]
    extra = sys.argv[3:]
    src = "/tmp/seeded/%s/out" % pid
    wt = os.environ.get("SEEDRUN_WT", "/tmp/seeded/%s/wt" % pid)
    vcopy = os.environ.get("SEEDRUN_VCOPY", "/tmp/seedv/%s" % pid)
    patch = os.path.join(src, "patch%s.diff" % k)
    demo = os.path.join(src, "demo%s.py" % k)
    meta = {}
    try:
        meta = json.load(open(os.path.join(src, "meta%s.json" % k)))
    except Exception:
        pass
    rc, out = sh("git status --porcelain", wt)
    if out.strip():
        print("refusing: worktree is not clean:\n" + out); return 2
    # the scratch worktree follows /repo's HEAD (fix: commits land there while seeded changes are being evaluated)
    head = sh("git -C /repo rev-parse HEAD")[1].strip()
    sh("git checkout -q --detach %s" % head, wt)
    os.makedirs("/tmp/seedv", exist_ok=True)
    sh("rsync -a --delete --exclude .git --exclude replays --exclude seeded %s/ %s/" % (VERIF, vcopy))
    os.makedirs(os.path.join(vcopy, "replays"), exist_ok=True)
    res = {"property": pid, "k": k, "ran_at": time.strftime("%Y-%m-%d %H:%M:%S"), "repo_commit": head[:7],
           "verif_commit": sh("git rev-parse --short HEAD", VERIF)[1].strip(),
           "verif_dirty": bool(sh("git status --porcelain -- harness translator lean tools check", VERIF)[1].strip())}
    env = dict(os.environ, PYTHONPATH=wt)
    try:
        rc, out = sh("git apply --check %s && git apply %s" % (patch, patch), wt)
        if rc != 0:
            # the patch was written against an earlier HEAD (fix: commits have landed since): three-way merge
            rc, out = sh("git apply --3way %s && git reset -q" % patch, wt)
            res["applied_3way"] = rc == 0
        res["applies"] = rc == 0
        if rc != 0:
            sh("git reset -q --hard && git clean -fdq codelimit", wt)
            print("patch does not apply:", out); return 1
        rc, out = sh("%s -m pytest -q -p no:cacheprovider --timeout=900 2>&1 | tail -3" % PY, wt, env)
        res["tests_pass_with_change"] = "157 passed" in out and "failed" not in out
        res["tests_tail"] = out.strip().splitlines()[-1:]
        rc, out = sh("%s %s" % (PY, demo), "/tmp", env, 900)
        res["demo_fails_with_change"] = rc != 0
        res["demo_with_change"] = out.strip()[-400:]
        checks = {}
        cenv = dict(os.environ, VERIF_REPO=wt)
        cenv.pop("PYTHONPATH", None)
        for cid in [pid] + extra:
            t0 = time.time()
            rc, out = sh("./check %s quick" % cid, vcopy, cenv, 3600)
            lines = [l for l in out.splitlines() if l.startswith("VIOLATION") or l.startswith("KNOWN-FINDING") or "->" in l]
            checks[cid] = {"exit": rc, "lines": [l[:200] for l in lines][-6:], "wall_s": round(time.time() - t0, 1)}
            if rc not in (0, 1):
                checks[cid]["tail"] = out[-1500:]
            # keep the first replay for the record
            for l in lines:
                if l.startswith("VIOLATION") and "replay=" in l:
                    rp = l.split("replay=")[1].split()[0]
                    try:
                        checks[cid]["first_replay"] = json.load(open(os.path.join(vcopy, rp)))
                        s = json.dumps(checks[cid]["first_replay"], default=str)
                        if len(s) > 3000:
                            checks[cid]["first_replay"] = s[:3000]
                    except Exception:
                        pass
                    break
        res["checks"] = checks
    finally:
        sh("git checkout -- . && git clean -fdq codelimit", wt)
    rc, out = sh("%s %s" % (PY, demo), "/tmp", env, 900)
    res["demo_passes_without_change"] = rc == 0
    rc, out = sh("git status --porcelain", wt)
    res["worktree_restored"] = not out.strip()
    dst = os.path.join(VERIF, "seeded", "%s-%s" % (pid, k))
    os.makedirs(dst, exist_ok=True)
    shutil.copy(patch, os.path.join(dst, "patch.diff"))
    shutil.copy(demo, os.path.join(dst, "demo.py"))
    meta.update({"breaks_property": pid, "validation": res,
                 "what_was_run": ["git apply patch.diff in a scratch worktree of /repo", "pytest (pinned suite) with PYTHONPATH=<worktree>",
                                  "demo.py with and without the change",
                                  "VERIF_REPO=<worktree> ./check %s quick from a private copy of /verif" % " / ".join([pid] + extra),
                                  "git checkout -- . in the worktree"]})
    try:
        prev = json.load(open(os.path.join(dst, "meta.json")))
        if prev.get("history") and not meta.get("history"):
            meta["history"] = prev["history"]          # notes of earlier rounds (what was strengthened) survive a re-run
    except Exception:
        pass
    try:
        fp = json.load(open(os.path.join(VERIF, "seeded", "first_pass.json"))).get("%s-%s" % (pid, k))
        if fp:
            meta["history"] = "round %s, first pass (before the streams were strengthened for this round): %s" % (fp["round"], fp["first_pass"])
    except Exception:
        pass
    json.dump(meta, open(os.path.join(dst, "meta.json"), "w"), indent=1)
    caught = {c: v["exit"] == 1 and any(l.startswith("VIOLATION") for l in v["lines"]) for c, v in res.get("checks", {}).items()}
    print(json.dumps({"id": "%s-%s" % (pid, k),
                      "valid": bool(res.get("tests_pass_with_change") and res.get("demo_fails_with_change") and res.get("demo_passes_without_change")),
                      "caught": caught, "exit": {c: v["exit"] for c, v in res.get("checks", {}).items()},
                      "lines": {c: v["lines"][-2:] for c, v in res.get("checks", {}).items()},
                      "tests": res.get("tests_tail"), "demo": res.get("demo_with_change", "")[-150:]}, indent=1))
    return 0


if __name__ == "__main__":
    sys.exit(main())
