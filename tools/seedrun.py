#!/usr/bin/env python3
"""Validate a seeded change and run the checks against it.
usage: tools/seedrun.py <Cxx> <k> [extra check ids...]   (reads /tmp/seeded/<Cxx>/out/patch<k>.diff, demo<k>.py, meta<k>.json)
Applies the patch to /repo, runs the pinned test-suite and the demonstration, runs ./check <Cxx> quick
(and the extra ids), ALWAYS restores /repo, confirms the demonstration passes on the clean tree, and
stores everything under /verif/seeded/<Cxx>-<k>/."""
import json
import os
import shutil
import subprocess
import sys
import time

VERIF = os.path.dirname(os.path.dirname(os.path.abspath(__file__)))
REPO = "/repo"
PY = "/venv/bin/python"


def sh(cmd, cwd=None, env=None, timeout=3600):
    p = subprocess.run(cmd, shell=True, cwd=cwd, env=env, capture_output=True, text=True, timeout=timeout)
    return p.returncode, (p.stdout + p.stderr)


def main():
    pid, k = sys.argv[1], sys.argv[2]
    extra = sys.argv[3:]
    src = "/tmp/seeded/%s/out" % pid
    patch = os.path.join(src, "patch%s.diff" % k)
    demo = os.path.join(src, "demo%s.py" % k)
    meta = {}
    try:
        meta = json.load(open(os.path.join(src, "meta%s.json" % k)))
    except Exception:
        pass
    rc, out = sh("git status --porcelain", REPO)
    if out.strip():
        print("refusing: /repo is not clean:\n" + out); return 2
    res = {"property": pid, "k": k, "ran_at": time.strftime("%Y-%m-%d %H:%M:%S")}
    env = dict(os.environ, PYTHONPATH=REPO)
    try:
        rc, out = sh("git apply --check %s && git apply %s" % (patch, patch), REPO)
        res["applies"] = rc == 0
        if rc != 0:
            print("patch does not apply:", out); return 1
        rc, out = sh("%s -m pytest -q -p no:cacheprovider --timeout=900 2>&1 | tail -3" % PY, REPO, env)
        res["tests_pass_with_change"] = "157 passed" in out and "failed" not in out
        res["tests_tail"] = out.strip().splitlines()[-1:]
        rc, out = sh("%s %s" % (PY, demo), "/tmp", env, 900)
        res["demo_fails_with_change"] = rc != 0
        res["demo_with_change"] = out.strip()[-400:]
        checks = {}
        for cid in [pid] + extra:
            t0 = time.time()
            rc, out = sh("./check %s quick" % cid, VERIF, None, 3600)
            lines = [l for l in out.splitlines() if l.startswith("VIOLATION") or l.startswith("KNOWN-FINDING") or "->" in l]
            checks[cid] = {"exit": rc, "lines": [l[:200] for l in lines][-6:], "wall_s": round(time.time() - t0, 1)}
            # keep one replay for the record
        res["checks"] = checks
    finally:
        sh("git checkout -- . && git clean -fdq codelimit", REPO)
    rc, out = sh("%s %s" % (PY, demo), "/tmp", env, 900)
    res["demo_passes_without_change"] = rc == 0
    rc, out = sh("git status --porcelain", REPO)
    res["repo_restored"] = not out.strip()
    sh("%s tools/regen.py" % PY, VERIF)   # bring the generated Lean files back to the clean tree's
    dst = os.path.join(VERIF, "seeded", "%s-%s" % (pid, k))
    os.makedirs(dst, exist_ok=True)
    shutil.copy(patch, os.path.join(dst, "patch.diff"))
    shutil.copy(demo, os.path.join(dst, "demo.py"))
    meta.update({"breaks_property": pid, "validation": res,
                 "what_was_run": ["git -C /repo apply patch.diff", "pytest (pinned suite)", "demo.py with and without the change",
                                  "./check %s quick" % " / ".join([pid] + extra), "git -C /repo checkout -- ."]})
    json.dump(meta, open(os.path.join(dst, "meta.json"), "w"), indent=1)
    caught = {c: v["exit"] == 1 and any(l.startswith("VIOLATION") for l in v["lines"]) for c, v in res.get("checks", {}).items()}
    print(json.dumps({"valid": bool(res.get("tests_pass_with_change") and res.get("demo_fails_with_change") and res.get("demo_passes_without_change")),
                      "caught": caught, "tests": res.get("tests_tail"), "demo": res.get("demo_with_change", "")[-150:]}, indent=1))
    # restore generated files to the clean tree's
    return 0


if __name__ == "__main__":
    sys.exit(main())
