#!/venv/bin/python
"""Regenerate every lean/CodeLimit/Gen/*.lean from /repo's current working tree."""
import os
import sys

VERIF = os.path.dirname(os.path.dirname(os.path.abspath(__file__)))
sys.path.insert(0, os.path.join(VERIF, "harness"))
sys.path.insert(0, os.path.join(VERIF, "translator"))
import common  # noqa
import logic
import patterns

gen = os.path.join(common.LEAN, "CodeLimit", "Gen")
print("Logic", common.write_if_changed(os.path.join(gen, "Logic.lean"), logic.translate(common.REPO)))
print("Languages", common.write_if_changed(os.path.join(gen, "Languages.lean"), patterns.lean_module(patterns.extract(common.REPO))))
try:
    import excludes
    fn = getattr(excludes, "lean_module", None) or getattr(excludes, "translate", None)
    print("Excludes", common.write_if_changed(os.path.join(gen, "Excludes.lean"), fn(common.REPO)))
except Exception as e:  # noqa
    print("Excludes: skipped (%r)" % (e,))
