-- Root of the `CodeLimit` library: models, generated parts, lemmas and property theorems.
import CodeLimit.Model.Basic
import CodeLimit.Model.Regex
import CodeLimit.Model.Pattern
import CodeLimit.Model.Token
import CodeLimit.Model.Lex
import CodeLimit.Model.Scopes
import CodeLimit.Spec.Regex
import CodeLimit.Spec.FindAll
import CodeLimit.Lemmas.NfaWF
import CodeLimit.Lemmas.Closure
import CodeLimit.Props.C13
