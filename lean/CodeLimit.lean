-- Root of the `CodeLimit` library: models, generated parts, lemmas and property theorems.
import CodeLimit.Model.Basic
import CodeLimit.Model.Regex
import CodeLimit.Model.Pattern
import CodeLimit.Spec.Regex
import CodeLimit.Props.C13
