import CodeLimit.Model.CacheDoc
import CodeLimit.Model.ReportOps
import CodeLimit.Model.Codebase
import CodeLimit.Model.CheckPrint
import CodeLimit.Model.Decode
import CodeLimit.Model.CacheBytes
/-!
# Driver operations for the gap models (`Model/CacheDoc.lean`, `Model/CheckPrint.lean`, `Model/Decode.lean`)

Words as in `Model/ReportOps.lean`: `<str>` = `<len> <codepoint>*`, `<opt>` = `0` | `1 <str>`,
`<json>` = canonical dump of a parsed value.

* `g.rversion <str cur> <opt text>`  -> what `utils.read_report` does up to the version test:
     `noreport` | `raise json|key|type` | `mismatch` | `match`
* `g.readreport <str cur> <opt text>` -> `noreport` | `mismatch` | `raise json|key|type` |
     `shown <ureport>`
* `g.readcached <str cur> <opt text>` -> `none` | `ok <ureport>`     (`_read_cached_report`)
* `g.wellformed <str text>` -> `noparse` | `raise key|type` | `ok <0|1>` (`_is_well_formed` of what `from_json` returns)
* `g.abstract <str cur> <opt text>` -> `m` | `ju` | `ji` | `d <opt version> <n> (<str path> <str checksum> <str language> <int loc> <n> (<str unit> <int>*5)*)*`
     followed by ` | <0|1>`: `Cache.readCachedReport` of that abstract file is `some`

`<ureport>` = `<json version> <json uuid> <json root> (0 | 1 <json owner> <json name> <json branch> <json tag>)`
  `<n> (<str path> <json checksum> <json language> <json loc> <n> (<json unit> <json sl> <json sc> <json el> <json ec> <json value>)*)*`

* `g.checkprint <0|1 quiet> <path cwd> <n> (<0|1 abs> <path> <n> (<str name> <sl> <sc> <len>)*)*`
     -> `ok <exit> <n> <str line>*`: `check_file`'s risk selection (`Sel.risksOf`) on the measurements of every
     file, then `Print.checkOutput`; `<path>` = `<n> <str component>*`
* `g.printedpath <path cwd> <0|1 abs> <path>` -> `ok <str>` (`Print.printedPathStr`)

* `g.readfile <n> <byte>*` -> `ok <0|1 valid UTF-8> <str text> <0|1>`: `Decode.readFile`; the last flag says
     whether `Decode.utf8Decode` agrees with Lean core's `String.fromUTF8?` on these bytes

* `g.cachebytes <str cur> <0 | 1 <n> <byte>*>` -> `<abstract class m|ju|ji|d> <0|1 reusable> <readreport head>`:
     `abstractCacheBytes`, `readCachedBytes`, `readReportBytes` on the BYTES of the file

`buildOk` is instantiated with the codebase model: `Codebase.build` on the paths succeeds.
-/
namespace CL.Gaps.Ops

open CL.Json CL.Json.Ops

/-- `add_file*; aggregate` raises no `KeyError` / `RecursionError` for these paths -/
abbrev buildOkImpl := buildOkModel

def showUMeas (m : UMeas) : String :=
  String.intercalate " " [showJson m.unitName, showJson m.sl, showJson m.sc, showJson m.el, showJson m.ec, showJson m.value]

def showUReport (r : UReport) : String :=
  String.intercalate " " [showJson r.version, showJson r.uuid, showJson r.root,
    (match r.repository with
     | none => "0"
     | some p => String.intercalate " " ["1", showJson p.owner, showJson p.name, showJson p.branch, showJson p.tag]),
    showMany (fun (kv : Str × UFile) => String.intercalate " " [showStr kv.1, showJson kv.2.checksum, showJson kv.2.language,
      showJson kv.2.loc, showMany showUMeas kv.2.measurements]) r.files]

def showReadErr : ReadErr → String
  | .json => "raise json"
  | .key => "raise key"
  | .type => "raise type"

def showRow (r : Str × Str × CEntry) : String :=
  String.intercalate " " [showStr r.1, showStr r.2.1, showStr r.2.2.1, toString r.2.2.2.1,
    showMany (fun (m : Meas) => String.intercalate " " [showStr m.unitName, toString m.sl, toString m.sc, toString m.el,
      toString m.ec, toString m.value]) r.2.2.2.2]

def handleGaps12 (cmd : String) (args : List String) : Option String :=
  let run {α} (p : P α) : α := (p.run args).1
  match cmd with
  | "g.rversion" => some <| run do
      let cur ← pStr
      let file ← pOpt
      match file with
      | none => return "noreport"
      | some text =>
        match parseJson text with
        | none => return "raise json"
        | some d =>
          match getReportVersion d with
          | .error e => return showReadErr (.ofRErr e)
          | .ok v => return (if versionOptIs cur v then "match" else "mismatch")
  | "g.readreport" => some <| run do
      let cur ← pStr
      let file ← pOpt
      match readReportDoc cur buildOkImpl file with
      | .noReport => return "noreport"
      | .mismatch => return "mismatch"
      | .raises e => return showReadErr e
      | .shown r => return "shown " ++ showUReport r
  | "g.readcached" => some <| run do
      let cur ← pStr
      let file ← pOpt
      match readCachedDoc cur buildOkImpl file with
      | none => return "none"
      | some r => return "ok " ++ showUReport r
  | "g.wellformed" => some <| run do
      match parseJson (← pStr) with
      | none => return "noparse"
      | some d =>
        match fromJsonU buildOkImpl d with
        | .error e => return showReadErr (.ofRErr e)
        | .ok r => return (if r.wellFormed then "ok 1" else "ok 0")
  | "g.abstract" => some <| run do
      let cur ← pStr
      let file ← pOpt
      let a := abstractCache buildOkImpl file
      let usable := if (Cache.readCachedReport (readParams cur) a).isSome then " | 1" else " | 0"
      match a with
      | .missing => return "m" ++ usable
      | .junk .unreadable => return "ju" ++ usable
      | .junk .illTyped => return "ji" ++ usable
      | .doc v rows => return "d " ++ showOpt v ++ " " ++ showMany showRow rows ++ usable
  | _ => none

def pPath : P (List Str) := many pStr

def handleGaps3 (cmd : String) (args : List String) : Option String :=
  let run {α} (p : P α) : α := (p.run args).1
  match cmd with
  | "g.checkprint" => some <| run do
      let quiet ← nextNat
      let cwd ← pPath
      let files ← many (do
        let abs ← nextNat
        let comps ← pPath
        let ms ← many (do
          let name ← pStr
          let sl ← nextNat; let sc ← nextNat; let len ← nextNat
          return (⟨name, sl, sc, sl, sc, len⟩ : Measurement))
        return ((⟨abs == 1, comps⟩ : Sel.CPath), Sel.risksOf ms))
      let o := Print.checkOutput (quiet == 1) cwd files
      return s!"ok {o.exitCode} " ++ showMany showStr o.lines
  | "g.printedpath" => some <| run do
      let cwd ← pPath
      let abs ← nextNat
      let comps ← pPath
      return "ok " ++ showStr (Print.printedPathStr cwd ⟨abs == 1, comps⟩)
  | _ => none

def handleGaps4 (cmd : String) (args : List String) : Option String :=
  let run {α} (p : P α) : α := (p.run args).1
  match cmd with
  | "g.cachebytes" => some <| run do
      let cur ← pStr
      let file ← (do if (← nextNat) == 1 then return some ((← many nextNat).map (· % 256)) else return none)
      let a := match abstractCacheBytes buildOkImpl file with
        | .missing => "m" | .junk .unreadable => "ju" | .junk .illTyped => "ji" | .doc _ _ => "d"
      let r := if (readCachedBytes cur buildOkImpl file).isSome then "1" else "0"
      let rr := match readReportBytes cur buildOkImpl file with
        | .noReport => "noreport" | .mismatch => "mismatch" | .raises e => showReadErr e | .shown _ => "shown"
      return s!"{a} {r} {rr}"
  | "g.readfile" => some <| run do
      let bs ← many nextNat
      let bs := bs.map (· % 256)
      let mine := Decode.utf8Decode bs
      let core := (String.fromUTF8? (ByteArray.mk (bs.map UInt8.ofNat).toArray)).map fun s => s.toList.map Char.toNat
      let agree := decide (mine = core)
      return s!"ok {if mine.isSome then 1 else 0} " ++ showStr (Decode.readFile bs) ++ (if agree then " 1" else " 0")
  | _ => none

def handleGaps (cmd : String) (args : List String) : Option String :=
  [handleGaps12, handleGaps3, handleGaps4].findSome? (fun h => h cmd args)

end CL.Gaps.Ops
