import CodeLimit.Model.Select
/-!
# `Scanner.scan_path(path, cached_report)`: the directory walk WITH the cache

`Model/Select.lean` models `scan_path(path)` with `cached_report = None`; `Model/Cache.lean` models
the cache over a flat list of files and an abstract walk.  The Python code is one function:
`scan_path(path, cached_report)` walks the directory exactly as in `Model/Select.lean` and calls
`_scan_file(codebase, lexer, root, path, cached_report)` for every selected file
(`codelimit/common/Scanner.py`, lines 85-112):

```
checksum = calculate_checksum(path)
rel_path = relpath(path, root)
cached_entry = None
if cached_report:
    try: cached_entry = cached_report.codebase.files[rel_path]
    except KeyError: pass
if cached_entry and cached_entry.checksum() == checksum:
    entry = SourceFileEntry(rel_path, checksum, cached_entry.language, cached_entry.loc,
                            cached_entry.measurements())
else:
    entry = _analyze_file(path, rel_path, checksum, lexer)
codebase.add_file(entry)
```

This file is that function on the types of `Model/Select.lean`.  The cached report is
`Option CachedFiles`: `none` is `cached_report = None` (no cache file, an unreadable or ill-typed
one, another version: `commands/scan.py:_read_cached_report`), `some files` is a report object whose
`codebase.files` is the insertion-ordered `dict` `files` (key: the relative path STRING, value: a
`SourceFileEntry`).  A `Report` and a `SourceFileEntry` define neither `__bool__` nor `__len__`, so
`if cached_report` / `cached_entry and …` test for `None` only.

The key of the lookup is the printed relative path; nothing else of the cached report is read.
The reused entry keeps the language, line total and measurements OF THE CACHED ENTRY (whatever
lexer the file name selects now); its path and checksum are the current ones.

The walk, the selection and the instrumentation (`analysed`: the `rel_path` of every call of
`_analyze_file`, in call order) are those of `Model/Select.lean`.
-/
namespace CL.Sel

/-- `d[k]` on an insertion-ordered `dict`; `none` is `KeyError` -/
def dictGet {β : Type} (d : List (Str × β)) (k : Str) : Option β :=
  (d.find? (fun kv => kv.1 == k)).map (·.2)

/-- `cached_report.codebase.files` -/
abbrev CachedFiles := List (Str × FileEntry)

/-- the entry `_scan_file` takes from the cache for the file with relative path `relPath` and
checksum `checksum`, if any: `cached_report` is not `None`, `codebase.files[rel_path]` exists
(`KeyError` -> `None`), and `cached_entry.checksum() == checksum` -/
def cacheHit (cached : Option CachedFiles) (relPath checksum : Str) : Option FileEntry :=
  let cachedEntry : Option FileEntry :=
    match cached with
    | some files => dictGet files relPath
    | none => none
  match cachedEntry with
  | some ce => if ce.checksum = checksum then some ce else none
  | none => none

/-- `SourceFileEntry(rel_path, checksum, cached_entry.language, cached_entry.loc,
cached_entry.measurements())` -/
def reuseEntry (relPath checksum : Str) (ce : FileEntry) : FileEntry :=
  ⟨relPath, checksum, ce.lang, ce.loc, ce.ms⟩

/-- `_scan_file(result, lexer, path, file_path, cached_report)` -/
def scanFileC (O : Oracles) (cached : Option CachedFiles) (rel : List Str) (lang : Nat) (content : Str)
    (st : ScanSt) : ScanSt × Option Err :=
  let checksum := O.checksum content
  let relPath := joinPath rel
  match cacheHit cached relPath checksum with
  | some ce =>
    let entry := reuseEntry relPath checksum ce
    ({ st with files := dictSet st.files entry.path entry }, none)
  | none =>
    let st := { st with analysed := st.analysed ++ [relPath] }
    match analyzeFile O relPath checksum lang content with
    | .error e => (st, some e)
    | .ok entry => ({ st with files := dictSet st.files entry.path entry }, none)

/-- body of `for file in files:` in `scan_path` -/
def scanBodyC (O : Oracles) (cached : Option CachedFiles) (pre : List Str) (f : Str × Str) (st : ScanSt) :
    ScanSt × Option Err :=
  let rel := pre ++ [f.1]
  if O.excluded rel then (st, none)          -- `continue`
  else
    match O.langOf f.1 with
    | none => (st, none)                      -- `ClassNotFound`, or the lexer is not a supported language
    | some lang => scanFileC O cached rel lang f.2 st

/-- body of `for root, dirs, files in os.walk(path.absolute()):` -/
def scanDirBodyC (O : Oracles) (cached : Option CachedFiles) (step : List Str × List (Str × Str))
    (st : ScanSt) : ScanSt × Option Err :=
  let files := step.2.filter (fun f => !isHidden f.1)
  forE (scanBodyC O cached step.1) files st

/-- **`scan_path(path, cached_report)`** on the directory `root` -/
def scanPathCached (O : Oracles) (cached : Option CachedFiles) (root : Node) : ScanOut :=
  match root with
  | .file _ _ => ⟨[], .ok []⟩
  | .dir _ ch =>
    match forE (scanDirBodyC O cached) (walkTop (fun d => !isHidden d) [] ch) ⟨[], []⟩ with
    | (st, none) => ⟨st.analysed, .ok st.files⟩
    | (st, some e) => ⟨st.analysed, .error e⟩

end CL.Sel
