/-!
# Basic definitions shared by all models (import-free)

Python exceptions that the modelled code can raise are an explicit error enum; every
model function that can raise returns `Except Err`.
-/
namespace CL

/-- Python exceptions reachable in the modelled code. -/
inductive Err where
  | multipleTransitions   -- `ValueError("Multiple transitions found!")` in `Pattern.consume`
  | index                 -- `IndexError` (list index out of range)
  | stopIteration         -- `next()` on an exhausted generator (`get_headers`)
  | notFound              -- `list.index` of a missing element (`ValueError`)
  | emptyMinMax           -- `min([])` / `max([])`
  | fuel                  -- model ran out of fuel (never a Python behaviour; proved unreachable)
  | other
  deriving Repr, DecidableEq, Inhabited

def Err.code : Err → Nat
  | .multipleTransitions => 1
  | .index => 2
  | .stopIteration => 3
  | .notFound => 4
  | .emptyMinMax => 5
  | .fuel => 6
  | .other => 7

/-- `l[i]` as Python evaluates it for a non-negative index: `IndexError` when out of range. -/
def getE {α : Type} (l : List α) (i : Nat) : Except Err α :=
  match l[i]? with
  | some x => .ok x
  | none => .error .index

/-- `delete_indices(iterable, indices)` -/
def deleteIndices {α : Type} (l : List α) (idxs : List Nat) : List α :=
  (l.zipIdx).filterMap (fun (x, i) => if idxs.contains i then none else some x)

/-- number of distinct elements, `len(set(l))` -/
def countDistinct (l : List Nat) : Nat := l.eraseDups.length

end CL
