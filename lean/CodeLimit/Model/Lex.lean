import CodeLimit.Model.Token
/-!
# Model of `lexer_utils.lex`, `source_utils.get_newline_indices / location_to_index /
filter_tokens / filter_nocl_comment_tokens`

The Pygments lexer is a parameter: it supplies `RawTok`s `(offset, type, value)`.
-/
namespace CL

structure RawTok where
  off  : Nat
  kind : Nat
  ty   : Nat
  val  : Str
  deriving Repr, DecidableEq

/-- `get_newline_indices` -/
def newlineIndicesFrom : Nat → Str → List Nat
  | _, [] => []
  | i, c :: cs => if c = 10 then i :: newlineIndicesFrom (i + 1) cs else newlineIndicesFrom (i + 1) cs

def newlineIndices (code : Str) : List Nat := newlineIndicesFrom 0 code

/-- the `while newline_index < len(indices) and t[0] > indices[newline_index]` loop:
`rest` = the newline offsets not yet passed, `ln` = `newline_index`, `ls` = `line_start` -/
def advance : Nat → List Nat → Nat → Nat → List Nat × Nat × Nat
  | _, [], ln, ls => ([], ln, ls)
  | off, i :: rest, ln, ls => if off > i then advance off rest (ln + 1) (i + 1) else (i :: rest, ln, ls)

def lexLoop : List RawTok → List Nat → Nat → Nat → List Tok
  | [], _, _, _ => []
  | t :: ts, rest, ln, ls =>
    let r := advance t.off rest ln ls
    ⟨t.kind, t.ty, t.val, r.2.1 + 1, t.off - r.2.2 + 1⟩ :: lexLoop ts r.1 r.2.1 r.2.2

/-- positions assigned by `lex` to every raw token (before filtering) -/
def lexAll (code : Str) (raw : List RawTok) : List Tok :=
  let idx := newlineIndices code
  if idx.isEmpty then raw.map (fun t => ⟨t.kind, t.ty, t.val, 1, t.off + 1⟩)
  else lexLoop raw idx 0 0

/-- `filter_tokens(tokens, keep_whitespace=False, keep_comments=kc, keep_others=True)` -/
def filterTokens (kc : Bool) (toks : List Tok) : List Tok :=
  toks.filter (fun t => if t.isWhitespace then false else if t.isComment then kc else true)

/-- `lex(lexer, code, filter_comments)` -/
def lex (code : Str) (raw : List RawTok) (filterComments : Bool) : List Tok :=
  filterTokens (!filterComments) (lexAll code raw)

/-- `code.split("\n")` -/
def splitLines : Str → List Str
  | [] => [[]]
  | c :: cs =>
    match splitLines cs with
    | [] => [[c]]        -- unreachable: `splitLines` never returns `[]`
    | l :: ls => if c = 10 then [] :: l :: ls else (c :: l) :: ls

/-- `location_to_index(code, Location(line, col))` (raises `IndexError` past the last line) -/
def locationToIndex (code : Str) (line col : Nat) : Except Err Nat :=
  let ls := splitLines code
  let rec go : Nat → Nat → Except Err Nat
    | 0, acc => .ok acc
    | i + 1, acc => match go i acc with
      | .error e => .error e
      | .ok a => match ls[i]? with
        | some l => .ok (a + l.length + 1)
        | none => .error .index
  match go (line - 1) 0 with
  | .error e => .error e
  | .ok r => .ok (r + (col - 1))

/-! ## the suppression marker -/

def lowerAscii (c : Nat) : Nat := if 65 ≤ c ∧ c ≤ 90 then c + 32 else c

def stripLeft (s : Str) : Str := s.dropWhile isSpaceChar

def startsWithStr (s p : Str) : Bool := p.isPrefixOf s

/-- the predicate of `filter_nocl_comment_tokens` on the comment's text.
(`.strip()` also strips the right end, which cannot change whether the text starts with `nocl`
unless it is all blanks, in which case neither does.) -/
def isNoclText (v : Str) : Bool :=
  let value := v.map lowerAscii
  let value :=
    if startsWithStr value [35] || startsWithStr value [59] then stripLeft (value.drop 1)
    else if startsWithStr value [47, 47] || startsWithStr value [47, 42] then stripLeft (value.drop 2)
    else value
  startsWithStr value [110, 111, 99, 108]

def noclTokens (toks : List Tok) : List Tok :=
  toks.filter (fun t => t.isComment && isNoclText t.val)

end CL
