import CodeLimit.Model.Cache
/-!
# Driver operations for the cache model (`history`, `readreport`)

Concrete universe: paths, contents, checksums, entries and versions are natural numbers;
`hash = id`; `analyze p c` = Cantor pairing of `(p, c)` (injective); exclusions are a list of
excluded path ids; `selected e p` = `p` is neither excluded nor in the universe's list of
unsupported paths; the current version is 1.

Request `history <nunsup> <p>* <nfs> (<p> <c>)* <nexcl> <p>* <op>*` with operations
  `w p c` write | `d p` delete | `r a b` rename | `t p` touch | `x a b` swap | `e n p*` exclusions
  `cm` cache := missing | `cj k` cache := junk (0 unreadable, 1 ill-typed)
  `cd v n (p h e)*` cache := document | `k ws` truncate (ws = 1: only whitespace cut)
  `D` remove cache directory | `M` remove marker files | `s` scan
and three replacements computed from the state (each is a `replaceCache c`):
  `ca v p hm de`  the current document with version `v` and the rows of path `p` altered:
                  entry + `de`, checksum := `hm - 1` when `hm > 0`
  `cr p`          the current document without the rows of path `p`
  `co i`          the document written by the `i`-th scan of this history (no-op if none)
Reply `ok <nscans> {<nrows> (<p> <h> <e>)* <nreused> <p>* <nanalysed> <p>* <dir>}* <cache>`
with `<dir>` 0 absent / 1 present without markers / 2 present with markers and the final
`<cache>` = `0` missing | `1` unreadable | `2` ill-typed | `3 v n (p h e)*`.

Request `readreport <cache>` (same cache encoding as the reply) -> `0` no report | `1` refused |
`2` shown | `3` unspecified.
-/
namespace CL
namespace Cache

abbrev NState := State Nat Nat Nat Nat (List Nat) Nat
abbrev NOp := Op Nat Nat Nat Nat (List Nat) Nat
abbrev NCache := CacheFile Nat Nat Nat Nat

def pair (p c : Nat) : Nat := (p + c) * (p + c + 1) / 2 + c

def natParams (unsupported : List Nat) : Params Nat Nat Nat Nat (List Nat) Nat :=
  { analyze := pair, hash := id,
    selected := fun e p => !e.contains p && !unsupported.contains p, cur := 1 }

abbrev Q := StateM (List String)

def qWord : Q (Option String) := do
  match (← get) with
  | [] => pure none
  | w :: ws => set ws; pure (some w)

def qNat : Q Nat := do
  match (← qWord) with
  | some w => pure (w.toNat?.getD 0)
  | none => pure 0

def qNats : Q (List Nat) := do
  let n ← qNat
  let mut out := #[]
  for _ in [0:n] do
    out := out.push (← qNat)
  return out.toList

def qRows : Q (List (Nat × Nat × Nat)) := do
  let n ← qNat
  let mut out := #[]
  for _ in [0:n] do
    let p ← qNat; let h ← qNat; let e ← qNat
    out := out.push (p, h, e)
  return out.toList

def qPairs : Q (List (Nat × Nat)) := do
  let n ← qNat
  let mut out := #[]
  for _ in [0:n] do
    let p ← qNat; let c ← qNat
    out := out.push (p, c)
  return out.toList

/-- operations of the protocol: a model operation, or a replacement computed from the state -/
inductive DOp where
  | op (o : NOp)
  | alter (v p hm de : Nat)
  | dropPath (p : Nat)
  | restore (i : Nat)
  | bad

def qCache : Q NCache := do
  match (← qNat) with
  | 0 => return .missing
  | 1 => return .junk .unreadable
  | 2 => return .junk .illTyped
  | _ => let v ← qNat; let es ← qRows; return .doc v es

def qOp (w : String) : Q DOp := do
  match w with
  | "w" => let p ← qNat; let c ← qNat; return .op (.write p c)
  | "d" => return .op (.delete (← qNat))
  | "r" => let a ← qNat; let b ← qNat; return .op (.rename a b)
  | "t" => return .op (.touch (← qNat))
  | "x" => let a ← qNat; let b ← qNat; return .op (.swap a b)
  | "e" => return .op (.setExcl (← qNats))
  | "cm" => return .op (.replaceCache .missing)
  | "cj" => let k ← qNat; return .op (.replaceCache (.junk (if k == 0 then .unreadable else .illTyped)))
  | "cd" => let v ← qNat; let es ← qRows; return .op (.replaceCache (.doc v es))
  | "k" => let ws ← qNat; return .op (.truncate (ws == 1))
  | "D" => return .op .removeCacheDir
  | "M" => return .op .removeMarkers
  | "s" => return .op .scan
  | "ca" => let v ← qNat; let i ← qNat; let hm ← qNat; let de ← qNat; return .alter v i hm de
  | "cr" => return .dropPath (← qNat)
  | "co" => return .restore (← qNat)
  | _ => return .bad

partial def qOps (acc : Array DOp) : Q (Array DOp) := do
  match (← qWord) with
  | none => return acc
  | some w => let o ← qOp w; qOps (acc.push o)

def alterRows (es : List (Nat × Nat × Nat)) (p hm de : Nat) : List (Nat × Nat × Nat) :=
  es.map fun r =>
    if r.1 = p then (r.1, (if hm = 0 then r.2.1 else hm - 1), r.2.2 + de) else r

/-- the model operation a protocol operation stands for in a given state -/
def resolve (s : NState) (reports : List (List (Nat × Nat × Nat))) : DOp → Option NOp
  | .op o => some o
  | .alter v i hm de =>
      match s.cache with
      | .doc _ es => some (.replaceCache (.doc v (alterRows es i hm de)))
      | _ => none
  | .dropPath p =>
      match s.cache with
      | .doc v es => some (.replaceCache (.doc v (es.filter (fun r => r.1 != p))))
      | _ => none
  | .restore i =>
      match reports[i]? with
      | some r => some (.replaceCache (.doc 1 r))
      | none => none
  | .bad => none

def showNats (l : List Nat) : String := toString l.length ++ String.join (l.map fun n => s!" {n}")

def showRows (l : List (Nat × Nat × Nat)) : String :=
  toString l.length ++ String.join (l.map fun r => s!" {r.1} {r.2.1} {r.2.2}")

def showDir : DirState → String
  | .absent => "0"
  | .present false => "1"
  | .present true => "2"

def showCache : NCache → String
  | .missing => "0"
  | .junk .unreadable => "1"
  | .junk .illTyped => "2"
  | .doc v es => s!"3 {v} " ++ showRows es

def runHistory (P : Params Nat Nat Nat Nat (List Nat) Nat) (s0 : NState) (ops : List DOp) : String :=
  let (s, _, outs) := ops.foldl (fun (acc : NState × List (List (Nat × Nat × Nat)) × Array String) d =>
    let (s, reports, outs) := acc
    match resolve s reports d with
    | none => (s, reports, outs)
    | some .scan =>
        let r := (scan P s).2
        let line := showRows r ++ " " ++ showNats ((reusedFiles P s).map (·.1)) ++ " " ++
          showNats ((analysedFiles P s).map (·.1)) ++ " " ++ showDir (scan P s).1.dir
        ((scan P s).1, reports ++ [r], outs.push line)
    | some o => (step P s o, reports, outs)) (s0, [], #[])
  s!"ok {outs.size}" ++ String.join (outs.toList.map fun l => " " ++ l) ++ " " ++ showCache s.cache

def handleCache (cmd : String) (args : List String) : Option String :=
  match cmd with
  | "history" => some ((do
      let unsup ← qNats
      let fs ← qPairs
      let excl ← qNats
      let ops ← qOps #[]
      return runHistory (natParams unsup) (init fs excl) ops.toList : Q String).run args).1
  | "readreport" => some ((do
      let c ← qCache
      return (match readReport (natParams []) c with
        | .noReport => "0" | .refuse => "1" | .shown _ => "2" | .unspecified => "3") : Q String).run args).1
  | _ => none

end Cache
end CL
