import CodeLimit.Model.Select
import CodeLimit.Model.Codebase
import CodeLimit.Model.Report
import CodeLimit.Model.Cache
import CodeLimit.Spec.Gitignore
import CodeLimit.Gen.Languages
/-!
# ONE model of `codelimit scan` and `codelimit check`: the layer models joined

Every layer model takes the next layer as an abstract parameter.  This file contains no new
algorithm: it only *instantiates* those parameters with the layers below and writes the adapters
between the types the layers use for the same Python object.

| parameter                                  | instantiated with                                            | Python                                   |
|--------------------------------------------|--------------------------------------------------------------|------------------------------------------|
| `Sel.Oracles.excluded`                     | `Gi.excludedWith pats` (`Spec/Gitignore.lean`)               | `Scanner.generate_exclude_spec` + `is_excluded` |
| `Sel.Oracles.langOf`                       | `langOf E` (lexer lookup, then membership in `Gen.all`)      | `get_lexer_for_filename`, `lexer_name in Languages.by_name` |
| `Sel.Oracles.analyze`                      | `analyzeText E` = `CL.analyze (Gen.all[lang]) text (lexer text)` | `Scanner._analyze_file` lines 127-133 (`lex`, `scan_file`); `check_file` lines 64-67 |
| `Sel.Oracles.decode`, `checksum`           | stay parameters (`Env.decode`, `Env.checksum`)               | `Scanner._read_file`, `utils.calculate_checksum` |
| `Cache.Params.analyze`                     | `analyzeRow E` = `Sel.analyzeFile` of those oracles          | `Scanner._analyze_file`                  |
| `Cache.Params.hash`                        | `Env.checksum`                                               | `calculate_checksum`                     |
| `Cache.Params.selected`                    | the three tests of `Sel.scanBody` on the components of the key | `scan_path` lines 63-64, 67-68, 70-74  |
| `Cache.Params.cur`                         | `some E.version`                                             | `Report.VERSION`                         |
| `Cache.State.fs`                           | `fsOf ch`: all files of the tree in `os.walk` order, keyed by `relpath` | the directory                   |
| `Cache.State.cache`                        | `readCache bytes` = `Json.parseJson`, `Json.fromJson`, `Codebase.build` | `commands/scan.py:_read_cached_report` |
| `build` of `Json.fromJson`                 | `buildJ` = `Codebase.build` on the entries read              | `Codebase.add_file*`, `aggregate` in `ReportReader.from_json` |
| `profileOf` of `Json.fromJson`             | `profileOf` = `Codebase.makeProfile`                         | `utils.make_profile` in `SourceFileEntry.__init__` |
| `files` of `CL.checkCommand`               | the lengths of the risks `Sel.checkPaths` returns            | `CheckResult.add(path, risks)`           |

The Pygments lexers stay a parameter (`Env.lexOf`, contract `RawOk`: see `Props/Pipeline.lean`),
and so do `_read_file`, MD5, the tool version, and the identifier / clock / root string /
repository of a run (`Run`).

Not modelled here (as in the layers): the progress table and the summary printed by
`scan_command` lines 19 and 23 (`print_totals_header`, `print_summary`) (`Model/Render.lean`), the marker files (`Cache.DirState`), the
text printed by `CheckResult.report` beyond the file list and the summary count.

The cache file `.codelimit_cache/codelimit.json` lives inside the scanned directory; it is in a
hidden directory and therefore never scanned.  Its content is the separate argument `prev` of
`scan` (`none`: the file does not exist); the bytes a scan writes are the second component of
the result.  "Bytes" are code points: `write_text` / `read_text` use the same (locale) codec and
the document is ASCII (`json.dumps` escapes everything else).
-/
namespace CL.Pipeline

open CL CL.Sel

/-! ## parameters -/

/-- what the machine and the installed libraries determine, the same for every run -/
structure Env where
  /-- `get_lexer_for_filename(name)`: the Pygments lexer for a file name, as a number; `none` is
  `ClassNotFound`.  The numbers `0 … 6` are the lexers whose class name is a key of
  `Languages.by_name`, in the order of `Gen.all` (C, C++, C#, Java, JavaScript, Python,
  TypeScript); every other number is a lexer of an unsupported language. -/
  lexerOf : Str → Option Nat
  /-- `lexer.get_tokens_unprocessed(code)` of lexer `i` -/
  lexOf : Nat → Str → List RawTok
  /-- `Scanner._read_file`: the text of a file with these bytes -/
  decode : Str → Str
  /-- `utils.calculate_checksum`: MD5 of the bytes, in hexadecimal -/
  checksum : Str → Str
  /-- `Report.VERSION` (`codelimit/version.py`) -/
  version : Str

/-- what changes from run to run -/
structure Run where
  /-- `Configuration.exclude` (`.codelimit.yml`, `--exclude`) and the lines of the root
  `.gitignore`, as read by pathspec (`excludeLines`, `userPats` below) -/
  pats : List Gi.Pat
  /-- `str(path.resolve().absolute())` (`Codebase(...)` in `scan_path`) -/
  root : Str
  /-- `str(uuid4())` (`Report.__init__`) -/
  uuid : Str
  /-- `datetime.now(timezone.utc).isoformat(timespec='seconds')` (`Report.__init__`) -/
  now : Str
  /-- `Configuration.repository` -/
  repository : Option Json.Repo

/-! ## exclusion lines (`Scanner.generate_exclude_spec`, lines 168-174) -/

/-- `excludes = DEFAULT_EXCLUDES.copy(); excludes.extend(Configuration.exclude);
if gitignore_excludes: excludes.extend(gitignore_excludes)`; `gitignore` is the result of
`_read_gitignore(root)` (`None`: no such file) -/
def excludeLines (configured : List Str) (gitignore : Option (List Str)) : List Str :=
  Gi.builtinNames ++ configured ++ (match gitignore with | some ls => ls | none => [])

/-- the configured and `.gitignore` lines as patterns; `none` when a line is outside the six
classes of `Spec/Gitignore.lean` -/
def userPats (configured : List Str) (gitignore : Option (List Str)) : Option (List Gi.Pat) :=
  Gi.parseAll (configured ++ (match gitignore with | some ls => ls | none => []))

/-! ## the oracles of `Model/Select.lean` -/

/-- number of supported languages (`len(Languages.by_name)`) -/
def numLangs : Nat := Gen.all.length

/-- `lexer = get_lexer_for_filename(rel_path)` followed by
`lexer.__class__.name in Languages.by_name.keys()` (`scan_path` lines 70-74, `check_file`
lines 57-62) -/
def langOf (E : Env) (name : Str) : Option Nat :=
  match E.lexerOf name with
  | some i => if i < numLangs then some i else none
  | none => none

/-- `lexer.__class__.name` of a supported lexer, as code points -/
def langName (i : Nat) : Str :=
  match Gen.all[i]? with
  | some x => Gi.str x.1
  | none => []

/-- `_analyze_file` lines 127-133 / `check_file` lines 64-67 on the decoded text:
`all_tokens = lex(lexer, code, False)`, `language = Languages.by_name[language_name]`,
`measurements = scan_file(all_tokens, language) if language else []` -/
def analyzeText (E : Env) (lang : Nat) (text : Str) : Except Err (List Measurement) :=
  match Gen.all[lang]? with
  | none => .ok []
  | some x =>
    match CL.analyze x.2 text (E.lexOf lang text) with
    | .error e => .error e
    | .ok r => .ok r.1

/-- the libraries as `Model/Select.lean` wants them, for the exclusion lines `pats` -/
def oracles (E : Env) (pats : List Gi.Pat) : Oracles where
  excluded := Gi.excludedWith pats
  langOf := langOf E
  checksum := E.checksum
  decode := E.decode
  analyze := analyzeText E

/-! ## adapters between the representations of a file entry

`Sel.FileEntry` (language as a number, `Nat` fields, `CL.Measurement`), `Json.FileData`
(language as a name, `Int` fields, `Json.Meas`, stored profile), `Codebase.FileEntry`
(measurements reduced to their values), and the rows of the cache model. -/

/-- `Measurement` as the report holds it -/
def measOf (m : Measurement) : Json.Meas := ⟨m.name, m.sl, m.sc, m.el, m.ec, m.len⟩

/-- a `SourceFileEntry` without path and checksum: what `_analyze_file` computes and what a cached
entry contributes (`cached_entry.language`, `.loc`, `.measurements()`) -/
structure Row where
  language : Str
  loc : Int
  measurements : List Json.Meas
  deriving Repr, DecidableEq, Inhabited

def rowOfSel (e : Sel.FileEntry) : Row := ⟨langName e.lang, e.loc, e.ms.map measOf⟩

/-- `[easy, verbose, hard_to_maintain, unmaintainable]` as the list the report holds -/
def profileList (p : Codebase.Profile) : List Int := [p.p0, p.p1, p.p2, p.p3]

/-- `utils.make_profile(measurements)` (`SourceFileEntry.__init__`) -/
def profileOf (ms : List Json.Meas) : List Int :=
  profileList (Codebase.makeProfile (ms.map (·.value)))

/-- `SourceFileEntry(rel_path, checksum, language, loc, measurements)` -/
def fileData (checksum : Str) (r : Row) : Json.FileData :=
  ⟨checksum, r.language, r.loc, profileOf r.measurements, r.measurements⟩

/-- the entry as `Model/Codebase.lean` sees it -/
def cbEntry (kv : Str × Json.FileData) : Codebase.FileEntry :=
  ⟨kv.1, kv.2.checksum, kv.2.language, kv.2.loc, kv.2.measurements.map (·.value)⟩

def totalsJ (t : Codebase.LanguageTotals) : Json.Totals :=
  ⟨t.files, t.loc, t.functions, t.hardToMaintain, t.unmaintainable⟩

/-- `SourceFolder` as the writer reads it: the `name`s of the entries and the profile -/
def folderJ (f : Codebase.Folder) : Json.Folder :=
  ⟨f.entries.map Codebase.Entry.name, profileList f.profile⟩

/-- `codebase.totals`, `codebase.tree` as the writer reads them -/
def codebaseJ (cb : Codebase.Codebase) : List (Str × Json.Totals) × List (Str × Json.Folder) :=
  (cb.totals.map (fun kv => (kv.1, totalsJ kv.2)), cb.tree.map (fun kv => (kv.1, folderJ kv.2)))

/-- the `build` parameter of `Json.fromJson`: `add_file` for every entry, then `aggregate`
(`ReportReader.from_json`); an exception there is handled by the caller (`readCache`) -/
def buildJ (files : List (Str × Json.FileData)) : List (Str × Json.Totals) × List (Str × Json.Folder) :=
  match Codebase.build (files.map cbEntry) with
  | .ok cb => codebaseJ cb
  | .error _ => ([], [])

/-! ## the parameters of `Model/Cache.lean` -/

abbrev CacheRow := Str × Str × Except Err Row
abbrev CacheFileT := Cache.CacheFile Str Str (Except Err Row) (Option Str)
abbrev CacheParams := Cache.Params Str Str Str (Except Err Row) (List Gi.Pat) (Option Str)
abbrev CacheState := Cache.State Str Str Str (Except Err Row) (List Gi.Pat) (Option Str)

/-- `_analyze_file(path, rel_path, checksum, lexer)` for the file with key `rel_path` and these
bytes, minus path and checksum; an exception is an `Except.error`.  The lexer is the one
`scan_path` chose from the file name.  (For a key without supported language the value is
irrelevant: `scan_path` never calls `_scan_file` for it.) -/
def analyzeRow (E : Env) (key : Str) (content : Str) : Except Err Row :=
  match langOf E (Codebase.getBasename key) with
  | none => .ok ⟨[], 0, []⟩
  | some lang =>
    match analyzeFile (oracles E []) key (E.checksum content) lang content with
    | .error e => .error e
    | .ok e => .ok (rowOfSel e)

/-- no component starts with a dot -/
def visibleB (p : List Str) : Bool := p.all (fun x => !isHidden x)

/-- the walk of `scan_path` hands the file with this key to `_scan_file`: no component is
hidden, the exclusion lines do not match, the name has a supported language -/
def selectedKey (E : Env) (pats : List Gi.Pat) (key : Str) : Bool :=
  let p := Codebase.splitSep key
  visibleB p && !Gi.excludedWith pats p && (langOf E (Codebase.getBasename key)).isSome

def cacheParams (E : Env) : CacheParams where
  analyze := analyzeRow E
  hash := E.checksum
  selected := selectedKey E
  cur := some E.version

/-- `os.walk(root)` without the caller's pruning: every file below the directory with entries
`ch`, in walk order, with its components -/
def allFiles (ch : List Node) : List (List Str × Str) :=
  (walkTop (fun _ => true) [] ch).flatMap (fun step => step.2.map (fun f => (step.1 ++ [f.1], f.2)))

/-- the files of the tree keyed by `relpath(path, root)` -/
def fsOf (ch : List Node) : List (Str × Str) :=
  (allFiles ch).map (fun x => (joinPath x.1, x.2))

/-- the rows of a report document: `codebase.files` as the cache model sees it -/
def rowsOfFiles (fs : List (Str × Json.FileData)) : List CacheRow :=
  fs.map (fun kv => (kv.1, kv.2.checksum, .ok ⟨kv.2.language, kv.2.loc, kv.2.measurements⟩))

/-- `_read_cached_report` up to the version test: what the reader makes of the cache file.
`none` - `report_path.exists()` is false.  `JSONDecodeError`, the `KeyError` / `TypeError` /
`AttributeError` of `ReportReader.from_json` (incl. an ill-typed field, which the typed reader
of `Model/Report.lean` refuses where `_is_well_formed` does), and the `KeyError` /
`RecursionError` of `add_file` / `aggregate` on paths outside the domain of C07 are all caught by
the `except` clause. -/
def readCache : Option Str → CacheFileT
  | none => .missing
  | some bytes =>
    match Json.parseJson bytes with
    | none => .junk .unreadable
    | some v =>
      match Json.fromJson buildJ profileOf [] v with
      | .error _ => .junk .unreadable
      | .ok d =>
        match Codebase.build (d.files.map cbEntry) with
        | .error _ => .junk .unreadable
        | .ok _ => .doc d.version (rowsOfFiles d.files)

/-- the state `scan_command` starts in -/
def cacheState (pats : List Gi.Pat) (ch : List Node) (prev : Option Str) : CacheState where
  fs := fsOf ch
  excl := pats
  dir := if prev.isSome then .present true else .absent
  cache := readCache prev

/-! ## `scan_command` -/

/-- `cached_report = _read_cached_report(report_path)`; `codebase = scan_codebase(path, cached_report)`
(`scan_command` lines 18, 20; `scan_path` lines 57-82 with `_scan_file` lines 85-112): one row per
file handed to `_scan_file`, in walk order, reused from the cache or analysed -/
def scanRows (E : Env) (pats : List Gi.Pat) (root : Node) (prev : Option Str) : List CacheRow :=
  (Cache.scan (cacheParams E) (cacheState pats root.children prev)).2

/-- the first exception raised by `_analyze_file` aborts the scan; otherwise `codebase.files` -/
def entriesOf : List CacheRow → Except Err (List (Str × Json.FileData))
  | [] => .ok []
  | (_, _, .error e) :: _ => .error e
  | (k, h, .ok r) :: rest =>
    match entriesOf rest with
    | .error e => .error e
    | .ok es => .ok ((k, fileData h r) :: es)

/-- `codebase.aggregate(); report = Report(codebase, Configuration.repository)`
(`scan_command` lines 21-22) for the entries `add_file` was called with, in that order -/
def reportOf (E : Env) (R : Run) (files : List (Str × Json.FileData)) : Except Err Json.ReportData :=
  match Codebase.build (files.map cbEntry) with
  | .error e => .error e
  | .ok cb => .ok (Json.Report.init E.version R.uuid R.now R.root R.repository (codebaseJ cb).1 (codebaseJ cb).2 files)

/-- **`scan_command(path)`**: the report object and the text written to
`.codelimit_cache/codelimit.json` (`report_path.write_text(ReportWriter(report).to_json())`,
pretty printed).  `prev` is the content of that file before the scan. -/
def scan (E : Env) (R : Run) (root : Node) (prev : Option Str) : Except Err (Json.ReportData × Str) :=
  match entriesOf (scanRows E R.pats root prev) with
  | .error e => .error e
  | .ok files =>
    match reportOf E R files with
    | .error e => .error e
    | .ok d => .ok (d, Json.write true d)

/-! ## `check_command` -/

structure CheckOut where
  /-- `CheckResult.file_list` -/
  files : List (CPath × List Measurement)
  /-- exit status, whether the report is printed, the listed lengths, the summary -/
  out : CL.CheckOutput

/-- **`check_command(paths, quiet)`** in the tree `fs` with working directory `cwd` (the exclusion
lines are those of the working directory: `generate_exclude_spec(Path.cwd())`) -/
def check (E : Env) (pats : List Gi.Pat) (fs : Node) (cwd : List Str) (args : List CheckArg) (quiet : Bool) :
    Except Err CheckOut :=
  match (checkPaths (oracles E pats) fs cwd args).result with
  | .error e => .error e
  | .ok fl => .ok ⟨fl, CL.checkCommand quiet (fl.map (fun x => x.2.map (fun m => (m.len : Int))))⟩

end CL.Pipeline
