import CodeLimit.Gen.Logic
/-!
# Model of `commands/check.py` + `CheckResult` on lists of function lengths

The per-measurement decisions are the *generated* definitions of `Gen/Logic.lean`; this file
only models the glue (loops, sorting, counters) and is tied to the code by correspondence.
-/
namespace CL

open Gen.Logic

/-- `check_file`: the risks of one file - lengths above the threshold, longest first (stable) -/
def fileRisks (ms : List Int) : List Int :=
  (ms.filter (fun v => decide (check_lists v))).mergeSort (fun a b => decide (b ≤ a))

structure CheckResult where
  files : List (List Int)   -- `file_list`: the risks of every checked file, in order
  hard : Int
  unm : Int
  deriving Repr

/-- `CheckResult.add` -/
def CheckResult.add (r : CheckResult) (risks : List Int) : CheckResult :=
  { files := r.files ++ [risks],
    hard := r.hard + ((risks.filter (fun v => decide (check_counts_hard v))).length : Int),
    unm := r.unm + ((risks.filter (fun v => decide (check_counts_unmaintainable v))).length : Int) }

/-- `check_command` over the measurement lists of the files it reaches -/
def checkAll (files : List (List Int)) : CheckResult :=
  files.foldl (fun r ms => r.add (fileRisks ms)) ⟨[], 0, 0⟩

structure CheckOutput where
  exitCode : Int
  printed : Bool                 -- `check_result.report()` is called
  listed : List (List Int)       -- one line per listed function, per file
  saysRefactoring : Bool
  count : Int                    -- the number in the summary line
  deriving Repr

def checkCommand (quiet : Bool) (files : List (List Int)) : CheckOutput :=
  let r := checkAll files
  { exitCode := check_exit_code r.unm,
    printed := decide (check_prints quiet r.hard r.unm),
    listed := r.files,
    saysRefactoring := decide (check_says_refactoring r.hard r.unm),
    count := check_summary_count r.hard r.unm }

end CL
