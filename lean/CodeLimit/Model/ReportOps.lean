import CodeLimit.Model.Report
import CodeLimit.Gen.Logic
/-!
# Driver operations for the JSON / report models

Words are blank-separated. `<str>` = `<len> <codepoint>*`; `<opt>` = `0` | `1 <str>`;
`<int>` = a decimal integer with optional `-`.

`<report>` = `<opt version> <str uuid> <str timestamp> <str root>`
  `(0 | 1 <str owner> <str name> <opt branch> <opt tag>)`
  `<n> (<str language> <int files> <int loc> <int functions> <int hard> <int unmaintainable>)*`
  `<n> (<str path> <n> <str entry>* <n> <int profile>*)*`
  `<n> (<str path> <str checksum> <str language> <int loc> <n> <int profile>* <n> (<str unit> <int sl> <int sc> <int el> <int ec> <int value>)*)*`

`<json>` (canonical dump of a parsed value) = `n` | `t` | `f` | `i <int>` | `r <str lexeme>` |
  `x <k>` | `s <str>` | `a <n> <json>*` | `o <n> (<str key> <json>)*`

* `dumps <str>`                 -> `ok <str>`            (`json.dumps(s)`)
* `inttext <int>`               -> `ok <str>`            (`f"{n}"`)
* `jsonparse <str>`             -> `none` | `ok <json>`  (`json.loads`)
* `report <0|1 pretty> <report>` -> `ok <str>`           (`ReportWriter(..).to_json()`)
* `read <str doc> <str now>`    -> `noparse` | `err key` | `err type` | `ok <report>`
                                   (`ReportReader.from_json`; totals and tree are left empty:
                                   `build` is not part of this model)
* `version <str doc>`           -> `noparse` | `err type` | `ok none` | `ok <json>`
* `roundtrip <0|1> <report> <str now>` -> `ok <parsed01> <same01> <rewrite01>`: the document parses
  to `toJson`-independent value and reads back (with `build` = the report's own totals/tree) to
  the report up to timestamp/tag; rewriting gives the document of the report with the new timestamp
-/
namespace CL.Json.Ops

abbrev P := StateM (List String)

def nextWord : P String := do
  match (← get) with
  | [] => pure ""
  | w :: ws => set ws; pure w

def nextNat : P Nat := do return (← nextWord).toNat?.getD 0
def nextInt : P Int := do return (← nextWord).toInt?.getD 0

def many {α} (p : P α) : P (List α) := do
  let n ← nextNat
  let mut out := #[]
  for _ in [0:n] do
    out := out.push (← p)
  return out.toList

def pStr : P Str := many nextNat

def pOpt : P (Option Str) := do
  if (← nextNat) == 1 then return some (← pStr) else return none

def pReport : P ReportData := do
  let version ← pOpt
  let uuid ← pStr
  let timestamp ← pStr
  let root ← pStr
  let repository ← (do
    if (← nextNat) == 1 then
      let o ← pStr; let n ← pStr; let b ← pOpt; let t ← pOpt
      return some (⟨o, n, b, t⟩ : Repo)
    else return none)
  let totals ← many (do
    let k ← pStr
    let a ← nextInt; let b ← nextInt; let c ← nextInt; let d ← nextInt; let e ← nextInt
    return (k, (⟨a, b, c, d, e⟩ : Totals)))
  let tree ← many (do
    let k ← pStr
    let es ← many pStr
    let pr ← many nextInt
    return (k, (⟨es, pr⟩ : Folder)))
  let files ← many (do
    let k ← pStr
    let cs ← pStr; let lang ← pStr; let loc ← nextInt
    let pr ← many nextInt
    let ms ← many (do
      let u ← pStr
      let a ← nextInt; let b ← nextInt; let c ← nextInt; let d ← nextInt; let v ← nextInt
      return (⟨u, a, b, c, d, v⟩ : Meas))
    return (k, (⟨cs, lang, loc, pr, ms⟩ : FileData)))
  return ⟨version, uuid, timestamp, root, repository, totals, tree, files⟩

def showStr (s : Str) : String := toString s.length ++ String.join (s.map fun c => s!" {c}")
def showOpt : Option Str → String
  | none => "0"
  | some s => "1 " ++ showStr s
def showInts (l : List Int) : String := toString l.length ++ String.join (l.map fun c => s!" {c}")
def showMany {α} (f : α → String) (l : List α) : String :=
  toString l.length ++ String.join (l.map fun x => " " ++ f x)

mutual
partial def showJson : JVal → String
  | .null => "n"
  | .bool true => "t"
  | .bool false => "f"
  | .num n => s!"i {n}"
  | .real l => "r " ++ showStr l
  | .nonfinite k => s!"x {k}"
  | .str s => "s " ++ showStr s
  | .arr xs => showMany showJson xs |> ("a " ++ ·)
  | .obj ms => showMany (fun kv => showStr kv.1 ++ " " ++ showJson kv.2) ms |> ("o " ++ ·)
end

def showReport (d : ReportData) : String :=
  String.intercalate " " [
    showOpt d.version, showStr d.uuid, showStr d.timestamp, showStr d.root,
    (match d.repository with
     | none => "0"
     | some r => String.intercalate " " ["1", showStr r.owner, showStr r.name, showOpt r.branch, showOpt r.tag]),
    showMany (fun (kv : Str × Totals) => String.intercalate " " [showStr kv.1, toString kv.2.files, toString kv.2.loc,
      toString kv.2.functions, toString kv.2.hard, toString kv.2.unmaintainable]) d.totals,
    showMany (fun (kv : Str × Folder) => String.intercalate " " [showStr kv.1, showMany showStr kv.2.entries, showInts kv.2.profile]) d.tree,
    showMany (fun (kv : Str × FileData) => String.intercalate " " [showStr kv.1, showStr kv.2.checksum, showStr kv.2.language,
      toString kv.2.loc, showInts kv.2.profile,
      showMany (fun (m : Meas) => String.intercalate " " [showStr m.unitName, toString m.sl, toString m.sc, toString m.el,
        toString m.ec, toString m.value]) kv.2.measurements]) d.files]

/-- `utils.make_profile` through the generated bucket function -/
def profileOfGen (ms : List Meas) : List Int :=
  ms.foldl (fun acc m =>
    let b := Gen.Logic.make_profile_bucket m.value
    acc.zipIdx.map (fun (x, i) => if i = b then x + m.value else x)) [0, 0, 0, 0]

def showErr : RErr → String
  | .key => "err key"
  | .type => "err type"

def stripTag (d : ReportData) (now : Str) : ReportData :=
  { d with timestamp := now, repository := d.repository.map fun r => { r with tag := none } }

def handleReport (cmd : String) (args : List String) : Option String :=
  let run {α} (p : P α) : α := (p.run args).1
  match cmd with
  | "dumps" => some <| run do return "ok " ++ showStr (dumpsStr (← pStr))
  | "inttext" => some <| run do return "ok " ++ showStr (intText (← nextInt))
  | "jsonparse" => some <| run do
      match parseJson (← pStr) with
      | none => return "none"
      | some v => return "ok " ++ showJson v
  | "report" => some <| run do
      let p ← nextNat
      let d ← pReport
      return "ok " ++ showStr (write (p == 1) d)
  | "read" => some <| run do
      let doc ← pStr
      let now ← pStr
      match parseJson doc with
      | none => return "noparse"
      | some v =>
        match fromJson (fun _ => ([], [])) profileOfGen now v with
        | .error e => return showErr e
        | .ok r => return "ok " ++ showReport r
  | "version" => some <| run do
      match parseJson (← pStr) with
      | none => return "noparse"
      | some v =>
        match getReportVersion v with
        | .error e => return showErr e
        | .ok none => return "ok none"
        | .ok (some j) => return "ok " ++ showJson j
  | "roundtrip" => some <| run do
      let p ← nextNat
      let d ← pReport
      let now ← pStr
      match parseJson (write (p == 1) d) with
      | none => return "ok 0 0 0"
      | some v =>
        match fromJson (fun _ => (d.totals, d.tree)) profileOfGen now v with
        | .error _ => return "ok 1 0 0"
        | .ok r =>
          let same := decide (r = stripTag d now)
          let rew := decide (write (p == 1) r = write (p == 1) (stripTag d now))
          return s!"ok 1 {if same then 1 else 0} {if rew then 1 else 0}"
  | _ => none

end CL.Json.Ops
