import CodeLimit.Model.ProgText
import CodeLimit.Gen.Languages
import CodeLimit.Spec.ProgTreeCanon
import CodeLimit.Spec.ProgTreeCanonArrow
/-!
# Driver operation for program forests (`Spec/ProgTree.lean`, `Model/ProgText.lean`)

```
tok    := <kind> <ty> <nl> <col> <str val>              -- a token without location (`PTok`)
forest := <n> item*n
item   := 0 <tok>                                        -- a token
        | 1 <tok op> <tok cl> <forest items>             -- a brace group `{ items }`
        | 2 <forest hdr> <nameIdx> <g> <tok>*g <tok op> <tok cl> <forest body>
                                                         -- a function `hdr gap { body }`
str    := <len> <codepoint>*len

tree <lang> <forest>
  -> ok <wfCore> <noAdj> <allCode> <spaced> <discovery>
        <str text> <nraw> (<off> <kind> <ty> <str val>)*nraw
        <k> (<str name> sl sc el ec len)*k
   | bad-lang
```
`<lang>` is the index into `Gen.all` (the regenerated languages: C, C++, C#, Java, JavaScript,
Python, TypeScript); Python (indentation blocks) is refused.  The five flags are the decidable
hypotheses of `C01text.analyze_of_tree_text_partial`, evaluated on this forest; `text` / `raw`
are `textOf` / `rawOf`; the report is `treeReport` (or `treeReportFlat` when the language does
not report nested functions) of the located forest - computed from the TREE, not by `scanFile`.
-/
namespace CL.TreeOps

/-- what the `tree` operation returns -/
structure TreeReply where
  wfCore : Bool
  noAdj : Bool
  allCode : Bool
  spaced : Bool
  discovery : Bool
  text : Str
  raw : List RawTok
  report : List Measurement

/-- the header-discovery hypothesis, evaluated: `extract_headers` on the rendering succeeds and
returns a permutation of the headers of the function nodes -/
def discovery (L : Language) (p : Prog PTok) : Bool :=
  match extractHeaders L (render p) with
  | .ok hs => hs.isPerm (p.located.fns.map (·.hdr))
  | .error _ => false

/-- the report read off the tree -/
def reportOf (L : Language) (p : Prog PTok) : List Measurement :=
  if L.nested = true then treeReport p.located else treeReportFlat p.located

def treeOp (L : Language) (p : Prog PTok) : TreeReply where
  wfCore := p.bare.wfCore
  noAdj := p.noAdj
  allCode := p.bare.allCode
  spaced := p.Spaced
  discovery := discovery L p
  text := textOf p
  raw := rawOf p
  report := reportOf L p

/-- all five flags hold -/
def TreeReply.good (r : TreeReply) : Bool :=
  r.wfCore && r.noAdj && r.allCode && r.spaced && r.discovery

/-! ## line protocol -/

abbrev PT := StateM (List String)

def ptWord : PT (Option String) := do
  match (← get) with
  | [] => pure none
  | w :: ws => set ws; pure (some w)

def ptNat : PT Nat := do
  match (← ptWord) with
  | some w => pure (w.toNat?.getD 0)
  | none => pure 0

def ptStr : PT Str := do
  let n ← ptNat
  let mut out := #[]
  for _ in [0:n] do
    out := out.push (← ptNat)
  return out.toList

def ptTok : PT PTok := do
  let kind ← ptNat; let ty ← ptNat; let nl ← ptNat; let col ← ptNat; let v ← ptStr
  return ⟨kind, ty, v, nl, col⟩

/-- a forest; `fuel` bounds the nesting depth (the number of request words suffices) -/
def ptForest : Nat → PT (List (Node PTok))
  | 0 => pure []
  | fuel + 1 => do
    let n ← ptNat
    let mut out := #[]
    for _ in [0:n] do
      match (← ptNat) with
      | 0 => out := out.push (.leaf (← ptTok))
      | 1 =>
        let op ← ptTok; let cl ← ptTok; let items ← ptForest fuel
        out := out.push (.group op cl items)
      | _ =>
        let hdr ← ptForest fuel
        let k ← ptNat
        let g ← ptNat
        let mut gap := #[]
        for _ in [0:g] do
          gap := gap.push (← ptTok)
        let op ← ptTok; let cl ← ptTok; let body ← ptForest fuel
        out := out.push (.fn hdr k gap.toList op cl body)
    return out.toList

def showS (s : Str) : String := toString s.length ++ String.join (s.map fun c => s!" {c}")

def showB (b : Bool) : String := if b then "1" else "0"

def showReply (r : TreeReply) : String :=
  s!"ok {showB r.wfCore} {showB r.noAdj} {showB r.allCode} {showB r.spaced} {showB r.discovery} "
    ++ showS r.text ++ s!" {r.raw.length}"
    ++ String.join (r.raw.map fun t => s!" {t.off} {t.kind} {t.ty} " ++ showS t.val)
    ++ s!" {r.report.length}"
    ++ String.join (r.report.map fun m =>
        " " ++ showS m.name ++ s!" {m.sl} {m.sc} {m.el} {m.ec} {m.len}")

def handleTree (cmd : String) (args : List String) : Option String :=
  let run {α} (p : PT α) : α := (p.run args).1
  match cmd with
  | "tree" => some <| run do
      let li ← ptNat
      let ns ← ptForest args.length
      match Gen.all[li]? with
      | some (_, L) =>
        if L.python then return "bad-lang"
        else return showReply (treeOp L (Prog.ofNodes ns))
      | none => return "bad-lang"
  | "canon" => some <| run do
      -- `canon <lang index> <forest>` -> `ok <0|1>`: the forest lies in the tree-level canonical fragment of
      -- the language (`Spec/ProgTreeCanon.lean`, `Spec/ProgTreeCanonArrow.lean`), i.e. the UNCONDITIONAL
      -- theorems of `Props/C01full.lean` (`scan_of_rendered_canon_tree`, `scan_java_…`, `scan_js_…`, `scan_ts_…`)
      -- or, for JavaScript / TypeScript forests with assigned arrow functions as function nodes, of
      -- `Props/C01arrow.lean` (`scan_js_arrow_of_rendered_canon_tree`, `scan_ts_arrow_…`) apply to it
      let li ← ptNat
      let ns ← ptForest args.length
      let p : Prog PTok := Prog.ofNodes ns
      match Gen.all[li]? with
      | some (name, _) =>
        let c := match name with
          | "C" | "C++" | "C#" => p.bare.Canon
          | "Java" => p.bare.CanonJava
          | "JavaScript" => p.bare.CanonJs || p.bare.CanonJsArrow
          | "TypeScript" => p.bare.CanonTs || p.bare.CanonTsArrow
          | _ => false
        return s!"ok {showB c}"
      | none => return "bad-lang"
  | _ => none

end CL.TreeOps
