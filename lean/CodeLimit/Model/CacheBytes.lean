import CodeLimit.Model.CacheDoc
import CodeLimit.Model.Decode
/-!
# The report file as BYTES: `Path.read_text()` in front of `Model/CacheDoc.lean`

`report_path.read_text()` (in `_read_cached_report` and in `utils.read_report`) is
`open(path, "r").read()`: the locale's encoding (UTF-8, see `Model/Decode.lean`), strict, with
universal newlines - and WITHOUT the Latin-1 fallback of `Scanner._read_file`.  A file that is
not well-formed UTF-8 raises `UnicodeDecodeError`, a subclass of `ValueError`:
`_read_cached_report` catches it (no cache), `read_report` lets it escape.

`report_path.write_text(text)` encodes with the same codec; the writer emits ASCII only
(`json.dumps` with `ensure_ascii`), so the bytes written are the code points of the text.
-/
namespace CL.Json

open CL.Decode

/-- `Path.read_text()` on the bytes of an existing file; `none` = `UnicodeDecodeError` -/
def readText (bs : Bytes) : Option Str := (utf8Decode bs).map univNl

/-- `_read_cached_report` on the bytes of the file (`none` = the file does not exist) -/
def readCachedBytes (cur : Str) (buildOk : List Str → Bool) : Option Bytes → Option UReport
  | none => none
  | some bs =>
    match readText bs with
    | none => none                       -- `except (ValueError, ...)`
    | some text => readCachedDoc cur buildOk (some text)

/-- `read_report` on the bytes of the file; `UnicodeDecodeError` is reported as `ReadErr.json`
(both are `ValueError`s that escape) -/
def readReportBytes (cur : Str) (buildOk : List Str → Bool) : Option Bytes → ReadDocResult
  | none => .noReport
  | some bs =>
    match readText bs with
    | none => .raises .json
    | some text => readReportDoc cur buildOk (some text)

/-- the abstraction function of `Model/Cache.lean`, on bytes -/
def abstractCacheBytes (buildOk : List Str → Bool) : Option Bytes → Cache.CacheFile Str Str CEntry (Option Str)
  | none => .missing
  | some bs =>
    match readText bs with
    | none => .junk .unreadable
    | some text => abstractCache buildOk (some text)

end CL.Json
