import CodeLimit.Model.Select
/-!
# Driver operations for `Model/Select.lean`

```
node     := F <str name> <content id> | D <str name> <k> node*k
path     := <n> <str>*n
paths    := <n> path*n
langs    := <n> (<str name> <lang>)*n                 -- names not listed have no supported language
meas     := <n> (<content id> <k> (<str name> sl sc el ec len)*k)*n

select <node root> <paths excluded> <langs>
  -> ok <n> (<str key> <lang> <content id>)*n <a> (<str key>)*a      | err <code> <a> (<str key>)*a
checksel <path cwd> <nargs> (<kind> <path>)*nargs <node base> <paths excluded> <langs> <meas>
  kind: 0 relative file, 1 absolute file, 2 relative directory, 3 absolute directory
  -> ok <n> (<abs> <path> <k> (<str name> sl sc len)*k)*n <a> (<abs> <path>)*a | err <code> ...
```
A file's bytes are `[content id]`; `checksum` and `decode` are the identity, so the reply carries
the content id where the real code has the MD5 of the bytes, and `analyze` looks the id up in
`meas` (no entry: no functions).
-/
namespace CL.Sel

abbrev PS := StateM (List String)

def psWord : PS (Option String) := do
  match (← get) with
  | [] => pure none
  | w :: ws => set ws; pure (some w)

def psNat : PS Nat := do
  match (← psWord) with
  | some w => pure (w.toNat?.getD 0)
  | none => pure 0

def psNats : PS (List Nat) := do
  let n ← psNat
  let mut out := #[]
  for _ in [0:n] do
    out := out.push (← psNat)
  return out.toList

def psPath : PS (List Str) := do
  let n ← psNat
  let mut out := #[]
  for _ in [0:n] do
    out := out.push (← psNats)
  return out.toList

def psPaths : PS (List (List Str)) := do
  let n ← psNat
  let mut out := #[]
  for _ in [0:n] do
    out := out.push (← psPath)
  return out.toList

partial def psNode : PS Node := do
  match (← psWord) with
  | some "F" =>
    let name ← psNats
    let id ← psNat
    return .file name [id]
  | some "D" =>
    let name ← psNats
    let k ← psNat
    let mut ch := #[]
    for _ in [0:k] do
      ch := ch.push (← psNode)
    return .dir name ch.toList
  | _ => return .file [] []

def psLangs : PS (List (Str × Nat)) := do
  let n ← psNat
  let mut out := #[]
  for _ in [0:n] do
    let name ← psNats
    let l ← psNat
    out := out.push (name, l)
  return out.toList

def psMeas : PS (List (Nat × List Measurement)) := do
  let n ← psNat
  let mut out := #[]
  for _ in [0:n] do
    let id ← psNat
    let k ← psNat
    let mut ms := #[]
    for _ in [0:k] do
      let name ← psNats
      let sl ← psNat; let sc ← psNat; let el ← psNat; let ec ← psNat; let len ← psNat
      ms := ms.push (⟨name, sl, sc, el, ec, len⟩ : Measurement)
    out := out.push (id, ms.toList)
  return out.toList

def lookupD {α β : Type} [BEq α] (d : β) (k : α) : List (α × β) → β
  | [] => d
  | (k', v) :: r => if k' == k then v else lookupD d k r

def mkOracles (excluded : List (List Str)) (langs : List (Str × Nat)) (meas : List (Nat × List Measurement)) :
    Oracles where
  excluded p := excluded.contains p
  langOf n := lookupD none n (langs.map fun (k, v) => (k, some v))
  checksum c := c
  decode c := c
  analyze _ t := .ok (lookupD [] (t.headD 0) meas)

def showS (s : Str) : String := toString s.length ++ String.join (s.map fun c => s!" {c}")

def showPath (p : List Str) : String := toString p.length ++ String.join (p.map fun c => " " ++ showS c)

def showCPath (p : CPath) : String := (if p.abs then "1 " else "0 ") ++ showPath p.comps

def handleSelect (cmd : String) (args : List String) : Option String :=
  let run {α} (p : PS α) : α := (p.run args).1
  match cmd with
  | "select" => some <| run do
      let root ← psNode; let ex ← psPaths; let langs ← psLangs
      let out := scanPath (mkOracles ex langs []) root
      let an := s!" {out.analysed.length}" ++ String.join (out.analysed.map fun k => " " ++ showS k)
      return match out.result with
        | .error e => s!"err {e.code}" ++ an
        | .ok files => s!"ok {files.length}" ++ String.join (files.map fun (k, e) =>
            " " ++ showS k ++ s!" {e.lang} {e.checksum.headD 0}") ++ an
  | "checksel" => some <| run do
      let cwd ← psPath
      let nargs ← psNat
      let mut cargs := #[]
      for _ in [0:nargs] do
        let kind ← psNat
        let p ← psPath
        cargs := cargs.push (match kind with
          | 0 => CheckArg.relFile p | 1 => .absFile p | 2 => .relDir p | _ => .absDir p)
      let base ← psNode; let ex ← psPaths; let langs ← psLangs; let meas ← psMeas
      let out := checkPaths (mkOracles ex langs meas) base cwd cargs.toList
      let an := s!" {out.analysed.length}" ++ String.join (out.analysed.map fun p => " " ++ showCPath p)
      return match out.result with
        | .error e => s!"err {e.code}" ++ an
        | .ok fl => s!"ok {fl.length}" ++ String.join (fl.map fun (p, rs) =>
            " " ++ showCPath p ++ s!" {rs.length}" ++ String.join (rs.map fun m =>
              " " ++ showS m.name ++ s!" {m.sl} {m.sc} {m.len}")) ++ an
  | _ => none

end CL.Sel
