import CodeLimit.Model.Regex
/-!
# Model of `Pattern.consume` and `matcher.find_all`

`find_all` is modelled over an abstract deterministic machine so that its properties can be
proved once and instantiated (a) with the DFA of `Model/Regex.lean` and `Identity`
predicates, (b) with token predicates that carry state (`Balanced` nesting depth).
-/
namespace CL

/-- what `find_all` needs from a compiled pattern -/
structure Machine (β σ : Type) where
  init : σ
  /-- `Pattern.consume`: `.error` = "Multiple transitions found!", `none` = no transition -/
  step : σ → β → Except Err (Option σ)
  acc  : σ → Bool
  /-- `len(pattern.state.transition) == 0` -/
  dead : σ → Bool

/-- a live `Pattern` object: where it started, its machine state, the items it recorded
(`pattern.tokens`, most recent first) -/
structure Att (β σ : Type) where
  start : Nat
  st    : σ
  toks  : List β

/-- a reported match: `pattern.start`, `pattern.end`, `pattern.tokens` (in order) -/
structure Match (β : Type) where
  s : Nat
  e : Nat
  toks : List β
  deriving Repr, DecidableEq

structure FS (β σ : Type) where
  ms   : List (Match β)     -- `fs.matches`, latest first
  next : List (Att β σ)     -- `fs.next_state_patterns`, latest first

variable {β σ : Type}

def lastEnd (ms : List (Match β)) : Nat := match ms with | [] => 0 | m :: _ => m.e

def Att.toMatch (p : Att β σ) (e : Nat) : Match β := ⟨p.start, e, p.toks.reverse⟩

/-- body of the inner `for pattern in fs.active_patterns` loop at index `idx`, item `x` -/
def procOne (A : Machine β σ) (idx : Nat) (x : β) (fs : FS β σ) (p : Att β σ) : Except Err (FS β σ) :=
  if !fs.ms.isEmpty && p.start < lastEnd fs.ms then .ok fs
  else if A.dead p.st && A.acc p.st then .ok { fs with ms := p.toMatch idx :: fs.ms }
  else match A.step p.st x with
    | .error e => .error e
    | .ok (some q) => .ok { fs with next := { p with st := q, toks := x :: p.toks } :: fs.next }
    | .ok none => .ok (if A.acc p.st then { fs with ms := p.toMatch idx :: fs.ms } else fs)

def procAll (A : Machine β σ) (idx : Nat) (x : β) : List (Att β σ) → FS β σ → Except Err (FS β σ)
  | [], fs => .ok fs
  | p :: ps, fs => match procOne A idx x fs p with
    | .error e => .error e
    | .ok fs' => procAll A idx x ps fs'

/-- the `for idx, item in enumerate(sequence)` loop -/
def outer (A : Machine β σ) : Nat → List β → List (Match β) → List (Att β σ) →
    Except Err (List (Match β) × List (Att β σ))
  | _, [], ms, act => .ok (ms, act)
  | idx, x :: xs, ms, act =>
    match procAll A idx x (act ++ [⟨idx, A.init, []⟩]) ⟨ms, []⟩ with
    | .error e => .error e
    | .ok fs => outer A (idx + 1) xs fs.ms fs.next.reverse

/-- the loop after the end of the sequence (with the overlap guard) -/
def finalize (A : Machine β σ) (n : Nat) (ms : List (Match β)) (act : List (Att β σ)) : List (Match β) :=
  act.foldl (fun ms p =>
    if !ms.isEmpty && p.start < lastEnd ms then ms
    else if A.acc p.st then p.toMatch n :: ms else ms) ms

def findAll (A : Machine β σ) (xs : List β) : Except Err (List (Match β)) :=
  match outer A 0 xs [] [] with
  | .error e => .error e
  | .ok (ms, act) => .ok (finalize A xs.length ms act).reverse

/-! ## Predicates with state and `Pattern.consume` -/

/-- how predicates of type `α` judge items of type `β`, with per-pattern predicate state `π`
(`Pattern.predicate_map`: a deep copy of every predicate the pattern has evaluated) -/
structure Acceptor (α π β : Type) where
  init : π
  accept : α → π → β → Bool × π

variable {α π : Type}

/-- `Pattern.consume`: *every* transition of the current state is evaluated (and its
predicate copy mutated); a second accepting transition raises. -/
def consumeAux (C : Acceptor α π β) (x : β) :
    List (α × DState) → Option DState → π → Except Err (Option DState × π)
  | [], f, ps => .ok (f, ps)
  | (p, t) :: rest, f, ps =>
    let r := C.accept p ps x
    if r.1 then
      (if f.isSome then .error .multipleTransitions else consumeAux C x rest (some t) r.2)
    else consumeAux C x rest f r.2

def consume (C : Acceptor α π β) (row : List (α × DState)) (ps : π) (x : β) :
    Except Err (Option (DState × π)) :=
  match consumeAux C x row none ps with
  | .error e => .error e
  | .ok (none, _) => .ok none
  | .ok (some t, ps') => .ok (some (t, ps'))

def dfaMachine [DecidableEq α] (D : Dfa α) (C : Acceptor α π β) : Machine β (DState × π) where
  init := (.start, C.init)
  step := fun s x => consume C (D.row s.1) s.2 x
  acc := fun s => D.isAcc s.1
  dead := fun s => (D.row s.1).isEmpty

/-- `Identity` predicates: stateless, accept by equality -/
def idAcceptor [DecidableEq α] : Acceptor α Unit α where
  init := ()
  accept := fun p _ x => (p = x, ())

/-- `matcher.find_all` on `Identity` atoms; result = (start, end, recorded items) -/
def findAllId [DecidableEq α] (r : Rx α) (base : Nat) (ord : List α → List α) (w : List α) :
    Except Err (List (Match α)) :=
  match nfaToDfa (compile r base) ord with
  | none => .error .fuel
  | some D => findAll (dfaMachine D idAcceptor) w

/-- `matcher.match`: `some n` = a Pattern with `end = n` is returned, `none` = `None` -/
def matchM (A : Machine β σ) : σ → List β → Nat → Except Err (Option Nat)
  | s, [], n => .ok (if A.acc s then some n else none)
  | s, x :: xs, n =>
    match A.step s x with
    | .error e => .error e
    | .ok none => .ok none
    | .ok (some s') => matchM A s' xs (n + 1)

/-- `matcher.starts_with` -/
def startsWithM (A : Machine β σ) : σ → List β → Nat → Except Err (Option Nat)
  | _, [], _ => .ok none
  | s, x :: xs, n =>
    match A.step s x with
    | .error e => .error e
    | .ok none => .ok none
    | .ok (some s') => if A.acc s' then .ok (some (n + 1)) else startsWithM A s' xs (n + 1)

def matchFull [DecidableEq α] (r : Rx α) (base : Nat) (ord : List α → List α) (w : List α) :
    Except Err (Option Nat) :=
  match nfaToDfa (compile r base) ord with
  | none => .error .fuel
  | some D => let A := dfaMachine D idAcceptor; matchM A A.init w 0

def startsWith [DecidableEq α] (r : Rx α) (base : Nat) (ord : List α → List α) (w : List α) :
    Except Err (Option Nat) :=
  match nfaToDfa (compile r base) ord with
  | none => .error .fuel
  | some D => let A := dfaMachine D idAcceptor; startsWithM A A.init w 0

end CL
