import CodeLimit.Model.Token
/-!
# `Scanner._read_file`: from the bytes of a source file to the text that is analysed

```python
def _read_file(path):
    try:
        with open(path) as f:
            return f.read()
    except UnicodeDecodeError:
        with open(path, encoding="latin-1") as f:
            return f.read()
```

A file is a list of bytes (`Nat`s below 256).  `open(path)` is text mode with the locale's
preferred encoding - UTF-8 here (assumption of the model, asserted by the harness; Python's UTF-8
mode makes it so in the C / POSIX locale too) - with `errors="strict"` and universal newlines.
`f.read()` decodes the whole file at once, so one invalid sequence anywhere makes the first
attempt fail as a whole and the file is then read as Latin-1, which maps every byte to the code
point of the same number and cannot fail.

* `utf8Decode` - CPython's strict UTF-8 decoder (`Objects/unicodeobject.c: unicode_decode_utf8`,
  the well-formed sequences of the Unicode standard, table 3-7): no overlong forms, no
  surrogates U+D800..U+DFFF, nothing above U+10FFFF, no truncated sequence.  A byte order mark
  is NOT removed (the codec is `utf-8`, not `utf-8-sig`): it becomes U+FEFF.
* `univNl` - `io.IncrementalNewlineDecoder(translate=True)` (`newline=None`): `\r\n` and a lone
  `\r` become `\n`.  It runs after decoding, in both attempts.
-/
namespace CL.Decode

abbrev Bytes := List Nat

/-- a continuation byte `10xxxxxx` -/
def isCont (b : Nat) : Bool := 128 ≤ b && b ≤ 191

/-- strict UTF-8; `none` = `UnicodeDecodeError` -/
def utf8Decode : Bytes → Option Str
  | [] => some []
  | b0 :: rest =>
    if b0 < 128 then (utf8Decode rest).map (b0 :: ·)
    else if 194 ≤ b0 ∧ b0 ≤ 223 then
      match rest with
      | b1 :: r =>
        if isCont b1 then (utf8Decode r).map (((b0 - 192) * 64 + (b1 - 128)) :: ·) else none
      | _ => none
    else if 224 ≤ b0 ∧ b0 ≤ 239 then
      match rest with
      | b1 :: b2 :: r =>
        -- E0: no overlong form (second byte from A0); ED: no surrogate (second byte up to 9F)
        if (if b0 = 224 then 160 ≤ b1 ∧ b1 ≤ 191 else if b0 = 237 then 128 ≤ b1 ∧ b1 ≤ 159 else isCont b1 = true)
            ∧ isCont b2 = true then
          (utf8Decode r).map (((b0 - 224) * 4096 + (b1 - 128) * 64 + (b2 - 128)) :: ·)
        else none
      | _ => none
    else if 240 ≤ b0 ∧ b0 ≤ 244 then
      match rest with
      | b1 :: b2 :: b3 :: r =>
        -- F0: no overlong form (second byte from 90); F4: nothing above U+10FFFF (second byte up to 8F)
        if (if b0 = 240 then 144 ≤ b1 ∧ b1 ≤ 191 else if b0 = 244 then 128 ≤ b1 ∧ b1 ≤ 143 else isCont b1 = true)
            ∧ isCont b2 = true ∧ isCont b3 = true then
          (utf8Decode r).map (((b0 - 240) * 262144 + (b1 - 128) * 4096 + (b2 - 128) * 64 + (b3 - 128)) :: ·)
        else none
      | _ => none
    else none   -- 80..C1 (continuation or overlong lead), F5..FF

/-- `bytes.decode("latin-1")` -/
def latin1Decode (bs : Bytes) : Str := bs

/-- universal newlines (`newline=None` when reading) -/
def univNl : Str → Str
  | [] => []
  | 13 :: 10 :: t => 10 :: univNl t
  | 13 :: t => 10 :: univNl t
  | c :: t => c :: univNl t

/-- `Scanner._read_file(path)` on the bytes of the file -/
def readFile (bs : Bytes) : Str :=
  match utf8Decode bs with
  | some s => univNl s
  | none => univNl (latin1Decode bs)

/-- `str.encode("utf-8")` for one scalar value (specification side of the decoder) -/
def utf8EncodeCp (c : Nat) : Bytes :=
  if c < 128 then [c]
  else if c < 2048 then [192 + c / 64, 128 + c % 64]
  else if c < 65536 then [224 + c / 4096, 128 + c / 64 % 64, 128 + c % 64]
  else [240 + c / 262144, 128 + c / 4096 % 64, 128 + c / 64 % 64, 128 + c % 64]

def utf8Encode (s : Str) : Bytes := s.flatMap utf8EncodeCp

end CL.Decode
