import CodeLimit.Model.Json
/-!
# The report document: `ReportWriter.to_json`, `ReportReader.from_json`, `Report.__init__`

`ReportData` is what the writer reads from a `Report` object and what the reader puts back:
the `dict`s `codebase.totals`, `codebase.tree`, `codebase.files` are association lists in
insertion order (a Python `dict` has pairwise distinct keys: theorems assume `Nodup` keys).

The in-memory construction of a `Codebase` (`add_file` for every file, then `aggregate`) is the
subject of another model (C07).  The reader re-runs that deterministic construction on the files
it read, in document order; here it is the parameter `build`.  `profileOf` is
`utils.make_profile` (called by `SourceFileEntry.__init__`), also a parameter.

`self.level` of the writer is threaded as an explicit argument: every `_open` is matched by a
`_close` before the enclosing method returns, so the level is a function of the position.

Values that come from the OS or libraries are parameters: `Report.VERSION`, `uuid4()`,
`datetime.now()` (`Report.init`; the reader's `now`).
-/
namespace CL.Json

structure Meas where
  unitName : Str
  sl : Int
  sc : Int
  el : Int
  ec : Int
  value : Int
  deriving Repr, DecidableEq, Inhabited

/-- `SourceFileEntry` without its path -/
structure FileData where
  checksum : Str
  language : Str
  loc : Int
  profile : List Int
  measurements : List Meas
  deriving Repr, DecidableEq, Inhabited

/-- `LanguageTotals` without the language -/
structure Totals where
  files : Int
  loc : Int
  functions : Int
  hard : Int
  unmaintainable : Int
  deriving Repr, DecidableEq, Inhabited

/-- `SourceFolder`: the `name`s of its entries (folders end in `/`) and its profile -/
structure Folder where
  entries : List Str
  profile : List Int
  deriving Repr, DecidableEq, Inhabited

/-- `GithubRepository` -/
structure Repo where
  owner : Str
  name : Str
  branch : Option Str
  tag : Option Str
  deriving Repr, DecidableEq, Inhabited

structure ReportData where
  version : Option Str
  uuid : Str
  timestamp : Str
  root : Str
  repository : Option Repo
  totals : List (Str × Totals)
  tree : List (Str × Folder)
  files : List (Str × FileData)
  deriving Repr, DecidableEq, Inhabited

/-- `Report.__init__`: `version = Report.VERSION`, `uuid = str(uuid4())`,
`timestamp = datetime.now(timezone.utc).isoformat(timespec='seconds')` are parameters; the
codebase part is what `codebase` holds at writing time. -/
def Report.init (version uuid now root : Str) (repository : Option Repo)
    (totals : List (Str × Totals)) (tree : List (Str × Folder)) (files : List (Str × FileData)) :
    ReportData :=
  ⟨some version, uuid, now, root, repository, totals, tree, files⟩

/-! ## `ReportWriter` -/

/-- `_line` at indentation `lvl` -/
def line (p : Bool) (lvl : Nat) (t : Str) : Str :=
  if p then List.replicate lvl 32 ++ t ++ [10] else t

/-- `str.rstrip()` -/
def rstrip (s : Str) : Str := (s.reverse.dropWhile isSpaceChar).reverse

/-- `_collection` -/
def collection (p : Bool) (items : List Str) : Str :=
  let j := (if p then cp! ",\n" else cp! ", ").intercalate (items.map rstrip)
  if p && !items.isEmpty then j ++ [10] else j

/-- `f"{xs}"` for a list of ints: `[a, b, c]` -/
def intListText (xs : List Int) : Str :=
  cp! "[" ++ (cp! ", ").intercalate (xs.map intText) ++ cp! "]"

/-- `_repository_to_json` (the `tag` is not written) -/
def repositoryToJson (p : Bool) (lvl : Nat) (r : Repo) : Str :=
  line p lvl (cp! "\"repository\": {") ++
  collection p [line p (lvl + 2) (cp! "\"owner\": " ++ dumpsStr r.owner),
                line p (lvl + 2) (cp! "\"name\": " ++ dumpsStr r.name),
                line p (lvl + 2) (cp! "\"branch\": " ++ dumpsOpt r.branch)] ++
  line p lvl (cp! "}")

/-- `_totals_item_to_json` -/
def totalsItemToJson (p : Bool) (lvl : Nat) (name : Str) (t : Totals) : Str :=
  line p lvl (dumpsStr name ++ cp! ": {") ++
  collection p [line p (lvl + 2) (cp! "\"files\": " ++ intText t.files),
                line p (lvl + 2) (cp! "\"lines_of_code\": " ++ intText t.loc),
                line p (lvl + 2) (cp! "\"functions\": " ++ intText t.functions),
                line p (lvl + 2) (cp! "\"hard_to_maintain\": " ++ intText t.hard),
                line p (lvl + 2) (cp! "\"unmaintainable\": " ++ intText t.unmaintainable)] ++
  line p lvl (cp! "}")

/-- `_totals_to_json` -/
def totalsToJson (p : Bool) (lvl : Nat) (totals : List (Str × Totals)) : Str :=
  line p lvl (cp! "\"totals\": {") ++
  collection p (totals.map fun kv => totalsItemToJson p (lvl + 2) kv.1 kv.2) ++
  line p lvl (cp! "}")

/-- `_tree_item_entries_to_json` with `_source_folder_entry_to_json` -/
def treeItemEntriesToJson (p : Bool) (lvl : Nat) (f : Folder) : Str :=
  line p lvl (cp! "\"entries\": [") ++
  collection p (f.entries.map fun e => line p (lvl + 2) (dumpsStr e)) ++
  line p lvl (cp! "]")

/-- `_tree_item_to_json` with `_tree_item_profile_to_json` -/
def treeItemToJson (p : Bool) (lvl : Nat) (name : Str) (f : Folder) : Str :=
  line p lvl (dumpsStr name ++ cp! ": {") ++
  collection p [treeItemEntriesToJson p (lvl + 2) f,
                line p (lvl + 2) (cp! "\"profile\": " ++ intListText f.profile)] ++
  line p lvl (cp! "}")

/-- `_tree_to_json` -/
def treeToJson (p : Bool) (lvl : Nat) (tree : List (Str × Folder)) : Str :=
  line p lvl (cp! "\"tree\": {") ++
  collection p (tree.map fun kv => treeItemToJson p (lvl + 2) kv.1 kv.2) ++
  line p lvl (cp! "}")

/-- `_measurement_to_json`: always on one line -/
def measurementToJson (p : Bool) (lvl : Nat) (m : Meas) : Str :=
  line p lvl (
    cp! "{\"unit_name\": " ++ dumpsStr m.unitName ++ cp! ", " ++
    cp! "\"start\": {\"line\": " ++ intText m.sl ++ cp! ", \"column\": " ++ intText m.sc ++ cp! "}, " ++
    cp! "\"end\": {\"line\": " ++ intText m.el ++ cp! ", \"column\": " ++ intText m.ec ++ cp! "}, " ++
    cp! "\"value\": " ++ intText m.value ++ cp! "}")

/-- `_file_measurements_to_json` -/
def fileMeasurementsToJson (p : Bool) (lvl : Nat) (f : FileData) : Str :=
  line p lvl (cp! "\"measurements\": [") ++
  collection p (f.measurements.map fun m => measurementToJson p (lvl + 2) m) ++
  line p lvl (cp! "]")

/-- `_file_to_json` with `_file_checksum_to_json` ... `_file_profile_to_json` -/
def fileToJson (p : Bool) (lvl : Nat) (name : Str) (f : FileData) : Str :=
  line p lvl (dumpsStr name ++ cp! ": {") ++
  collection p [line p (lvl + 2) (cp! "\"checksum\": " ++ dumpsStr f.checksum),
                line p (lvl + 2) (cp! "\"language\": " ++ dumpsStr f.language),
                line p (lvl + 2) (cp! "\"loc\": " ++ intText f.loc),
                line p (lvl + 2) (cp! "\"profile\": " ++ intListText f.profile),
                fileMeasurementsToJson p (lvl + 2) f] ++
  line p lvl (cp! "}")

/-- `_measurements_to_json` (the `"files"` object) -/
def filesToJson (p : Bool) (lvl : Nat) (files : List (Str × FileData)) : Str :=
  line p lvl (cp! "\"files\": {") ++
  collection p (files.map fun kv => fileToJson p (lvl + 2) kv.1 kv.2) ++
  line p lvl (cp! "}")

/-- `_codebase_to_json` -/
def codebaseToJson (p : Bool) (lvl : Nat) (d : ReportData) : Str :=
  line p lvl (cp! "\"codebase\": {") ++
  collection p [totalsToJson p (lvl + 2) d.totals, treeToJson p (lvl + 2) d.tree,
                filesToJson p (lvl + 2) d.files] ++
  line p lvl (cp! "}")

/-- `ReportWriter(report, pretty_print=p).to_json()` -/
def write (p : Bool) (d : ReportData) : Str :=
  line p 0 (cp! "{") ++
  collection p (
    [line p 2 (cp! "\"version\": " ++ dumpsOpt d.version),
     line p 2 (cp! "\"uuid\": " ++ dumpsStr d.uuid),
     line p 2 (cp! "\"timestamp\": " ++ dumpsStr d.timestamp),
     line p 2 (cp! "\"root\": " ++ dumpsStr d.root)] ++
    (match d.repository with
     | some r => [repositoryToJson p 2 r]
     | none => []) ++
    [codebaseToJson p 2 d]) ++
  line p 0 (cp! "}")

/-! ## `ReportReader` -/

/-- what `from_json` can raise on a parsed document -/
inductive RErr where
  | key     -- `KeyError`: a member that is looked up is missing
  | type    -- `TypeError` / `AttributeError`: a value of the wrong JSON type; also stands for
            -- "Python goes on with an ill-typed in-memory report" (e.g. `"loc": 1.5`), which
            -- the typed `ReportData` cannot hold
  deriving Repr, DecidableEq, Inhabited

/-- `v[k]` -/
def getKey (k : Str) : JVal → Except RErr JVal
  | .obj ms => match lookup k ms with
    | some v => .ok v
    | none => .error .key
  | _ => .error .type

def asStr : JVal → Except RErr Str
  | .str s => .ok s
  | _ => .error .type

def asInt : JVal → Except RErr Int
  | .num n => .ok n
  | _ => .error .type

/-- a value that is `str | None` in memory -/
def asOptStr : JVal → Except RErr (Option Str)
  | .null => .ok none
  | .str s => .ok (some s)
  | _ => .error .type

/-- `d[k] if k in d else None` on a `dict` -/
def getOpt (k : Str) : JVal → Except RErr (Option JVal)
  | .obj ms => .ok (lookup k ms)
  | _ => .error .type

/-- `GithubRepository(**v)`: `owner` and `name` are required, `branch` and `tag` optional, any
other keyword is a `TypeError` (so is a missing required one) -/
def readRepository (v : JVal) : Except RErr Repo :=
  match v with
  | .obj ms =>
    if ms.all (fun kv => kv.1 = cp! "owner" || kv.1 = cp! "name" || kv.1 = cp! "branch" || kv.1 = cp! "tag") then
      match lookup (cp! "owner") ms, lookup (cp! "name") ms with
      | some o, some n => do
          let owner ← asStr o
          let name ← asStr n
          let branch ← match lookup (cp! "branch") ms with
            | some b => asOptStr b
            | none => .ok none
          let tag ← match lookup (cp! "tag") ms with
            | some t => asOptStr t
            | none => .ok none
          .ok ⟨owner, name, branch, tag⟩
      | _, _ => .error .type
    else .error .type
  | _ => .error .type

/-- the body of `for m in v["measurements"]` -/
def readMeasurement (m : JVal) : Except RErr Meas := do
  let sl ← (getKey (cp! "start") m >>= getKey (cp! "line")) >>= asInt
  let sc ← (getKey (cp! "start") m >>= getKey (cp! "column")) >>= asInt
  let el ← (getKey (cp! "end") m >>= getKey (cp! "line")) >>= asInt
  let ec ← (getKey (cp! "end") m >>= getKey (cp! "column")) >>= asInt
  let name ← getKey (cp! "unit_name") m >>= asStr
  let value ← getKey (cp! "value") m >>= asInt
  .ok ⟨name, sl, sc, el, ec, value⟩

/-- `if not isinstance(v["measurements"], list): raise TypeError(...)`, then `for m in ...` -/
def iterMeasurements : JVal → Except RErr (List JVal)
  | .arr items => .ok items
  | _ => .error .type

/-- one iteration of `for k, v in d["codebase"]["files"].items()` up to the `SourceFileEntry` -/
def readFile (profileOf : List Meas → List Int) (k : Str) (v : JVal) : Except RErr (Str × FileData) := do
  let ms ← getKey (cp! "measurements") v >>= iterMeasurements
  let measurements ← ms.mapM readMeasurement
  let checksum ← getKey (cp! "checksum") v >>= asStr
  let language ← getKey (cp! "language") v >>= asStr
  let loc ← getKey (cp! "loc") v >>= asInt
  .ok (k, ⟨checksum, language, loc, profileOf measurements, measurements⟩)

/-- `.items()` -/
def items : JVal → Except RErr (List (Str × JVal))
  | .obj ms => .ok ms
  | _ => .error .type

/-- `ReportReader.from_json` after `loads`. `build` is `add_file` on every entry in order followed
by `aggregate`; `codebase.files[path] = entry` is the `dict` assignment `dictOfPairs`. -/
def fromJson (build : List (Str × FileData) → List (Str × Totals) × List (Str × Folder))
    (profileOf : List Meas → List Int) (now : Str) (d : JVal) : Except RErr ReportData := do
  let root ← getKey (cp! "root") d >>= asStr
  let repository ← match (← getOpt (cp! "repository") d) with
    | some r => (readRepository r).map some
    | none => .ok none
  let version ← match (← getOpt (cp! "version") d) with
    | some v => asOptStr v
    | none => .ok none
  let uuid ← getKey (cp! "uuid") d >>= asStr
  let fs ← (getKey (cp! "codebase") d >>= getKey (cp! "files")) >>= items
  let entries ← fs.mapM (fun kv => readFile profileOf kv.1 kv.2)
  let (totals, tree) := build entries
  .ok ⟨version, uuid, now, root, repository, totals, tree, dictOfPairs entries⟩

/-- `pat in s` for strings -/
def isSubstr (pat : Str) : Str → Bool
  | [] => pat.isEmpty
  | c :: t => pat.isPrefixOf (c :: t) || isSubstr pat t

/-- `ReportReader.get_report_version` after `loads`: `d["version"] if "version" in d else None`
(the value is returned as it is). On a list `in` is membership and on a string it is the
substring test; when they hold, `d["version"]` is a `TypeError`. -/
def getReportVersion (d : JVal) : Except RErr (Option JVal) :=
  match d with
  | .obj ms => .ok (lookup (cp! "version") ms)
  | .arr xs => if xs.any (fun x => match x with | .str s => s = cp! "version" | _ => false) then .error .type else .ok none
  | .str s => if isSubstr (cp! "version") s then .error .type else .ok none
  | _ => .error .type

end CL.Json
