import CodeLimit.Model.Scopes
import CodeLimit.Model.Check
/-!
# Which files are analysed: `Scanner.scan_path` and `commands/check.py`

Directory trees are an inductive type; `os.walk` is modelled top-down with the caller's in-place
pruning of `dirs`. Everything that comes from a library or from the operating system is a
parameter (`Oracles`):

* `excluded p`  - `PathSpec.from_lines("gitignore", DEFAULT_EXCLUDES + Configuration.exclude +
  root .gitignore lines).match_file(p)` for the relative path with components `p`;
* `langOf name` - `get_lexer_for_filename(name)` (Pygments looks at the base name only; the
  `code` argument is not passed) followed by the test `lexer.__class__.name in
  Languages.by_name`: `none` stands for `ClassNotFound` *and* for a lexer that is not a supported
  language (both are skipped silently by `scan_path` and by `check_file`);
* `checksum bytes` - `calculate_checksum` (MD5 hex of the file's bytes);
* `decode bytes` - `Scanner._read_file` (`open(path).read()` with the Latin-1 fallback), used by
  both `_analyze_file` and `check_file`;
* `analyze lang text` - `lex(lexer, code, False)` followed by `scan_file(tokens, language)`;
  a Python exception raised there is an `Except.error`.

Contract of the tree: it is a snapshot of a real directory, so names are non-empty, contain no
`/`, and are unique within a directory (`Node.wf`); there are no symbolic links to directories
(`os.walk` lists them in `dirs` but does not descend) and no `..` components in arguments.
A file carries its bytes; `os.walk` hands out names and `open(join(root, name))` reads that
directory entry, which the model expresses by letting the walk carry the bytes along.
The cache (`cached_report`) is `None` here; it is the subject of C09.
-/
namespace CL.Sel

/-- a directory entry -/
inductive Node where
  | file (name : Str) (content : Str)
  | dir (name : Str) (children : List Node)
  deriving Repr, Inhabited

def Node.name : Node → Str
  | .file n _ => n
  | .dir n _ => n

def Node.children : Node → List Node
  | .file _ _ => []
  | .dir _ ch => ch

/-- `name[0] == "."` (names are non-empty) -/
def isHidden : Str → Bool
  | 46 :: _ => true
  | _ => false

/-- the `nondirs` of one `os.walk` step, each with the bytes `open` will read -/
def fileEntries : List Node → List (Str × Str)
  | [] => []
  | .file n c :: r => (n, c) :: fileEntries r
  | .dir _ _ :: r => fileEntries r

mutual
/-- `os.walk` below one entry of `dirs`; `keep` is the caller's in-place filter on `dirs`
(`dirs[:] = [d for d in dirs if keep d]`), `pre` the components of the directory being listed -/
def walkNode (keep : Str → Bool) (pre : List Str) : Node → List (List Str × List (Str × Str))
  | .file _ _ => []
  | .dir n ch =>
    if keep n then (pre ++ [n], fileEntries ch) :: walkList keep (pre ++ [n]) ch else []
/-- the sub-directories of one listing, in listing order, each walked completely before the next -/
def walkList (keep : Str → Bool) (pre : List Str) : List Node → List (List Str × List (Str × Str))
  | [] => []
  | c :: r => walkNode keep pre c ++ walkList keep pre r
end

/-- `os.walk(top)` for a directory `top` with components `pre` and entries `ch`: the sequence of
`(root, files)` the caller's loop body sees (top-down; `top` itself is never filtered) -/
def walkTop (keep : Str → Bool) (pre : List Str) (ch : List Node) : List (List Str × List (Str × Str)) :=
  (pre, fileEntries ch) :: walkList keep pre ch

/-- library and OS functions (see the header for the contract of each) -/
structure Oracles where
  excluded : List Str → Bool
  langOf : Str → Option Nat
  checksum : Str → Str
  decode : Str → Str
  analyze : Nat → Str → Except Err (List Measurement)

/-- a Python `for` loop whose body may raise: the state reached, and the exception if any -/
def forE {α σ : Type} (body : α → σ → σ × Option Err) : List α → σ → σ × Option Err
  | [], s => (s, none)
  | x :: xs, s =>
    match body x s with
    | (s', none) => forE body xs s'
    | (s', some e) => (s', some e)

/-- `os.path.join` of components / what `relpath` prints: components separated by `/` -/
def joinPath : List Str → Str
  | [] => []
  | [c] => c
  | c :: r => c ++ 47 :: joinPath r

/-- `d[k] = v` on an insertion-ordered `dict` -/
def dictSet {β : Type} (d : List (Str × β)) (k : Str) (v : β) : List (Str × β) :=
  if d.any (fun kv => kv.1 == k) then d.map (fun kv => if kv.1 == k then (kv.1, v) else kv)
  else d ++ [(k, v)]

/-! ## `scan_path` -/

/-- `SourceFileEntry` -/
structure FileEntry where
  path : Str
  checksum : Str
  lang : Nat
  loc : Nat
  ms : List Measurement
  deriving Repr, DecidableEq

structure ScanSt where
  /-- instrumentation: `rel_path` of every call of `_analyze_file`, in call order -/
  analysed : List Str
  /-- `Codebase.files` -/
  files : List (Str × FileEntry)
  deriving Repr, DecidableEq

/-- `_analyze_file(path, rel_path, checksum, lexer)` -/
def analyzeFile (O : Oracles) (relPath : Str) (checksum : Str) (lang : Nat) (content : Str) :
    Except Err FileEntry :=
  match O.analyze lang (O.decode content) with
  | .error e => .error e
  | .ok ms => .ok ⟨relPath, checksum, lang, (ms.map (·.len)).foldl (· + ·) 0, ms⟩

/-- `_scan_file(result, lexer, path, file_path, None)` -/
def scanFile (O : Oracles) (rel : List Str) (lang : Nat) (content : Str) (st : ScanSt) :
    ScanSt × Option Err :=
  let checksum := O.checksum content
  let relPath := joinPath rel
  let st := { st with analysed := st.analysed ++ [relPath] }
  match analyzeFile O relPath checksum lang content with
  | .error e => (st, some e)
  | .ok entry => ({ st with files := dictSet st.files entry.path entry }, none)

/-- body of `for file in files:` in `scan_path`; `pre` = components of `root` below the scanned
path, so `pre ++ [name]` are the components of `rel_path` -/
def scanBody (O : Oracles) (pre : List Str) (f : Str × Str) (st : ScanSt) : ScanSt × Option Err :=
  let rel := pre ++ [f.1]
  if O.excluded rel then (st, none)          -- `continue`
  else
    match O.langOf f.1 with
    | none => (st, none)                      -- `ClassNotFound`, or the lexer is not a supported language
    | some lang => scanFile O rel lang f.2 st

/-- body of `for root, dirs, files in os.walk(path.absolute()):` -/
def scanDirBody (O : Oracles) (step : List Str × List (Str × Str)) (st : ScanSt) : ScanSt × Option Err :=
  let files := step.2.filter (fun f => !isHidden f.1)
  forE (scanBody O step.1) files st

structure ScanOut where
  analysed : List Str
  result : Except Err (List (Str × FileEntry))

/-- `scan_path(path)` on the directory `root` (its own name plays no role) -/
def scanPath (O : Oracles) (root : Node) : ScanOut :=
  match root with
  | .file _ _ => ⟨[], .ok []⟩                -- `os.walk` of something that is not a directory yields nothing
  | .dir _ ch =>
    match forE (scanDirBody O) (walkTop (fun d => !isHidden d) [] ch) ⟨[], []⟩ with
    | (st, none) => ⟨st.analysed, .ok st.files⟩
    | (st, some e) => ⟨st.analysed, .error e⟩

/-! ## `check_command` -/

mutual
/-- the entry a path denotes, starting at a node -/
def getNode : Node → List Str → Option Node
  | n, [] => some n
  | .file _ _, _ :: _ => none
  | .dir _ ch, c :: cs => getList ch c cs
/-- look `c` up in a listing, then follow `cs` -/
def getList : List Node → Str → List Str → Option Node
  | [], _, _ => none
  | n :: r, c, cs => if n.name = c then getNode n cs else getList r c cs
end

/-- `abs_path.relative_to(Path.cwd())`: `none` is `ValueError` -/
def relTo : List Str → List Str → Option (List Str)
  | [], p => some p
  | _ :: _, [] => none
  | c :: cs, x :: xs => if c = x then relTo cs xs else none

/-- a command-line argument of `check`; components are relative to the working directory
(`rel…`) or to the base of the tree (`abs…`) -/
inductive CheckArg where
  | relFile (p : List Str)
  | absFile (p : List Str)
  | relDir (p : List Str)
  | absDir (p : List Str)
  deriving Repr, DecidableEq

def CheckArg.isAbs : CheckArg → Bool
  | .relFile _ | .relDir _ => false
  | _ => true

def CheckArg.comps : CheckArg → List Str
  | .relFile p | .absFile p | .relDir p | .absDir p => p

/-- the `Path` object handed to `check_file` -/
structure CPath where
  abs : Bool
  comps : List Str
  deriving Repr, DecidableEq

structure CheckSt where
  /-- instrumentation: every path whose content reaches `lex`/`scan_file` -/
  analysed : List CPath
  /-- `CheckResult.file_list` -/
  fileList : List (CPath × List Measurement)
  deriving Repr, DecidableEq

/-- the `risks` of `check_file` -/
def risksOf (ms : List Measurement) : List Measurement :=
  (ms.filter (fun m => decide (Gen.Logic.check_lists (m.len : Int)))).mergeSort
    (fun a b => decide (b.len ≤ a.len))

/-- `check_file(path, check_result)` -/
def checkFile (O : Oracles) (path : CPath) (content : Str) (st : CheckSt) : CheckSt × Option Err :=
  match O.langOf (path.comps.getLastD []) with
  | none => (st, none)                        -- `ClassNotFound` -> `return`; unsupported lexer: nothing
  | some lang =>
    let st := { st with analysed := st.analysed ++ [path] }
    match O.analyze lang (O.decode content) with
    | .error e => (st, some e)
    | .ok ms => ({ st with fileList := st.fileList ++ [(path, risksOf ms)] }, none)

/-- body of `for file in files:` in the directory branch of `check_command`; `pre` are the
components of `root` from the base of the tree -/
def checkBody (O : Oracles) (cwd pre : List Str) (f : Str × Str) (st : CheckSt) : CheckSt × Option Err :=
  let absPath := pre ++ [f.1]
  match relTo cwd absPath with
  | some rel => if O.excluded rel then (st, none) else checkFile O ⟨true, absPath⟩ f.2 st
  | none => checkFile O ⟨true, absPath⟩ f.2 st   -- `except ValueError: pass`

def checkDirBody (O : Oracles) (cwd : List Str) (step : List Str × List (Str × Str)) (st : CheckSt) :
    CheckSt × Option Err :=
  let files := step.2.filter (fun f => !isHidden f.1)
  forE (checkBody O cwd step.1) files st

/-- body of `for path in paths:`; `fs` is the tree from its base, `cwd` the components of the
working directory -/
def checkArgBody (O : Oracles) (fs : Node) (cwd : List Str) (arg : CheckArg) (st : CheckSt) :
    CheckSt × Option Err :=
  let absComps := if arg.isAbs then arg.comps else cwd ++ arg.comps
  match getNode fs absComps with
  | some (.file _ content) =>
    -- `_handle_file_path`
    if arg.isAbs then checkFile O ⟨true, arg.comps⟩ content st
    else
      match relTo cwd absComps with
      | some rel => if O.excluded rel then (st, none) else checkFile O ⟨false, arg.comps⟩ content st
      | none => checkFile O ⟨false, arg.comps⟩ content st
  | some (.dir _ ch) =>
    forE (checkDirBody O cwd) (walkTop (fun d => !isHidden d) absComps ch) st
  | none => (st, none)

structure CheckOut where
  analysed : List CPath
  result : Except Err (List (CPath × List Measurement))

/-- `check_command(paths, quiet)` up to the report: the files checked with their risks -/
def checkPaths (O : Oracles) (fs : Node) (cwd : List Str) (args : List CheckArg) : CheckOut :=
  match forE (checkArgBody O fs cwd) args ⟨[], []⟩ with
  | (st, none) => ⟨st.analysed, .ok st.fileList⟩
  | (st, some e) => ⟨st.analysed, .error e⟩

end CL.Sel
