import CodeLimit.Model.Codebase
/-!
# Driver operations for `Model/Codebase.lean`

`codebase <naggr> <nfiles> (<path> <lang> <loc> <nmeas> <len>*)*` with strings as
`<n> <codepoint>*` and integers in decimal (a leading `-` is accepted): `add_file` for every
entry in order, then `aggregate` `naggr` times. Reply

`ok L <n> (<lang> <files> <loc> <functions> <hard> <unm>)* T <n> (<key> <nentries> (<0 file|1 folder> <name>)* <p0> <p1> <p2> <p3>)* F <n> (<path> <lang> <loc> <p0> <p1> <p2> <p3> <nmeas> <len>*)* G <total_files> <total_functions> <total_loc> <total_hard> <total_unm> <Codebase.total_loc> <q0> <q1> <q2> <q3>`

(dicts in insertion order; the part before ` G ` can also be produced from the JSON report), or
`err <code>`.

`pathfn <path>` -> `ok <get_parent_folder> <get_basename>`.
-/
namespace CL.Codebase

abbrev P := StateM (List String)

def nextWord : P (Option String) := do
  match (← get) with
  | [] => pure none
  | w :: ws => set ws; pure (some w)

def nextNat : P Nat := do
  match (← nextWord) with
  | some w => pure (w.toNat?.getD 0)
  | none => pure 0

def nextInt : P Int := do
  match (← nextWord) with
  | some w => pure (w.toInt?.getD 0)
  | none => pure 0

def parseStr : P Str := do
  let n ← nextNat
  let mut out := #[]
  for _ in [0:n] do
    out := out.push (← nextNat)
  return out.toList

def parseEntry : P FileEntry := do
  let path ← parseStr
  let lang ← parseStr
  let loc ← nextInt
  let n ← nextNat
  let mut ms := #[]
  for _ in [0:n] do
    ms := ms.push (← nextInt)
  return ⟨path, [], lang, loc, ms.toList⟩

def showStr (s : Str) : String := toString s.length ++ String.join (s.map fun c => s!" {c}")

def showProfile (p : Profile) : String := s!"{p.p0} {p.p1} {p.p2} {p.p3}"

def showEntry : Entry → String
  | .file e => "0 " ++ showStr e.name
  | .folder n => "1 " ++ showStr n

def showCodebase (cb : Codebase) : String :=
  s!"ok L {cb.totals.length}" ++
  String.join (cb.totals.map fun (k, t) =>
    s!" {showStr k} {t.files} {t.loc} {t.functions} {t.hardToMaintain} {t.unmaintainable}") ++
  s!" T {cb.tree.length}" ++
  String.join (cb.tree.map fun (k, f) =>
    s!" {showStr k} {f.entries.length}" ++ String.join (f.entries.map fun e => " " ++ showEntry e) ++
    " " ++ showProfile f.profile) ++
  s!" F {cb.files.length}" ++
  String.join (cb.files.map fun (k, e) =>
    s!" {showStr k} {showStr e.language} {e.loc} {showProfile e.profile} {e.measurements.length}" ++
    String.join (e.measurements.map fun v => s!" {v}")) ++
  s!" G {totalFiles cb.totals} {totalFunctions cb.totals} {totalLoc cb.totals} {totalHardToMaintain cb.totals} {totalUnmaintainable cb.totals} {cb.totalLoc} {showProfile cb.qualityProfile}"

def aggregateN : Nat → Codebase → Except Err Codebase
  | 0, cb => pure cb
  | n + 1, cb => do aggregateN n (← cb.aggregate)

def handleCodebase (cmd : String) (args : List String) : Option String :=
  let run {α} (p : P α) : α := (p.run args).1
  match cmd with
  | "codebase" => some <| run do
      let naggr ← nextNat
      let n ← nextNat
      let mut es := #[]
      for _ in [0:n] do
        es := es.push (← parseEntry)
      return match (do aggregateN naggr (← Codebase.new.addFiles es.toList)) with
        | .error e => s!"err {e.code}"
        | .ok cb => showCodebase cb
  | "pathfn" => some <| run do
      let p ← parseStr
      return s!"ok {showStr (getParentFolder p)} {showStr (getBasename p)}"
  | _ => none

end CL.Codebase
